(* C09: the outlet pixels reported by the non-iterative methods are pairwise distinct fine cells (each lies in its own
   coarse cell, and different coarse cells are disjoint). *)
From Coq Require Import List Arith ZArith Bool Lia.
Import ListNotations.
From PF Require Import Arr Net Elev Upscale UpscaleSpec.

(* dmm / eam: the representative (exit) pixels *)
Theorem rep_pixels_distinct sds upa subncol cs nrow ncol sel idx idx' :
  let rep := repcell sds upa subncol cs nrow ncol sel in
  idx < nrow * ncol -> idx' < nrow * ncol -> idx <> idx' ->
  nth idx rep (length sds) < length sds -> nth idx' rep (length sds) < length sds ->
  nth idx rep (length sds) <> nth idx' rep (length sds).
Proof.
  intros rep Hi Hi' Hne Hs Hs' E.
  destruct (repcell_spec sds upa subncol cs nrow ncol sel) as (_ & H & _). fold rep in H.
  destruct (H idx Hi) as [A|(_ & A & _)]; [lia|]. destruct (H idx' Hi') as [B|(_ & B & _)]; [lia|].
  rewrite E in A. rewrite A in B. contradiction.
Qed.

Lemma nth_map_seq {A} (f : nat -> A) n i d : i < n -> nth i (map f (seq 0 n)) d = f i.
Proof.
  intros Hi. rewrite (nth_indep _ d (f 0)) by (rewrite map_length, seq_length; exact Hi).
  rewrite map_nth, seq_nth by exact Hi. reflexivity.
Qed.

(* eam_plus (= ihu step 1): the outlet pixels *)
Lemma ihu_outlets_nth sds subncol cs nrow ncol rep idx0 : idx0 < nrow * ncol ->
  nth idx0 (ihu_outlets sds subncol cs nrow ncol rep) (length sds) =
  (let s := nth idx0 rep (length sds) in
   if (length sds <=? s) then length sds else out_walk sds subncol cs ncol (S (length sds)) idx0 s).
Proof.
  intros Hi. unfold ihu_outlets. rewrite (nth_map_seq _ _ _ _ Hi). reflexivity.
Qed.

Theorem outlet_pixels_distinct sds upa subncol cs nrow ncol sel idx idx' :
  (forall t, t < length sds -> sd sds t < length sds -> sd sds (sd sds t) < length sds) ->
  let rep := repcell sds upa subncol cs nrow ncol sel in
  let out := ihu_outlets sds subncol cs nrow ncol rep in
  idx < nrow * ncol -> idx' < nrow * ncol -> idx <> idx' ->
  nth idx out (length sds) < length sds -> nth idx' out (length sds) < length sds ->
  nth idx out (length sds) <> nth idx' out (length sds).
Proof.
  intros Hwf rep out Hi Hi' Hne Hs Hs' E.
  destruct (repcell_spec sds upa subncol cs nrow ncol sel) as (_ & H & _). fold rep in H.
  assert (K : forall i, i < nrow * ncol -> nth i out (length sds) < length sds ->
            cellof subncol cs ncol (nth i out (length sds)) = i).
  { intros i Hi0 Ho. unfold out in *. rewrite ihu_outlets_nth in * by exact Hi0. cbv zeta in *.
    destruct (Nat.leb_spec (length sds) (nth i rep (length sds))) as [L|L]; [lia|].
    destruct (H i Hi0) as [A|((C1 & C2 & _) & A & _)]; [lia|].
    destruct (out_walk_spec sds subncol cs nrow ncol Hwf (S (length sds)) i (nth i rep (length sds)) _ C1 C2 A eq_refl) as (_ & B & _); [lia|exact B]. }
  pose proof (K idx Hi Hs) as A. pose proof (K idx' Hi' Hs') as B. rewrite E in A. rewrite A in B. contradiction.
Qed.
