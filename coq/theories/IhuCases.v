(* Regression corpus for the model of upscale.ihu (theories/Ihu.v): the 20 cases of ihu_cases.json, in each of which
   ihu_relocate_outlets / ihu_optimize_rivlen / ihu_minimize_error changed the result of the first stage (up_eam_plus).
   Generated from ihu_cases.json (results of the Python implementation); checked by computation.
   A case is (fine downstream indices with nodata = number of pixels, upstream areas, rows, columns, cell size,
   effective-area map, expected coarse downstream indices with missing = nrow * ncol, expected outlet pixels with
   missing = number of pixels, expected shape). *)
From Coq Require Import List Arith ZArith Bool.
Import ListNotations.
From PF Require Import Arr Upscale Ihu.

Definition nat_list_eqb (a b : list nat) : bool :=
  (length a =? length b) && forallb (fun p => fst p =? snd p) (combine a b).
Record Case := mkCase { k_sds : list nat; k_upa : list Z; k_nr : nat; k_nc : nat; k_cs : nat; k_ea : list bool;
                        k_cds : list nat; k_out : list nat; k_shape : nat * nat }.
Definition case_ok (c : Case) : bool :=
  let '(cds, out, (nrow, ncol)) := up_ihu (k_sds c) (k_upa c) (k_nr c) (k_nc c) (k_cs c) (k_ea c) in
  nat_list_eqb cds (k_cds c) && nat_list_eqb out (k_out c) && (nrow =? fst (k_shape c)) && (ncol =? snd (k_shape c)).
(* the iterative stages did something: the result differs from the first stage *)
Definition case_changed (c : Case) : bool :=
  let '(cds, out, _) := up_eam_plus (k_sds c) (k_upa c) (k_nr c) (k_nc c) (k_cs c) (k_ea c) in
  negb (nat_list_eqb cds (k_cds c) && nat_list_eqb out (k_out c)).
Local Open Scope Z_scope.

(* main corpus, case 1437: 2 x 7, cell size 3; modified by: ihu_minimize_error, ihu_relocate_outlets *)
Definition case_1437 : Case := mkCase
  [14; 1; 1; 14; 10; 5; 5; 1; 1; 2; 2; 10; 11; 5]%nat
  [-9999; 9; 6; -9999; 1; 3; 1; 1; 1; 1; 4; 2; 1; 1]
  2%nat 7%nat 3%nat
  [false; true; false; false; true; false; false; true; true; true; true; true; true; true]
  [0; 1; 1]%nat
  [1; 5; 13]%nat
  (1, 3)%nat.
(* main corpus, case 1517: 3 x 6, cell size 4; modified by: ihu_optimize_rivlen *)
Definition case_1517 : Case := mkCase
  [1; 2; 9; 9; 4; 4; 12; 12; 13; 4; 16; 18; 12; 7; 9; 9; 9; 16]%nat
  [1; 2; 3; 1; 12; 1; 1; 3; 1; 10; 1; -9999; 5; 2; 1; 1; 3; 1]
  3%nat 6%nat 4%nat
  [false; true; true; false; false; true; true; true; true; true; true; false; true; true; true; true; true; true]
  [0; 1]%nat
  [12; 4]%nat
  (1, 2)%nat.
(* main corpus, case 2071: 9 x 9, cell size 3; modified by: ihu_minimize_error, ihu_relocate_outlets *)
Definition case_2071 : Case := mkCase
  [1; 11; 12; 4; 5; 5; 5; 15; 17; 0; 1; 3; 12; 3; 23; 23; 15; 17; 28; 29; 21; 22; 32; 33; 15; 17; 16; 19; 19; 21; 22; 41; 33; 43; 33; 81; 28; 47; 48; 29; 41; 51; 32; 43; 43; 54; 55; 47; 49; 59; 60; 43; 81; 43; 54; 65; 65; 49; 50; 60; 69; 69; 70; 73; 74; 65; 57; 59; 78; 70; 80; 70; 72; 74; 75; 65; 81; 78; 78; 80; 80]%nat
  [2; 4; 1; 7; 8; 10; 1; 1; 1; 1; 1; 5; 2; 1; 1; 5; 2; 3; 1; 5; 1; 9; 11; 7; 1; 1; 1; 1; 3; 7; 1; 1; 13; 22; 1; -9999; 1; 1; 1; 1; 1; 3; 1; 29; 1; 1; 1; 2; 2; 5; 2; 4; -9999; 1; 2; 2; 1; 2; 1; 7; 10; 1; 1; 1; 1; 9; 1; 1; 1; 12; 15; 1; 1; 2; 4; 5; -9999; 1; 3; 1; 17]
  9%nat 9%nat 3%nat
  [false; true; false; false; true; false; false; true; false; true; true; true; true; true; true; true; true; true; false; true; false; false; true; false; false; true; false; false; true; false; false; true; false; false; true; false; true; true; true; true; true; true; true; true; true; false; true; false; false; true; false; false; false; false; false; true; false; false; true; false; false; true; false; true; true; true; true; true; true; true; true; true; false; true; false; false; false; false; false; true; false]
  [1; 1; 5; 4; 5; 5; 6; 8; 8]%nat
  [11; 5; 15; 28; 32; 43; 65; 58; 80]%nat
  (3, 3)%nat.
(* main corpus, case 767: 6 x 9, cell size 4; modified by: ihu_minimize_error, ihu_optimize_rivlen, ihu_relocate_outlets *)
Definition case_767 : Case := mkCase
  [1; 2; 12; 13; 14; 14; 14; 16; 54; 19; 19; 12; 22; 22; 22; 14; 16; 16; 19; 29; 30; 31; 31; 31; 32; 34; 34; 54; 29; 39; 31; 41; 41; 54; 42; 43; 37; 29; 39; 31; 41; 41; 41; 42; 43; 37; 38; 39; 40; 41; 41; 41; 42; 54]%nat
  [1; 2; 3; 1; 1; 1; 1; 1; -9999; 1; 1; 1; 5; 2; 5; 1; 3; 1; 1; 4; 1; 1; 13; 1; 1; 1; 1; -9999; 1; 9; 2; 31; 2; -9999; 3; 1; 1; 3; 2; 13; 2; 47; 8; 3; 1; 1; 1; 1; 1; 1; 1; 1; 1; -9999]
  6%nat 9%nat 4%nat
  [false; true; true; false; false; true; true; false; false; true; true; true; true; true; true; true; true; true; true; true; true; true; true; true; true; true; true; false; true; true; false; false; true; false; false; false; false; true; true; false; false; true; true; false; false; true; true; true; true; true; true; true; true; false]
  [4; 1; 1; 4; 4; 6]%nat
  [12; 16; 17; 37; 41; 54]%nat
  (2, 3)%nat.
(* main corpus, case 3039: 5 x 11, cell size 4; modified by: ihu_minimize_error *)
Definition case_3039 : Case := mkCase
  [1; 13; 3; 14; 16; 6; 7; 19; 18; 20; 20; 12; 2; 25; 4; 25; 27; 7; 30; 30; 30; 32; 12; 34; 36; 26; 37; 39; 18; 41; 31; 43; 43; 23; 35; 36; 26; 48; 28; 40; 52; 30; 43; 54; 45; 35; 47; 48; 49; 50; 51; 52; 42; 54; 54]%nat
  [1; 2; 4; 5; 7; 1; 2; 4; 1; 1; 1; 1; 3; 3; 6; 1; 8; 1; 4; 5; 3; 1; 1; 2; 1; 5; 14; 9; 2; 1; 15; 16; 2; 1; 3; 6; 8; 15; 1; 10; 11; 2; 34; 53; 1; 2; 1; 2; 18; 19; 20; 21; 33; 1; 55]
  5%nat 11%nat 4%nat
  [false; true; true; false; false; true; true; false; false; true; true; true; true; true; true; true; true; true; true; true; true; true; true; true; true; true; true; true; true; true; true; true; true; false; true; true; false; false; true; true; false; false; true; true; false; true; true; false; false; true; true; false; false; true; true]
  [1; 4; 5; 1; 2; 5]%nat
  [25; 37; 43; 45; 51; 54]%nat
  (2, 3)%nat.
(* main corpus, case 4901: 9 x 10, cell size 4; modified by: ihu_minimize_error, ihu_optimize_rivlen, ihu_relocate_outlets *)
Definition case_4901 : Case := mkCase
  [10; 2; 3; 4; 13; 90; 16; 90; 18; 8; 1; 90; 90; 23; 90; 90; 25; 8; 18; 18; 90; 90; 33; 33; 23; 34; 90; 90; 90; 39; 31; 22; 23; 44; 44; 44; 25; 90; 90; 49; 30; 31; 31; 44; 44; 90; 90; 90; 90; 58; 90; 62; 63; 44; 43; 90; 67; 56; 57; 58; 90; 52; 63; 64; 53; 54; 66; 76; 90; 90; 81; 81; 83; 90; 83; 84; 75; 86; 67; 79; 90; 82; 83; 84; 84; 90; 76; 90; 79; 79]%nat
  [1; 3; 4; 5; 6; -9999; 1; -9999; 3; 1; 2; -9999; -9999; 7; -9999; -9999; 2; 1; 5; 1; -9999; -9999; 6; 10; 1; 4; -9999; -9999; -9999; 1; 2; 5; 1; 17; 5; 1; 1; -9999; -9999; 2; 1; 1; 1; 3; 34; -9999; -9999; -9999; -9999; 3; -9999; 1; 2; 7; 2; -9999; 7; 6; 5; 1; -9999; 1; 2; 5; 6; 1; 1; 9; -9999; -9999; 1; 1; 1; -9999; 1; 13; 12; 1; 1; 3; -9999; 3; 4; 7; 21; -9999; 2; -9999; 1; 1]
  9%nat 10%nat 4%nat
  [false; true; true; false; false; false; true; false; false; true; true; false; false; true; false; false; true; true; true; true; false; false; true; true; true; true; false; false; false; true; false; true; true; false; false; true; true; false; false; true; false; true; true; false; false; false; false; false; false; true; false; true; true; true; true; false; true; true; true; true; false; true; true; true; true; true; true; true; false; false; false; true; true; false; false; true; true; false; false; true; false; true; true; false; false; false; true; false; false; true]
  [4; 4; 2; 4; 4; 5; 7; 7; 5]%nat
  [3; 34; 18; 63; 44; 79; 83; 84; 89]%nat
  (3, 3)%nat.
(* main corpus, case 3930: 5 x 3, cell size 2; modified by: ihu_minimize_error, ihu_relocate_outlets *)
Definition case_3930 : Case := mkCase
  [3; 0; 4; 4; 8; 8; 9; 4; 10; 9; 14; 10; 9; 10; 14]%nat
  [2; 1; 1; 3; 6; 1; 1; 1; 8; 3; 11; 1; 1; 1; 12]
  5%nat 3%nat 2%nat
  [true; true; true; true; true; true; true; true; true; true; true; true; true; true; true]
  [3; 0; 2; 5; 2; 5]%nat
  [4; 2; 9; 8; 12; 14]%nat
  (3, 2)%nat.
(* main corpus, case 2759: 9 x 12, cell size 4; modified by: ihu_minimize_error, ihu_optimize_rivlen, ihu_relocate_outlets *)
Definition case_2759 : Case := mkCase
  [1; 2; 2; 108; 4; 5; 18; 20; 9; 22; 23; 108; 25; 108; 2; 108; 5; 108; 31; 108; 21; 10; 10; 23; 37; 14; 25; 14; 40; 40; 18; 20; 21; 33; 35; 22; 25; 26; 51; 108; 53; 108; 30; 44; 56; 33; 35; 47; 48; 37; 108; 52; 65; 42; 67; 108; 69; 108; 46; 46; 61; 62; 75; 76; 64; 78; 53; 67; 81; 82; 71; 71; 60; 60; 87; 76; 65; 65; 90; 80; 68; 81; 71; 95; 84; 86; 87; 100; 77; 77; 103; 108; 81; 106; 108; 107; 108; 84; 87; 88; 88; 90; 90; 92; 93; 106; 107; 107]%nat
  [1; 2; 12; -9999; 1; 2; 1; 1; 1; 2; 23; -9999; 1; -9999; 9; -9999; 1; -9999; 9; -9999; 12; 14; 8; 24; 1; 7; 4; 1; 1; 1; 7; 10; 1; 2; 1; 5; 1; 3; 1; -9999; 3; -9999; 6; 1; 2; 1; 3; 1; 1; 1; -9999; 2; 3; 5; 1; -9999; 3; -9999; 1; 1; 3; 4; 5; 1; 1; 22; 1; 2; 3; 4; 1; 7; 1; 1; 1; 6; 8; 10; 23; 1; 2; 32; 5; 1; 2; 1; 2; 5; 8; 1; 26; -9999; 28; 2; -9999; 2; -9999; 1; 1; 1; 6; 1; 1; 27; 1; 1; 4; 7]
  9%nat 12%nat 4%nat
  [false; true; true; false; false; true; true; false; false; true; true; false; true; false; true; false; true; false; true; false; true; true; true; true; true; true; true; true; true; true; true; true; true; true; true; true; false; true; true; false; false; false; true; false; false; true; true; false; false; true; false; false; false; true; true; false; false; false; true; false; true; true; true; true; true; true; true; true; true; true; true; true; true; true; true; true; true; true; true; true; true; true; true; true; false; true; true; false; false; true; true; false; false; true; false; false; false; true; true; false; false; true; true; false; false; true; true; false]
  [0; 2; 2; 3; 5; 5; 3; 4; 8]%nat
  [2; 31; 23; 84; 90; 81; 97; 100; 107]%nat
  (3, 3)%nat.
(* main corpus, case 1078: 5 x 5, cell size 2; modified by: ihu_minimize_error *)
Definition case_1078 : Case := mkCase
  [1; 1; 1; 2; 3; 5; 1; 1; 2; 3; 5; 5; 11; 8; 8; 10; 10; 11; 17; 18; 15; 25; 25; 25; 18]%nat
  [1; 11; 7; 3; 1; 11; 1; 1; 3; 1; 4; 6; 1; 1; 1; 2; 1; 4; 3; 1; 1; -9999; -9999; -9999; 1]
  5%nat 5%nat 2%nat
  [true; true; true; true; true; true; true; true; true; true; true; true; true; true; true; true; true; true; true; true; true; false; false; false; true]
  [0; 0; 1; 3; 3; 1; 3; 9; 4]%nat
  [1; 2; 4; 5; 17; 14; 20; 25; 24]%nat
  (3, 3)%nat.
(* main corpus, case 1845: 7 x 7, cell size 2; modified by: ihu_minimize_error *)
Definition case_1845 : Case := mkCase
  [49; 8; 8; 11; 49; 11; 6; 49; 16; 49; 17; 11; 49; 5; 8; 23; 24; 24; 49; 11; 49; 29; 49; 31; 25; 32; 32; 26; 36; 36; 49; 39; 31; 25; 40; 43; 43; 49; 31; 39; 39; 40; 43; 44; 38; 49; 47; 39; 49]%nat
  [-9999; 1; 1; 1; -9999; 2; 1; -9999; 4; -9999; 1; 5; -9999; 1; 1; 1; 5; 2; -9999; 1; -9999; 1; -9999; 2; 8; 10; 2; 1; 1; 2; -9999; 25; 13; 1; 1; 1; 4; -9999; 9; 31; 3; 1; 1; 7; 8; -9999; 1; 2; -9999]
  7%nat 7%nat 2%nat
  [false; true; true; true; false; true; true; false; true; false; true; true; false; true; true; true; true; true; false; true; false; true; false; true; true; true; true; true; true; true; false; true; true; true; true; true; true; false; true; true; true; true; true; true; true; false; true; true; false]
  [5; 0; 2; 3; 0; 6; 9; 10; 12; 10; 10; 10; 13; 9; 10; 16]%nat
  [8; 2; 11; 6; 14; 24; 25; 27; 36; 31; 39; 34; 43; 44; 47; 49]%nat
  (4, 4)%nat.
(* main corpus, case 2719: 5 x 7, cell size 4; modified by: ihu_optimize_rivlen *)
Definition case_2719 : Case := mkCase
  [8; 0; 2; 9; 10; 4; 35; 15; 16; 8; 16; 10; 35; 35; 22; 23; 22; 24; 35; 11; 35; 28; 28; 29; 23; 24; 26; 35; 28; 22; 22; 24; 32; 32; 35]%nat
  [2; 1; 1; 1; 2; 1; -9999; 1; 5; 2; 5; 2; -9999; -9999; 1; 2; 11; 1; -9999; 1; -9999; 1; 22; 7; 4; 1; 1; -9999; 24; 8; 1; 1; 2; 1; -9999]
  5%nat 7%nat 4%nat
  [false; true; true; false; false; true; false; true; true; true; true; true; false; false; true; true; true; true; false; true; false; false; true; true; false; false; true; false; false; true; true; false; false; true; false]
  [2; 2; 2; 3]%nat
  [23; 11; 28; 32]%nat
  (2, 2)%nat.
(* main corpus, case 4821: 6 x 10, cell size 4; modified by: ihu_minimize_error, ihu_optimize_rivlen *)
Definition case_4821 : Case := mkCase
  [11; 12; 13; 13; 14; 14; 15; 16; 7; 8; 1; 22; 23; 23; 23; 14; 25; 17; 17; 18; 11; 31; 23; 23; 23; 24; 25; 26; 37; 38; 20; 22; 23; 24; 23; 24; 36; 36; 37; 38; 31; 32; 33; 33; 35; 35; 35; 36; 37; 38; 51; 42; 41; 44; 45; 45; 46; 46; 47; 49]%nat
  [1; 2; 1; 1; 1; 1; 1; 3; 2; 1; 1; 4; 3; 3; 5; 2; 4; 3; 2; 1; 2; 1; 8; 46; 22; 7; 2; 1; 1; 1; 1; 3; 3; 5; 1; 9; 11; 8; 5; 1; 1; 2; 3; 1; 2; 3; 3; 2; 1; 2; 1; 2; 1; 1; 1; 1; 1; 1; 1; 1]
  6%nat 10%nat 4%nat
  [false; true; true; false; false; true; true; false; false; true; true; true; true; true; true; true; true; true; true; true; true; true; true; true; true; true; true; true; true; true; false; true; true; false; false; true; true; false; false; true; false; true; true; false; false; true; true; false; false; true; true; true; true; true; true; true; true; true; true; true]
  [0; 1; 2; 0; 0; 1]%nat
  [23; 36; 17; 42; 45; 49]%nat
  (2, 3)%nat.
(* main corpus, case 4415: 8 x 4, cell size 2; modified by: ihu_minimize_error *)
Definition case_4415 : Case := mkCase
  [1; 2; 2; 32; 32; 9; 32; 32; 12; 9; 32; 32; 9; 13; 9; 32; 13; 12; 13; 32; 16; 32; 18; 32; 25; 25; 32; 32; 25; 25; 32; 32]%nat
  [1; 2; 3; -9999; -9999; 1; -9999; -9999; 1; 6; -9999; -9999; 3; 5; 1; -9999; 2; 1; 2; -9999; 1; -9999; 1; -9999; 1; 4; -9999; -9999; 1; 1; -9999; -9999]
  8%nat 4%nat 2%nat
  [true; true; true; false; false; true; false; false; true; true; false; false; true; true; true; false; true; true; true; false; true; false; true; false; true; true; false; false; true; true; false; false]
  [1; 1; 2; 2; 5; 5; 6; 8]%nat
  [1; 2; 9; 14; 16; 13; 25; 32]%nat
  (4, 2)%nat.
(* main corpus, case 97: 5 x 7, cell size 2; modified by: ihu_relocate_outlets *)
Definition case_97 : Case := mkCase
  [8; 9; 10; 10; 10; 11; 12; 15; 16; 17; 17; 17; 18; 19; 22; 23; 24; 24; 24; 25; 26; 22; 23; 24; 24; 24; 25; 26; 22; 23; 24; 24; 24; 25; 26]%nat
  [1; 1; 1; 1; 1; 1; 1; 1; 2; 2; 4; 2; 2; 1; 1; 2; 3; 9; 3; 2; 1; 1; 4; 8; 35; 8; 4; 1; 1; 1; 1; 1; 1; 1; 1]
  5%nat 7%nat 2%nat
  [true; true; true; true; true; true; true; true; true; true; true; true; true; true; true; true; true; true; true; true; true; true; true; true; true; true; true; true; true; true; true; true; true; true; true]
  [5; 5; 5; 2; 5; 5; 5; 6; 4; 5; 5; 6]%nat
  [8; 10; 12; 6; 22; 24; 25; 20; 28; 30; 32; 34]%nat
  (3, 4)%nat.
(* main corpus, case 3719: 6 x 6, cell size 4; modified by: ihu_minimize_error, ihu_optimize_rivlen *)
Definition case_3719 : Case := mkCase
  [36; 36; 36; 36; 4; 4; 6; 6; 9; 4; 4; 36; 12; 36; 9; 10; 10; 17; 36; 14; 15; 16; 17; 17; 19; 19; 21; 21; 23; 23; 25; 36; 27; 27; 29; 29]%nat
  [-9999; -9999; -9999; -9999; 18; 1; 2; 1; 1; 7; 9; -9999; 1; -9999; 5; 2; 6; 7; -9999; 4; 1; 5; 1; 5; 1; 2; 1; 3; 1; 3; 1; -9999; 1; 1; 1; 1]
  6%nat 6%nat 4%nat
  [false; false; false; false; false; true; true; true; true; true; true; false; true; false; true; true; true; true; false; true; true; false; false; true; false; true; true; false; false; true; true; false; true; true; true; true]
  [1; 1; 1; 3]%nat
  [21; 4; 25; 17]%nat
  (2, 2)%nat.
(* main corpus, case 753: 9 x 10, cell size 4; modified by: ihu_minimize_error, ihu_relocate_outlets *)
Definition case_753 : Case := mkCase
  [11; 12; 3; 3; 5; 5; 5; 7; 7; 90; 11; 11; 3; 12; 90; 5; 7; 7; 90; 28; 11; 11; 11; 12; 15; 24; 15; 90; 17; 28; 20; 22; 21; 22; 23; 26; 90; 26; 29; 28; 40; 90; 43; 32; 35; 90; 35; 37; 59; 38; 60; 40; 42; 44; 43; 44; 90; 46; 58; 58; 51; 51; 52; 54; 90; 54; 65; 90; 77; 68; 70; 70; 71; 63; 63; 90; 85; 77; 87; 68; 70; 70; 81; 83; 83; 74; 76; 77; 77; 78]%nat
  [1; 1; 1; 7; 1; 15; 1; 10; 1; -9999; 1; 23; 5; 1; -9999; 12; 1; 7; -9999; 1; 2; 15; 3; 2; 2; 1; 9; -9999; 6; 3; 1; 1; 14; 1; 1; 6; -9999; 2; 2; 1; 5; -9999; 3; 13; 3; -9999; 2; 1; 1; 1; 1; 4; 2; 1; 9; 1; -9999; 1; 3; 2; 2; 1; 1; 6; -9999; 2; 1; -9999; 3; 1; 6; 2; 1; 1; 4; -9999; 2; 8; 2; 1; 1; 2; 1; 2; 1; 3; 1; 3; 1; 1]
  9%nat 10%nat 4%nat
  [false; true; true; false; false; true; true; false; false; false; true; true; true; true; false; true; true; true; false; true; true; true; true; true; true; true; true; false; true; true; false; true; true; false; false; true; false; false; false; true; false; false; true; false; false; false; true; false; false; true; true; true; true; true; true; true; false; true; true; true; true; true; true; true; false; true; true; false; true; true; false; true; true; false; false; false; true; false; false; true; false; true; true; false; false; true; true; false; false; true]
  [0; 1; 2; 0; 4; 5; 6; 3; 4]%nat
  [11; 5; 7; 63; 77; 58; 70; 85; 89]%nat
  (3, 3)%nat.
(* main corpus, case 1573: 9 x 10, cell size 2; modified by: ihu_minimize_error, ihu_relocate_outlets *)
Definition case_1573 : Case := mkCase
  [10; 90; 2; 2; 14; 4; 5; 17; 18; 8; 20; 11; 11; 2; 23; 25; 25; 16; 27; 18; 30; 10; 32; 33; 34; 35; 25; 16; 38; 18; 40; 31; 21; 22; 23; 24; 35; 46; 27; 48; 40; 40; 31; 52; 33; 44; 56; 36; 48; 59; 90; 90; 61; 42; 63; 90; 45; 67; 47; 58; 70; 61; 61; 52; 53; 75; 56; 66; 68; 68; 70; 81; 81; 73; 84; 85; 75; 66; 90; 68; 80; 70; 71; 82; 73; 74; 85; 76; 88; 90]%nat
  [1; -9999; 3; 1; 3; 2; 1; 1; 2; 1; 42; 2; 1; 1; 4; 1; 11; 2; 5; 1; 43; 40; 38; 27; 21; 14; 1; 8; 1; 1; 44; 4; 39; 37; 22; 20; 5; 1; 2; 1; 46; 1; 3; 1; 9; 8; 2; 4; 2; 1; -9999; -9999; 4; 2; 1; -9999; 7; 1; 3; 2; 1; 6; 1; 2; 1; 1; 4; 2; 3; 1; 7; 3; 1; 9; 7; 4; 2; 1; -9999; 1; 1; 5; 2; 1; 8; 6; 1; 1; 1; -9999]
  9%nat 10%nat 2%nat
  [true; false; true; true; true; true; true; true; true; true; true; true; true; true; true; true; true; true; true; true; true; true; true; true; true; true; true; true; true; true; true; true; true; true; true; true; true; true; true; true; true; true; true; true; true; true; true; true; true; true; false; false; true; true; true; false; true; true; true; true; true; true; true; true; true; true; true; true; true; true; true; true; true; true; true; true; true; true; false; true; true; true; true; true; true; true; true; true; true; false]
  [5; 1; 6; 7; 3; 10; 0; 6; 7; 3; 10; 11; 6; 12; 8; 15; 16; 22; 13; 19; 15; 20; 16; 17; 24]%nat
  [10; 2; 14; 16; 18; 30; 32; 34; 36; 38; 40; 31; 44; 56; 58; 70; 73; 74; 66; 68; 81; 82; 84; 86; 88]%nat
  (5, 5)%nat.
(* main corpus, case 1899: 5 x 8, cell size 4; modified by: ihu_minimize_error, ihu_relocate_outlets *)
Definition case_1899 : Case := mkCase
  [1; 10; 2; 10; 13; 13; 7; 7; 1; 18; 18; 40; 12; 20; 7; 7; 25; 25; 27; 28; 28; 28; 29; 30; 25; 25; 35; 28; 37; 37; 37; 39; 25; 25; 35; 28; 37; 37; 37; 39]%nat
  [1; 3; 1; 1; 1; 1; 1; 4; 1; 1; 5; -9999; 1; 3; 1; 1; 1; 1; 7; 1; 4; 1; 1; 1; 1; 6; 1; 8; 18; 2; 2; 1; 1; 1; 1; 3; 1; 25; 1; 2]
  5%nat 8%nat 4%nat
  [false; true; true; false; false; true; true; false; true; true; true; false; true; true; true; true; true; true; true; true; true; true; true; true; false; true; true; false; false; true; true; false; false; true; true; false; false; true; true; false]
  [0; 1; 0; 3]%nat
  [25; 7; 33; 37]%nat
  (2, 2)%nat.
(* main corpus, case 134: 12 x 12, cell size 3; modified by: ihu_minimize_error, ihu_relocate_outlets *)
Definition case_134 : Case := mkCase
  [0; 2; 14; 3; 144; 5; 18; 20; 21; 144; 144; 11; 144; 14; 14; 3; 29; 29; 5; 31; 33; 32; 34; 22; 144; 36; 14; 144; 144; 41; 17; 31; 33; 33; 33; 34; 37; 37; 39; 39; 144; 41; 31; 55; 144; 56; 46; 58; 144; 60; 38; 51; 64; 41; 42; 68; 67; 70; 57; 70; 60; 72; 73; 63; 63; 76; 144; 78; 68; 56; 81; 82; 84; 72; 61; 76; 87; 144; 65; 68; 67; 68; 93; 70; 96; 84; 73; 99; 76; 144; 78; 144; 80; 92; 105; 94; 108; 144; 109; 99; 87; 100; 113; 102; 116; 93; 119; 95; 108; 108; 122; 122; 99; 112; 102; 144; 103; 104; 117; 130; 121; 108; 121; 112; 135; 114; 113; 144; 129; 116; 141; 142; 132; 134; 121; 134; 136; 124; 137; 140; 140; 140; 141; 142]%nat
  [1; 1; 2; 2; -9999; 3; 1; 1; 1; -9999; -9999; 1; -9999; 1; 5; 1; 1; 2; 2; 1; 2; 2; 2; 1; -9999; 1; 1; -9999; -9999; 4; 1; 4; 3; 10; 4; 1; 2; 3; 2; 3; -9999; 6; 2; 1; -9999; 1; 1; 1; -9999; 1; 1; 1; 1; 1; 1; 2; 3; 3; 2; 1; 2; 2; 1; 3; 2; 16; -9999; 13; 11; 1; 6; 1; 6; 3; 1; 1; 19; -9999; 15; 1; 9; 7; 2; 1; 8; 1; 1; 22; 1; -9999; 1; -9999; 8; 7; 3; 2; 9; -9999; 1; 37; 2; 1; 10; 7; 3; 4; 1; 1; 23; 2; 1; 1; 14; 12; 2; -9999; 6; 2; 1; 2; 1; 11; 3; 1; 3; 1; 1; -9999; 1; 2; 3; 1; 1; 1; 6; 4; 1; 2; 1; 1; 9; 7; 3; 1]
  12%nat 12%nat 3%nat
  [false; true; false; false; false; false; false; true; false; false; false; false; false; true; true; true; true; true; true; true; true; true; true; true; false; true; false; false; false; false; false; true; false; false; true; false; false; true; false; false; false; false; false; true; false; false; true; false; false; true; true; true; true; true; true; true; true; true; true; true; false; true; false; false; true; false; false; true; false; false; true; false; false; true; false; false; true; false; false; true; false; false; true; false; true; true; true; true; true; false; true; false; true; true; true; true; false; false; false; false; true; false; false; true; false; false; true; false; false; true; false; false; true; false; false; false; false; false; true; false; true; true; true; true; true; true; true; false; true; true; true; true; false; true; false; false; true; false; false; true; false; false; true; false]
  [0; 1; 2; 3; 4; 9; 6; 6; 12; 9; 5; 10; 12; 9; 14; 14]%nat
  [14; 5; 31; 33; 37; 65; 68; 70; 96; 99; 80; 93; 108; 112; 140; 141]%nat
  (4, 4)%nat.
(* main corpus, case 4422: 10 x 9, cell size 4; modified by: ihu_optimize_rivlen, ihu_relocate_outlets *)
Definition case_4422 : Case := mkCase
  [10; 2; 3; 4; 5; 15; 15; 15; 16; 19; 2; 3; 22; 23; 23; 23; 15; 16; 19; 29; 29; 31; 32; 32; 32; 33; 16; 37; 29; 39; 40; 41; 41; 41; 42; 34; 46; 46; 39; 49; 50; 51; 51; 51; 52; 46; 46; 39; 49; 59; 60; 60; 60; 90; 46; 65; 66; 90; 59; 69; 70; 70; 70; 73; 74; 75; 76; 77; 77; 77; 70; 70; 82; 82; 84; 85; 85; 85; 77; 70; 70; 90; 82; 84; 85; 85; 85; 77; 78; 79]%nat
  [1; 1; 4; 6; 7; 8; 1; 1; 1; 1; 2; 1; 1; 1; 1; 15; 4; 1; 1; 3; 1; 1; 2; 18; 1; 1; 1; 1; 1; 6; 1; 2; 22; 2; 2; 1; 1; 2; 1; 9; 2; 27; 3; 1; 1; 1; 6; 1; 1; 11; 3; 32; 2; -9999; 1; 1; 1; -9999; 1; 13; 38; 1; 1; 1; 1; 2; 2; 1; 1; 14; 45; 1; 1; 2; 2; 3; 3; 20; 2; 2; 1; -9999; 4; 1; 4; 32; 1; 1; 1; 1]
  10%nat 9%nat 4%nat
  [false; true; true; false; false; true; true; false; false; true; true; true; true; true; true; true; true; true; true; true; true; true; true; true; true; true; true; false; true; true; false; false; true; true; false; false; false; true; true; false; false; true; true; false; false; true; true; true; true; true; true; true; true; false; true; true; true; false; true; true; true; true; true; false; true; true; false; false; true; true; false; false; false; true; true; false; false; true; true; false; false; false; true; true; true; true; true; true; true; true]
  [1; 4; 1; 7; 4; 4; 6; 7; 4]%nat
  [3; 32; 17; 39; 70; 62; 82; 85; 89]%nat
  (3, 3)%nat.

Definition ihu_cases : list Case :=
  [case_1437; case_1517; case_2071; case_767; case_3039; case_4901; case_3930; case_2759; case_1078; case_1845; case_2719; case_4821; case_4415; case_97; case_3719; case_753; case_1573; case_1899; case_134; case_4422].

Lemma ihu_cases_agree : forallb case_ok ihu_cases = true.
Proof. vm_compute. reflexivity. Qed.
Lemma ihu_cases_changed : forallb case_changed ihu_cases = true.
Proof. vm_compute. reflexivity. Qed.
