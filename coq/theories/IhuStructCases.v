(* The four structural theorems on the iterative method (IhuD8, IhuOut, IhuValid, IhuDistinct), instantiated on every case of
   the regression corpus IhuCases.v (20 rasters on which the iterative stages change the result of eam_plus): all
   hypotheses are boolean checks evaluated by vm_compute; the topological order is computed by `topo_order`. *)
From Coq Require Import List Arith ZArith Bool Lia.
Import ListNotations.
From PF Require Import Arr Net Elev Upscale UpscaleD8 UpscaleNoErr Ihu IhuCases IhuD8 IhuOut IhuValid IhuDistinct.

Fixpoint depth (sds : list nat) (fuel i : nat) : option nat :=
  match fuel with O => None | S f => if dsf sds i =? i then Some 0 else option_map S (depth sds f (dsf sds i)) end.
(* pits first, then the pixels one step above a pit, ... *)
Definition topo_order (sds : list nat) : list nat :=
  let n := length sds in
  flat_map (fun d => filter (fun i => validb sds i && match depth sds (S n) i with Some d' => d' =? d | None => false end)
                            (seq 0 n)) (seq 0 (S n)).

Definition case_hyps (c : Case) : bool :=
  let sq := topo_order (k_sds c) in
  (0 <? k_cs c) && (0 <? k_nc c) && (length (k_sds c) =? k_nr c * k_nc c) &&
  check_topo (k_sds c) sq && check_complete (k_sds c) sq && check_d8 (k_sds c) (k_nc c) &&
  check_cross (k_sds c) (k_ea c) (k_nc c) (k_cs c) && check_upa (k_sds c) (k_upa c).

Lemma corpus_hyps : forallb case_hyps ihu_cases = true.
Proof. vm_compute. reflexivity. Qed.

Lemma corpus_no_marker : forallb (fun c => forallb (fun x => x <=? fst (k_shape c) * snd (k_shape c)) (k_cds c)) ihu_cases = true.
Proof. vm_compute. reflexivity. Qed.

Section OneCase.
Variable c : Case.
Hypothesis Hin : In c ihu_cases.
Let sq := topo_order (k_sds c).

Lemma hyps : 0 < k_cs c /\ 0 < k_nc c /\ length (k_sds c) = k_nr c * k_nc c /\
  check_topo (k_sds c) sq = true /\ check_complete (k_sds c) sq = true /\ check_d8 (k_sds c) (k_nc c) = true /\
  check_cross (k_sds c) (k_ea c) (k_nc c) (k_cs c) = true /\ check_upa (k_sds c) (k_upa c) = true.
Proof.
  pose proof corpus_hyps as H. rewrite forallb_forall in H. specialize (H c Hin). unfold case_hyps in H. cbv zeta in H.
  fold sq in H. repeat (apply andb_true_iff in H; destruct H as [H ?]).
  apply Nat.ltb_lt in H. repeat split; try assumption; [apply Nat.ltb_lt; assumption|apply Nat.eqb_eq; assumption].
Qed.

Theorem corpus_links_d8 :
  let '(cds, out, (nrow, ncol)) := up_ihu (k_sds c) (k_upa c) (k_nr c) (k_nc c) (k_cs c) (k_ea c) in
  forall idx0, idx0 < nrow * ncol -> nth idx0 cds (nrow * ncol) < nrow * ncol ->
  in_d8 idx0 (nth idx0 cds (nrow * ncol)) ncol = true.
Proof.
  destruct hyps as (H1 & H2 & H3 & H4 & H5 & H6 & H7 & H8).
  apply (up_ihu_links_d8_checked _ sq _ _ _ _ _ H1 H2 H3 H4 H5 H6 H7).
Qed.

Theorem corpus_outlets_valid :
  let '(cds, out, (nrow, ncol)) := up_ihu (k_sds c) (k_upa c) (k_nr c) (k_nc c) (k_cs c) (k_ea c) in
  forall idx0, nth idx0 out (length (k_sds c)) < length (k_sds c) ->
  Upscale.sd (k_sds c) (nth idx0 out (length (k_sds c))) < length (k_sds c).
Proof.
  destruct hyps as (H1 & H2 & H3 & H4 & H5 & H6 & H7 & H8).
  apply (up_ihu_outlets_valid_topo _ sq _ _ _ _ _ (check_topo_sound _ _ H4) (check_complete_sound _ _ H5)).
Qed.

Theorem corpus_valid_iff_outlet :
  let '(cds, out, (nrow, ncol)) := up_ihu (k_sds c) (k_upa c) (k_nr c) (k_nc c) (k_cs c) (k_ea c) in
  no_marker cds (nrow * ncol) ->
  length cds = nrow * ncol /\ length out = nrow * ncol /\
  forall idx0, idx0 < nrow * ncol ->
    (nth idx0 cds (nrow * ncol) = nrow * ncol <-> nth idx0 out (length (k_sds c)) = length (k_sds c)) /\
    (nth idx0 cds (nrow * ncol) < nrow * ncol <-> nth idx0 out (length (k_sds c)) < length (k_sds c)).
Proof.
  destruct hyps as (H1 & H2 & H3 & H4 & H5 & H6 & H7 & H8).
  apply (up_ihu_valid_iff_outlet_checked _ sq _ _ _ _ _ H1 H2 H3 H4 H5 H6 H7 H8).
Qed.

Theorem corpus_outlet_cell_valid :
  let '(cds, out, (nrow, ncol)) := up_ihu (k_sds c) (k_upa c) (k_nr c) (k_nc c) (k_cs c) (k_ea c) in
  no_marker cds (nrow * ncol) ->
  forall idx0, idx0 < nrow * ncol -> nth idx0 out (length (k_sds c)) < length (k_sds c) ->
    Upscale.sd (k_sds c) (nth idx0 out (length (k_sds c))) < length (k_sds c) /\
    sub2idx (nth idx0 out (length (k_sds c))) (k_nc c) (k_cs c) ncol < nrow * ncol /\
    nth (sub2idx (nth idx0 out (length (k_sds c))) (k_nc c) (k_cs c) ncol) cds (nrow * ncol) < nrow * ncol /\
    nth (sub2idx (nth idx0 out (length (k_sds c))) (k_nc c) (k_cs c) ncol) out (length (k_sds c)) < length (k_sds c).
Proof.
  destruct hyps as (H1 & H2 & H3 & H4 & H5 & H6 & H7 & H8).
  apply (up_ihu_outlet_cell_valid_checked _ sq _ _ _ _ _ H1 H2 H3 H4 H5 H6 H7 H8).
Qed.

Theorem corpus_outlets_distinct :
  let '(cds, out, (nrow, ncol)) := up_ihu (k_sds c) (k_upa c) (k_nr c) (k_nc c) (k_cs c) (k_ea c) in
  forall idx idx', idx < nrow * ncol -> idx' < nrow * ncol -> idx <> idx' ->
  nth idx out (length (k_sds c)) < length (k_sds c) -> nth idx out (length (k_sds c)) <> nth idx' out (length (k_sds c)).
Proof.
  destruct hyps as (H1 & H2 & H3 & H4 & H5 & H6 & H7 & H8).
  apply (up_ihu_outlets_distinct_checked _ sq _ _ _ _ _ H1 H2 H3 H4 H5).
Qed.
End OneCase.

Print Assumptions corpus_links_d8.
Print Assumptions corpus_outlets_valid.
Print Assumptions corpus_valid_iff_outlet.
Print Assumptions corpus_outlet_cell_valid.
Print Assumptions corpus_outlets_distinct.
