(* The library's default order, the breadth-first order core.idxs_seq from the complete pit list
   (order_cells('walk'), Rank.idxs_seq / Rank.bfs), is a level order; hence the own-area bound of
   basins.subbasins_area (AreaOwn.area_own_bound) holds for it. *)
From Coq Require Import List Arith ZArith Lia Bool Sorted.
Import ListNotations.
From PF Require Import Arr Net Rank RankSpec Stream Subbas AreaOwnDefs AreaOwn AreaOwnEx.
Local Open Scope nat_scope.

Section Sorted.
Variable lev : nat -> nat.
Notation R := (fun x y : nat => lev x <= lev y).

Lemma ssorted_app (l1 l2 : list nat) : StronglySorted R l1 -> StronglySorted R l2 ->
  (forall x y, In x l1 -> In y l2 -> lev x <= lev y) -> StronglySorted R (l1 ++ l2).
Proof.
  intros H1 H2 Hc. induction H1 as [|h t Hs IH Hf]; cbn [app]; [exact H2|].
  constructor.
  - apply IH. intros x y Hx Hy. apply Hc; [right; exact Hx|exact Hy].
  - apply Forall_forall. intros y Hy. apply in_app_or in Hy. destruct Hy as [Hy|Hy].
    + rewrite Forall_forall in Hf. apply Hf. exact Hy.
    + apply Hc; [left; reflexivity|exact Hy].
Qed.

Lemma ssorted_prefix (l1 l2 : list nat) : StronglySorted R (l1 ++ l2) -> StronglySorted R l1.
Proof.
  induction l1 as [|h t IH]; intros H; [constructor|].
  cbn [app] in H. inversion H as [|h' l' Hs Hf]; subst. constructor; [apply IH; exact Hs|].
  rewrite Forall_forall in *. intros y Hy. apply Hf. apply in_or_app. left. exact Hy.
Qed.

Lemma ssorted_const (l : list nat) k : (forall c, In c l -> lev c = k) -> StronglySorted R l.
Proof.
  induction l as [|h t IH]; intros H; constructor.
  - apply IH. intros c Hc. apply H. right. exact Hc.
  - apply Forall_forall. intros y Hy. rewrite (H h (or_introl eq_refl)), (H y (or_intror Hy)). lia.
Qed.
End Sorted.

(* ---------- the breadth-first queue keeps the levels sorted ---------- *)
Section Walk.
Variable ds : list nat.
Variable lev : nat -> nat.
Hypothesis Hrec : forall c, drains ds c -> dsf ds c <> c -> lev c = S (lev (dsf ds c)).
Notation R := (fun x y : nat => lev x <= lev y).

(* dequeued cells followed by the queue are sorted by level; the queue spans at most two levels *)
Definition lvinv (queue acc : list nat) : Prop :=
  StronglySorted R (rev acc ++ queue) /\
  (forall x q, queue = x :: q -> forall c, In c q -> lev c <= S (lev x)).

Lemma queue_drains x q acc : binv ds (x :: q) acc -> drains ds x.
Proof.
  intros (I1 & _ & I3 & _). destruct (I3 x (or_introl eq_refl)) as [Hv [Hp|Hd]].
  - exists 0. split; [exact Hv|exact Hp].
  - apply drains_up; [exact Hv|]. apply (topo_drains ds (rev acc)); [exact I1|]. rewrite <- in_rev. exact Hd.
Qed.

Lemma ups_lev x q acc c : x < size ds -> binv ds (x :: q) acc -> In c (ups ds x) -> lev c = S (lev x).
Proof.
  intros Hx Hb Hc. apply ups_In in Hc. destruct Hc as (Hc1 & Hc2 & Hc3).
  assert (Hd : drains ds c).
  { apply drains_up; [split; [exact Hc1|rewrite Hc2; exact Hx]|]. rewrite Hc2. apply (queue_drains x q acc Hb). }
  rewrite <- Hc2. apply Hrec; [exact Hd|]. rewrite Hc2. auto.
Qed.

Lemma lvinv_step x q acc : x < size ds -> binv ds (x :: q) acc -> lvinv (x :: q) acc ->
  lvinv (q ++ ups ds x) (x :: acc).
Proof.
  intros Hx Hb [L1 L2].
  assert (Hu : forall c, In c (ups ds x) -> lev c = S (lev x)) by (intros c Hc; apply (ups_lev x q acc c Hx Hb Hc)).
  assert (Hq : forall c, In c q -> lev c <= S (lev x)) by (apply (L2 x q eq_refl)).
  assert (Ha : forall y, In y (rev acc) -> lev y <= lev x).
  { intros y Hy. apply (sorted_app_le lev (rev acc) (x :: q) L1 y x Hy). left. reflexivity. }
  split.
  - cbn [rev]. rewrite <- app_assoc. cbn [app].
    assert (E : rev acc ++ x :: q ++ ups ds x = (rev acc ++ x :: q) ++ ups ds x) by (rewrite <- app_assoc; reflexivity).
    rewrite E. apply ssorted_app; [exact L1|apply (ssorted_const lev _ (S (lev x))); exact Hu|].
    intros y c Hy Hc. rewrite (Hu c Hc). apply in_app_or in Hy. destruct Hy as [Hy|[<-|Hy]].
    + assert (H := Ha y Hy). lia.
    + lia.
    + apply Hq. exact Hy.
  - intros y q' E c Hc. destruct q as [|y0 q0].
    + cbn [app] in E. assert (Hy : In y (ups ds x)) by (rewrite E; left; reflexivity).
      assert (Hc' : In c (ups ds x)) by (rewrite E; right; exact Hc).
      rewrite (Hu y Hy), (Hu c Hc'). lia.
    + cbn [app] in E. inversion E; subst y0 q'.
      assert (Hxy : lev x <= lev y).
      { assert (L1' : StronglySorted R ((rev acc ++ [x]) ++ y :: q0)) by (rewrite <- app_assoc; exact L1).
        apply (sorted_app_le lev (rev acc ++ [x]) (y :: q0) L1' x y); [apply in_or_app; right; left; reflexivity|left; reflexivity]. }
      apply in_app_or in Hc. destruct Hc as [Hc|Hc].
      * assert (H := Hq c (or_intror Hc)). lia.
      * rewrite (Hu c Hc). lia.
Qed.

Lemma bfs_sorted fuel : forall queue acc, binv ds queue acc -> lvinv queue acc ->
  StronglySorted R (bfs ds fuel queue acc).
Proof.
  induction fuel as [|f IH]; intros queue acc Hb Hl; cbn [bfs].
  - destruct Hl as [L1 _]. apply (ssorted_prefix lev (rev acc) queue L1).
  - destruct queue as [|x q].
    + destruct Hl as [L1 _]. rewrite app_nil_r in L1. exact L1.
    + assert (Hx : x < size ds).
      { apply (binv_bound ds (x :: q) acc x Hb). apply in_or_app. right. left. reflexivity. }
      apply IH; [apply binv_step; auto|apply lvinv_step; auto].
Qed.
End Walk.

(* ---------- idxs_seq from the complete pit list ---------- *)
Section IdxsSeq.
Variable ds : list nat.
Hypothesis Hwf : wf ds.
Variable pits : list nat.
Hypothesis Hp : forall p, In p pits <-> p < size ds /\ dsf ds p = p.
Hypothesis Hnd : NoDup pits.

Theorem idxs_seq_topo : topo ds (idxs_seq ds pits).
Proof. apply (walk_topo ds Hwf pits Hp Hnd). Qed.

Theorem idxs_seq_closed : upstream_closed ds (idxs_seq ds pits).
Proof.
  destruct (walk_topo ds Hwf pits Hp Hnd) as [_ Hin]. intros c Hc Hd.
  apply Hin. apply Hin in Hd. apply drains_up; auto.
  split; [exact Hc|]. destruct (drains_valid ds _ Hd) as [H _]. exact H.
Qed.

Lemma rkn_rec c : drains ds c -> dsf ds c <> c -> rkn ds c = S (rkn ds (dsf ds c)).
Proof.
  intros Hd Np. assert (Hv := drains_valid ds c Hd). destruct (drains_steps ds c Hd) as [k Hk].
  destruct k as [|k]; [exfalso; apply Np; destruct Hk as [H _]; exact H|].
  assert (Hk' : steps ds (dsf ds c) k).
  { destruct Hk as [H1 H2]. split; [exact H1|]. intros m Hm. apply (H2 (S m)). lia. }
  rewrite (rkn_steps ds Hwf c (S k) Hv Hk). rewrite (rkn_steps ds Hwf (dsf ds c) k (Hwf c Hv) Hk'). reflexivity.
Qed.

Lemma rkn_pit c : valid ds c -> dsf ds c = c -> rkn ds c = 0.
Proof. intros Hv Ep. apply (rkn_steps ds Hwf c 0 Hv). apply steps_0. exact Ep. Qed.

(* the breadth-first order lists the cells by non-decreasing number of steps to the pit *)
Theorem idxs_seq_sorted : StronglySorted (fun x y => rkn ds x <= rkn ds y) (idxs_seq ds pits).
Proof.
  unfold idxs_seq. apply (bfs_sorted ds (rkn ds) rkn_rec).
  - split; [constructor|]. split; [exact Hnd|]. split.
    + intros c Hc. apply Hp in Hc. destruct Hc as [Hc Hd]. split; [split; auto; rewrite Hd; auto|left; auto].
    + intros c _ _ [].
  - assert (Hz : forall c, In c pits -> rkn ds c = 0).
    { intros c Hc. apply Hp in Hc. destruct Hc as [Hc Hd]. apply rkn_pit; [split; auto; rewrite Hd; auto|exact Hd]. }
    split.
    + cbn [rev app]. apply (ssorted_const (rkn ds) pits 0). exact Hz.
    + intros x q E c Hc. rewrite (Hz c) by (rewrite E; right; exact Hc). lia.
Qed.

Theorem idxs_seq_level : level_order ds (idxs_seq ds pits).
Proof.
  destruct (walk_topo ds Hwf pits Hp Hnd) as [_ Hin]. exists (rkn ds). split.
  - intros c Hc Np. apply rkn_rec; [apply Hin; exact Hc|exact Np].
  - exact idxs_seq_sorted.
Qed.

Local Open Scope Z_scope.
Theorem area_own_bound_idxs_seq uparea amin :
  length uparea = length ds ->
  accumulates ds (idxs_seq ds pits) uparea ->
  let r := subbasins_area ds (idxs_seq ds pits) (main_upstream ds uparea 0) uparea amin in
  forall x, In x (snd r) -> dsf ds x <> x -> amin < own_area ds (fst r) uparea x.
Proof.
  intros Hlen Hac. apply area_own_bound; auto.
  - exact idxs_seq_topo.
  - exact idxs_seq_closed.
  - exact idxs_seq_level.
Qed.
End IdxsSeq.

Print Assumptions idxs_seq_level.
Print Assumptions area_own_bound_idxs_seq.
