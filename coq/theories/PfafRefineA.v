(* Pfafstetter refinement, part A: arithmetic of the label embedding v |-> 10 v + 1, list lemmas,
   one pop of the work loop as a function, the level of a label, fill lemmas. *)
From Coq Require Import List Arith ZArith Bool Lia.
Import ListNotations.
From PF Require Import Arr Net SweepDown Fill FillSpec Rank Stream Subbas PfafDigits.
From PF Require Import PfafClosureA PfafClosureB.
Local Open Scope Z_scope.

(* ---------- the embedding of the labels of depth d into the labels of depth d + 1 ---------- *)
Definition fz (v : Z) : Z := if v =? 0 then 0 else 10 * v + 1.
Definition FE (e : Z * Z) : Z * Z := (fz (fst e), snd e).

Lemma fz_0 : fz 0 = 0.
Proof. reflexivity. Qed.

Lemma fz_pos v : v <> 0 -> fz v = 10 * v + 1.
Proof. intros H. unfold fz. destruct (Z.eqb_spec v 0) as [E|E]; [contradiction|reflexivity]. Qed.

Lemma fz_nz v : fz v = 0 <-> v = 0.
Proof.
  unfold fz. destruct (Z.eqb_spec v 0) as [E|E]; [tauto|]. split; intros H; [lia|contradiction].
Qed.

Lemma fz_inj a b : fz a = fz b -> a = b.
Proof.
  unfold fz. destruct (Z.eqb_spec a 0) as [Ea|Ea]; destruct (Z.eqb_spec b 0) as [Eb|Eb]; intros H; lia.
Qed.

Lemma fz_eqb a b : (fz a =? fz b) = (a =? b).
Proof.
  destruct (Z.eqb_spec a b) as [E|E]; [subst; apply Z.eqb_refl|].
  apply Z.eqb_neq. intros H. apply E. apply fz_inj. exact H.
Qed.

Lemma fz_eqb0 a : (fz a =? 0) = (a =? 0).
Proof. rewrite <- fz_0 at 1. apply fz_eqb. Qed.

Lemma fz_div v : 0 <= v -> fz v / 10 = v.
Proof.
  intros H. unfold fz. destruct (Z.eqb_spec v 0) as [E|E]; [subst; reflexivity|].
  replace (10 * v + 1) with (1 + v * 10) by ring. rewrite Z.div_add by lia. reflexivity.
Qed.

Lemma fz_add p k q : 0 < p -> 0 <= k -> 0 <= q -> fz (p + k * q) = fz p + k * (10 * q).
Proof. intros Hp Hk Hq. rewrite !fz_pos by nia. ring. Qed.

Lemma nth_map_fz (b : list Z) c : nth c (map fz b) 0 = fz (nth c b 0).
Proof. rewrite <- fz_0 at 1. apply map_nth. Qed.

Lemma map_upd {A B} (g : A -> B) (l : list A) i v : map g (upd l i v) = upd (map g l) i (g v).
Proof.
  revert i; induction l as [|h t IH]; intros [|i]; cbn [upd map]; try reflexivity. rewrite IH. reflexivity.
Qed.

Lemma ones_S k : ones (S k) = 10 * ones k + 1.
Proof.
  induction k as [|k IH]; [reflexivity|].
  cbn [ones] in *. rewrite Nat2Z.inj_succ, Z.pow_succ_r by lia. lia.
Qed.

Lemma pow10_S k : 0 <= k -> pow10 (k + 1) = 10 * pow10 k.
Proof. intros H. unfold pow10. replace (k + 1) with (Z.succ k) by lia. apply Z.pow_succ_r. exact H. Qed.

Lemma mod_div10 x m : 0 < m -> (x mod (10 * m)) / 10 = (x / 10) mod m.
Proof.
  intros Hm. rewrite Z.rem_mul_r by lia.
  replace (x mod 10 + 10 * ((x / 10) mod m)) with (x mod 10 + ((x / 10) mod m) * 10) by ring.
  rewrite Z.div_add by lia. rewrite (Z.div_small (x mod 10)); [lia|]. apply Z.mod_pos_bound. lia.
Qed.

(* ---------- lists ---------- *)
Lemma filter_filter_ext {A} (h1 g1 h2 g2 : A -> bool) l :
  (forall x, In x l -> h1 x && g1 x = h2 x && g2 x) -> filter g1 (filter h1 l) = filter g2 (filter h2 l).
Proof.
  induction l as [|a t IH]; intros H; cbn [filter]; [reflexivity|].
  pose proof (H a (or_introl eq_refl)) as Ha.
  assert (IH' : filter g1 (filter h1 t) = filter g2 (filter h2 t)) by (apply IH; intros x Hx; apply H; right; exact Hx).
  destruct (h1 a) eqn:E1; destruct (h2 a) eqn:E2; cbn [filter andb] in *.
  - rewrite Ha. destruct (g2 a); [f_equal|]; exact IH'.
  - rewrite Ha. exact IH'.
  - rewrite <- Ha. exact IH'.
  - exact IH'.
Qed.

(* ---------- one pop of the work loop ---------- *)
Section Pop.
Variables (ds main : list nat) (uparea strord : list Z) (trib : list nat) (depth : Z).

Definition pfaf_pop (b : list Z) (idxs : list nat) (pfaf0 d0 : Z) (labs' : list (Z * Z))
  : list Z * list nat * list (Z * Z) :=
  let idxs0 := filter (fun idx => (nth idx b 0 =? 0) && (nth (dsf ds idx) b 0 =? pfaf0)) trib in
  match idxs0 with
  | [] => (b, idxs, labs')
  | _ =>
    let top4 := firstn 4 (sort_desc (fun i => nth i uparea 0) idxs0) in
    let ordered := sort_desc (fun i => nth (dsf ds i) uparea 0) top4 in
    let '(b', ix, lb, _) := fold_left (pfaf_trib ds main strord depth d0 pfaf0)
                                      (combine (seq 0 (length ordered)) ordered) (b, idxs, labs', pfaf0) in
    (b', ix, lb)
  end.

Lemma pfaf_loop_S fuel b idxs pfaf0 d0 labs' :
  pfaf_loop ds main uparea strord trib depth (S fuel) b idxs ((pfaf0, d0) :: labs') =
  let '(b', ix, lb) := pfaf_pop b idxs pfaf0 d0 labs' in
  pfaf_loop ds main uparea strord trib depth fuel b' ix lb.
Proof.
  cbn [pfaf_loop]. unfold pfaf_pop.
  destruct (filter (fun idx => (nth idx b 0 =? 0) && (nth (dsf ds idx) b 0 =? pfaf0)) trib) as [|e0 rs]; [reflexivity|].
  destruct (fold_left _ _ _) as [[[b' ix] lb] pi]. reflexivity.
Qed.

Lemma pfaf_loop_nil fuel b idxs : pfaf_loop ds main uparea strord trib depth fuel b idxs [] = (b, idxs).
Proof. destruct fuel; reflexivity. Qed.
End Pop.

(* ---------- the level of a label ---------- *)
Definition lvl_le (depth v d' : Z) : Prop := forall pos, 0 <= pos <= depth - d' -> digit pos v = 1.
(* a cell of (cut) stream order s may carry the label v *)
Definition okv (depth s v : Z) : Prop := v = 0 \/ forall d', 1 <= d' -> lvl_le depth v d' -> s <= d'.

Lemma lvl_child_gt depth d0 p k d' : 1 <= d0 <= depth -> unrefined depth d0 p -> 1 <= k <= 8 ->
  lvl_le depth (p + k * pow10 (depth - d0)) d' -> d0 < d'.
Proof.
  intros Hd [_ Hu] Hk Hl. destruct (Z.lt_ge_cases d0 d') as [H|H]; [exact H|exfalso].
  specialize (Hl (depth - d0) ltac:(lia)). unfold pow10 in Hl.
  rewrite digit_add_at in Hl; [lia|lia|apply Hu; lia|lia].
Qed.

Lemma lvl_child_le depth d0 p k d' : 1 <= d0 <= depth -> unrefined depth d0 p -> d0 < d' ->
  lvl_le depth (p + k * pow10 (depth - d0)) d'.
Proof.
  intros Hd [_ Hu] Hlt pos Hpos. unfold pow10. rewrite digit_add_low by lia. apply Hu. lia.
Qed.

Lemma lvl_self depth d0 p d' : unrefined depth d0 p -> d0 <= d' -> lvl_le depth p d'.
Proof. intros [_ Hu] Hle pos Hpos. apply Hu. lia. Qed.

Lemma okv_child depth d0 p k s : 1 <= d0 <= depth -> unrefined depth d0 p -> 1 <= k <= 8 ->
  s <= d0 + 1 -> okv depth s (p + k * pow10 (depth - d0)).
Proof.
  intros Hd Hu Hk Hs. right. intros d' Hd' Hl.
  pose proof (lvl_child_gt depth d0 p k d' Hd Hu Hk Hl). lia.
Qed.

Lemma okv_relabel depth d0 p j k s : 1 <= d0 <= depth -> unrefined depth d0 p -> 1 <= k <= 8 ->
  p + j * pow10 (depth - d0) <> 0 ->
  okv depth s (p + j * pow10 (depth - d0)) -> okv depth s (p + k * pow10 (depth - d0)).
Proof.
  intros Hd Hu Hk Hnz [E|H]; [contradiction|]. right. intros d' Hd' Hl.
  pose proof (lvl_child_gt depth d0 p k d' Hd Hu Hk Hl) as Hlt.
  apply H; [exact Hd'|]. apply lvl_child_le; assumption.
Qed.

Lemma okv_pop depth d0 p s : unrefined depth d0 p -> 1 <= d0 -> p <> 0 -> okv depth s p -> s <= d0.
Proof.
  intros Hu Hd Hp [E|H]; [contradiction|]. apply H; [exact Hd|]. apply (lvl_self depth d0); [exact Hu|lia].
Qed.

(* ---------- filling upstream: an unlabelled cell takes the value of its downstream cell ---------- *)
Section FillStep.
Variable ds : list nat.
Variables (sq : list nat) (data : list Z).
Hypothesis Ht : topo ds sq.
Hypothesis Hlen : length data = length ds.
Let Lf := fillnodata_upstream ds sq data 0.

Lemma fill_labelled c : nth c data 0 <> 0 -> nth c Lf 0 = nth c data 0.
Proof.
  intros Hl. destruct (in_dec Nat.eq_dec c sq) as [Y|N].
  - apply (fill_at_seeded ds sq data Ht Hlen c Y Hl).
  - destruct (fill_up_spec ds 0 data sq Hlen Ht) as (_ & _ & H3). apply H3. exact N.
Qed.

Lemma fill_unlabelled_step c : In c sq -> nth c data 0 = 0 -> dsf ds c <> c -> nth c Lf 0 = nth (dsf ds c) Lf 0.
Proof.
  intros Hc Hz Hnp.
  destruct (sweep_down_spec ds 0 (fill_f 0) sq data Hlen Ht) as [H1 _].
  pose proof (H1 c Hc) as V.
  assert (Hd : In (dsf ds c) sq) by (apply (topo_closed ds sq); assumption).
  destruct (val_inv_step ds 0 _ _ c _ V Hnp) as (v' & Hv' & E).
  pose proof (val_fun ds 0 _ _ _ _ _ Hv' (H1 _ Hd)) as E2.
  unfold Lf, fillnodata_upstream. rewrite E, <- E2, Hz. unfold fill_f.
  destruct (Z.eqb_spec v' 0) as [E3|E3]; cbn [Z.eqb andb negb]; [symmetry; exact E3|reflexivity].
Qed.

Lemma fill_unlabelled_pit c : In c sq -> nth c data 0 = 0 -> dsf ds c = c -> nth c Lf 0 = 0.
Proof.
  intros Hc Hz Hp.
  destruct (sweep_down_spec ds 0 (fill_f 0) sq data Hlen Ht) as [H1 _].
  pose proof (val_inv_pit ds 0 _ _ c _ (H1 c Hc) Hp) as E.
  unfold Lf, fillnodata_upstream. rewrite E, Hz. reflexivity.
Qed.
End FillStep.
