(* C13: walks on a loop-free network are short.  From any cell of a topological order a pit is reached in fewer
   steps than there are cells (pigeonhole), so every `while True` trace of the library that follows idxs_ds stops
   within n iterations, and the models' fuel (n or n + 1) is never exhausted. *)
From Coq Require Import List Arith ZArith Bool Lia.
Import ListNotations.
From PF Require Import Arr Net Elev ElevSpec Upscale.

Section Bound.
Variable ds : list nat.
Variable sq : list nat.
Hypothesis Ht : topo ds sq.
Let n := length ds.

Lemma orbit_nodup i k : In i sq -> (forall j, (j < k)%nat -> dsf ds (iter ds j i) <> iter ds j i) ->
  NoDup (map (fun j => iter ds j i) (seq 0 (S k))).
Proof.
  intros Hi Hnp.
  assert (Hinj : forall a b, (a < b)%nat -> (b <= k)%nat -> iter ds a i <> iter ds b i).
  { intros a b Hab Hb Heq. apply (Hnp a); [lia|].
    apply (topo_acyclic ds sq (iter ds a i) (b - a - 1)); [exact Ht|apply topo_closed_iter; auto|].
    replace (S (b - a - 1)) with (b - a)%nat by lia.
    rewrite <- iter_add. replace (a + (b - a))%nat with b by lia. auto. }
  assert (G : forall m, (m <= S k)%nat -> NoDup (map (fun j => iter ds j i) (seq 0 m))).
  { induction m as [|m IH]; intros Hm; [constructor|].
    rewrite seq_S, map_app. simpl. apply NoDup_snoc; [apply IH; lia|].
    intros Hin. apply in_map_iff in Hin. destruct Hin as [a [Ha Hin]]. apply in_seq in Hin.
    apply (Hinj a m); auto; lia. }
  apply G. lia.
Qed.

Theorem path_bound i : In i sq -> exists k, (k < n)%nat /\ pit ds (iter ds k i) /\
  (forall j, (j < k)%nat -> dsf ds (iter ds j i) <> iter ds j i).
Proof.
  intros Hi. destruct (topo_drains ds sq i Ht Hi) as [kp Hkp].
  destruct (least_witness (fun j => pitb ds (iter ds j i)) kp) as [k [Hk [Hpk Hnk]]]; [apply pitb_pit; auto|].
  apply pitb_pit in Hpk.
  assert (Hnp : forall j, (j < k)%nat -> dsf ds (iter ds j i) <> iter ds j i).
  { intros j Hj Heq. specialize (Hnk j Hj).
    assert (pitb ds (iter ds j i) = true); [|congruence].
    apply pitb_pit. split; auto. apply (topo_valid ds sq); auto. apply topo_closed_iter; auto. }
  exists k. split; [|split; auto].
  pose proof (orbit_nodup i k Hi Hnp) as Hnd.
  assert (Hb : (length (map (fun j => iter ds j i) (seq 0 (S k))) <= n)%nat).
  { apply NoDup_bound; auto. intros x Hx. apply in_map_iff in Hx. destruct Hx as [j [<- _]].
    assert (Hv : valid ds (iter ds j i)) by (apply (topo_valid ds sq); auto; apply topo_closed_iter; auto).
    destruct Hv as [Hv _]. exact Hv. }
  rewrite map_length, seq_length in Hb. lia.
Qed.

(* the connection-check walk of upscale_error (and equally ihu's next_outlet) never exhausts its fuel *)
Theorem err_walk_terminates om s : In s sq -> (err_walk ds (S n) om s < n)%nat.
Proof.
  intros Hs. destruct (path_bound s Hs) as [k [Hk [Hp _]]].
  assert (G : forall fuel s k, In s sq -> (k < fuel)%nat -> pit ds (iter ds k s) -> (err_walk ds fuel om s < n)%nat).
  { induction fuel as [|f IH]; intros s0 k0 Hs0 Hk0 Hp0; [lia|]. cbn [err_walk].
    assert (Hv : (Upscale.sd ds s0 < n)%nat).
    { assert (Hv : valid ds s0) by (apply (topo_valid ds sq); auto). destruct Hv as [_ Hv]. exact Hv. }
    destruct (nth (Upscale.sd ds s0) om false || (Upscale.sd ds s0 =? s0)%nat) eqn:E; [exact Hv|].
    apply orb_false_iff in E. destruct E as [_ E]. apply Nat.eqb_neq in E.
    destruct k0 as [|k0].
    - simpl in Hp0. destruct Hp0 as [_ Hp0]. unfold Upscale.sd in E. unfold dsf, size in Hp0. contradiction.
    - apply (IH (Upscale.sd ds s0) k0); [apply (topo_closed ds sq); auto|lia|exact Hp0]. }
  apply (G (S n) s k); auto.
Qed.
End Bound.

(* core._trace / path / snap in the downstream direction: a result is produced with fuel n, whatever the mask,
   the maximum length and the step lengths are *)
From PF Require Import Trace TraceSpec.
Section TraceBound.
Variable ds : list nat.
Variable sq : list nat.
Hypothesis Ht : topo ds sq.

Lemma orbit_iter m i : TraceSpec.orbit ds m i = iter ds m i.
Proof. revert i; induction m as [|m IH]; intros i; simpl; auto. Qed.

Theorem trace_terminates mask maxlen len cur d0 : In cur sq ->
  exists r, trace ds mask maxlen len (length ds) cur d0 = Some r.
Proof.
  intros Hc. destruct (path_bound ds sq Ht cur Hc) as [k [Hk [Hp _]]].
  apply (trace_total ds mask maxlen len (length ds) cur d0 k); [lia|].
  unfold stops. rewrite orbit_iter.
  assert (He : at_end ds (iter ds k cur) = true).
  { unfold at_end. destruct Hp as [_ Hp]. unfold nx. unfold dsf, size in Hp. rewrite Hp, Nat.eqb_refl. reflexivity. }
  rewrite He, orb_true_r. reflexivity.
Qed.
End TraceBound.

(* ---------- the traces of upscale.py never run out of fuel on a loop-free fine network ---------- *)
Section UpscaleWalks.
Variable sds : list nat.
Variable sq : list nat.
Hypothesis Ht : topo sds sq.
Variables subncol cs nrow ncol : nat.
Variable ea : list bool.
Notation nsub := (length sds).
Notation nc := (nrow * ncol)%nat.
Notation cellof := (cellof subncol cs ncol).
Hypothesis Hcell : forall t, (t < nsub)%nat -> (cellof t < nc)%nat.

Lemma sq_lt s : In s sq -> (s < nsub)%nat /\ (dsf sds s < nsub)%nat.
Proof. intros Hs. destruct (topo_valid sds sq s Ht Hs) as [H1 H2]. split; auto. Qed.

(* generic: a walk that stops at the latest at a pit returns before the fuel runs out *)
Lemma walk_fuel (A : Type) (walk : nat -> nat -> A) (bad : A -> Prop) :
  (forall f s, In s sq -> dsf sds s = s -> ~ bad (walk (S f) s)) ->
  (forall f s, In s sq -> dsf sds s <> s -> bad (walk (S f) s) -> bad (walk f (dsf sds s))) ->
  forall s, In s sq -> ~ bad (walk (S nsub) s).
Proof.
  intros Hpit Hstep s Hs. destruct (path_bound sds sq Ht s Hs) as [k [Hk [Hp _]]].
  assert (G : forall fuel s k, In s sq -> (k < fuel)%nat -> pit sds (iter sds k s) -> ~ bad (walk fuel s)).
  { induction fuel as [|f IH]; intros s0 k0 Hs0 Hk0 Hp0; [lia|].
    destruct (Nat.eq_dec (dsf sds s0) s0) as [E|E]; [apply Hpit; auto|].
    intros Hb. apply Hstep in Hb; auto.
    destruct k0 as [|k0]; [destruct Hp0 as [_ Hp0]; simpl in Hp0; contradiction|].
    apply (IH (dsf sds s0) k0); auto; [apply (topo_closed sds sq); auto|lia]. }
  apply (G (S nsub) s k); auto.
Qed.

(* eam_nextidx: the trace returns the index of a coarse cell *)
Theorem eam_walk_terminates idx0 s : In s sq ->
  (eam_walk sds subncol cs nrow ncol ea (S nsub) idx0 s < nc)%nat.
Proof.
  intros Hs.
  destruct (Nat.lt_ge_cases (eam_walk sds subncol cs nrow ncol ea (S nsub) idx0 s) nc) as [H|H]; auto. exfalso.
  refine (walk_fuel nat (fun f s => eam_walk sds subncol cs nrow ncol ea f idx0 s) (fun r => (nc <= r)%nat) _ _ s Hs H).
  - intros f s0 Hs0 Hp. cbn [eam_walk]. change (Upscale.sd sds s0) with (dsf sds s0). rewrite Hp, Nat.eqb_refl.
    destruct (sq_lt s0 Hs0) as [H1 _]. pose proof (Hcell s0 H1). lia.
  - intros f s0 Hs0 Hnp. cbn [eam_walk]. change (Upscale.sd sds s0) with (dsf sds s0).
    destruct (Nat.eqb_spec (dsf sds s0) s0); [contradiction|].
    destruct (negb (cellof (dsf sds s0) =? idx0)%nat && eaf ea (dsf sds s0)); auto.
    intros Hb. destruct (sq_lt s0 Hs0) as [_ H2]. pose proof (Hcell _ H2). lia.
Qed.

(* ihu_outlets: the trace returns a pixel *)
Theorem out_walk_terminates idx0 s : In s sq -> (out_walk sds subncol cs ncol (S nsub) idx0 s < nsub)%nat.
Proof.
  intros Hs. destruct (Nat.lt_ge_cases (out_walk sds subncol cs ncol (S nsub) idx0 s) nsub) as [H|H]; auto. exfalso.
  refine (walk_fuel nat (fun f s => out_walk sds subncol cs ncol f idx0 s) (fun r => (nsub <= r)%nat) _ _ s Hs H).
  - intros f s0 Hs0 Hp. cbn [out_walk]. change (Upscale.sd sds s0) with (dsf sds s0). rewrite Hp, Nat.eqb_refl, orb_true_r.
    destruct (sq_lt s0 Hs0). lia.
  - intros f s0 Hs0 Hnp. cbn [out_walk]. change (Upscale.sd sds s0) with (dsf sds s0).
    destruct (negb (idx0 =? cellof (dsf sds s0))%nat || (dsf sds s0 =? s0)%nat); auto.
    intros Hb. destruct (sq_lt s0 Hs0). lia.
Qed.

(* dmm_nextidx: the trace returns the index of a coarse cell *)
Theorem dmm_walk_terminates idx0 s0 s : In s sq ->
  (dmm_walk sds subncol cs nrow ncol (S nsub) idx0 s0 s (cellof s) < nc)%nat.
Proof.
  intros Hs. destruct (Nat.lt_ge_cases (dmm_walk sds subncol cs nrow ncol (S nsub) idx0 s0 s (cellof s)) nc) as [H|H]; auto. exfalso.
  refine (walk_fuel nat (fun f s => dmm_walk sds subncol cs nrow ncol f idx0 s0 s (cellof s)) (fun r => (nc <= r)%nat) _ _ s Hs H).
  - intros f s1 Hs1 Hp. cbn [dmm_walk]. change (Upscale.sd sds s1) with (dsf sds s1). rewrite Hp, Nat.eqb_refl.
    destruct (sq_lt s1 Hs1) as [H1 _]. pose proof (Hcell s1 H1). lia.
  - intros f s1 Hs1 Hnp. cbn [dmm_walk]. change (Upscale.sd sds s1) with (dsf sds s1).
    destruct (Nat.eqb_spec (dsf sds s1) s1); [contradiction|].
    destruct (negb (cellof (dsf sds s1) =? idx0)%nat && dmm_outside subncol cs ncol idx0 s0 s1); auto.
    intros Hb. destruct (sq_lt s1 Hs1) as [H1 _]. pose proof (Hcell s1 H1). lia.
Qed.
End UpscaleWalks.
