From Coq Require Import List Arith ZArith QArith Qround Bool.
Import ListNotations.
From PF Require Import Geo Glue.
Local Open Scope Z_scope.

Definition q_in (l : list Z) (k : nat) : Q := Qmake (nth (2 * k) l 0) (Z.to_pos (nth (2 * k + 1) l 1)).
Definition q_out (q : Q) : list Z := let r := Qred q in [Qnum r; Zpos (Qden r)].
Definition aff_in (l : list Z) : affine := {| ta := q_in l 0; tc := q_in l 1; te := q_in l 2; tf := q_in l 3 |}.

Definition run_c17 (k : Z) (args : list (list Z)) : list (list Z) :=
  let t := aff_in (arg 0 args) in
  if k =? 1700 then [[0]]   (* float-formula cases: decided on the implementation side *)
  else if k =? 1701 then let '(x, y) := xy t (argz 1 args) (argz 2 args) in [q_out x ++ q_out y]
  else if k =? 1702 then
    match coords_to_idx t (argz 1 args) (argz 2 args) (q_in (arg 3 args) 0) (q_in (arg 3 args) 1) with
    | Some i => [[0; i]] | None => [[1]] end
  else if k =? 1703 then
    match idx_to_coords t (argz 1 args) (argz 2 args) (argz 3 args) with
    | Some (x, y) => [[0]; q_out x ++ q_out y] | None => [[1]] end
  else if k =? 1704 then
    let '(w, s, e, n) := array_bounds t (argz 1 args) (argz 2 args) in [q_out w ++ q_out s ++ q_out e ++ q_out n]
  else [[-999]].
