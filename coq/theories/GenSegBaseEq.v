(* Lemmas shared by the GenSeg*Eq.v files (generated/GenSeg.v, tools/gen_seg.py): the loop `for i in range(m): out[i] = ...`
   whose body may fail, the temporary boolean array of the outlet pixels, and an option-valued version of the segment walk
   Ucat.seg (None when the fuel is used up, where seg stops silently). *)
From Coq Require Import List Arith ZArith Bool Lia.
Import ListNotations.
From PF Require Import Arr Net Ucat GenCoreBaseEq.
From PFG Require Import GenCore.

Lemma ofold_app {A B} (f : A -> B -> option A) l1 l2 a :
  ofold f (l1 ++ l2) a = match ofold f l1 a with Some s => ofold f l2 s | None => None end.
Proof.
  unfold ofold. rewrite fold_left_app. destruct (fold_left _ l1 (Some a)); [reflexivity|apply ofold_none].
Qed.

Lemma ofold_one {A B} (f : A -> B -> option A) x a : ofold f [x] a = f a x.
Proof. rewrite ofold_cons. destruct (f a x); reflexivity. Qed.

Lemma ofold_some_in {A B} (f : A -> B -> option A) l : forall a r, ofold f l a = Some r ->
  forall x, In x l -> exists s, f s x <> None.
Proof.
  induction l as [|y l IH]; intros a r H x Hx; [destruct Hx|]. rewrite ofold_cons in H.
  destruct (f a y) as [s|] eqn:E; [|discriminate]. destruct Hx as [->|Hx].
  - exists a. congruence.
  - eapply IH; eauto.
Qed.

Lemma map_seq_nth {A B} (g : A -> B) (l : list A) d : map (fun i => g (nth i l d)) (seq 0 (length l)) = map g l.
Proof.
  induction l as [|a l IH]; [reflexivity|]. cbn [length seq map nth]. f_equal.
  rewrite <- seq_shift, map_map. exact IH.
Qed.

Lemma last_indep {A} (l : list A) a d d' : last (a :: l) d = last (a :: l) d'.
Proof. revert a; induction l as [|b l IH]; intros a; [reflexivity|]. change (last (b :: l) d = last (b :: l) d'). apply IH. Qed.

Lemma last_cons_default {A} (l : list A) x d : last (x :: l) d = last l x.
Proof. destruct l as [|a l]; [reflexivity|]. change (last (a :: l) d = last (a :: l) x). apply last_indep. Qed.

(* ---- for i in range(m): out[i] = v_i  (or skip, or fail) ---- *)
Section UpdLoop.
Context {A : Type} (h : nat -> option (option A)).
Definition ustep (st : list A) (i : nat) : option (list A) :=
  match h i with None => None | Some None => Some st | Some (Some v) => Some (upd st i v) end.
Definition uval (d : A) (i : nat) : A := match h i with Some (Some v) => v | _ => d end.

Lemma uloop_inv d m : forall k, k <= m -> (forall i, i < k -> h i <> None) ->
  ofold ustep (seq 0 k) (repeat d m) = Some (map (uval d) (seq 0 k) ++ repeat d (m - k)).
Proof.
  induction k as [|k IH]; intros Hk Hh.
  - cbn [seq map app]. rewrite Nat.sub_0_r. reflexivity.
  - rewrite seq_S, ofold_app, IH by (try lia; intros; apply Hh; lia). cbn [Nat.add]. rewrite ofold_one.
    assert (Hr : repeat d (m - k) = d :: repeat d (m - S k)) by (replace (m - k) with (S (m - S k)) by lia; reflexivity).
    rewrite map_app, <- app_assoc. cbn [map app]. unfold ustep. change (uval d k) with (match h k with Some (Some v) => v | _ => d end). specialize (Hh k (Nat.lt_succ_diag_r k)).
    destruct (h k) as [[v|]|]; [| |congruence].
    + rewrite Hr, upd_app_at by (rewrite map_length, seq_length; reflexivity). reflexivity.
    + rewrite Hr. reflexivity.
Qed.

Lemma uloop_total d m : (forall i, i < m -> h i <> None) ->
  ofold ustep (seq 0 m) (repeat d m) = Some (map (uval d) (seq 0 m)).
Proof. intros H. rewrite (uloop_inv d m m (le_n m) H), Nat.sub_diag, app_nil_r. reflexivity. Qed.

Lemma uloop_some l : forall st r, ofold ustep l st = Some r -> forall i, In i l -> h i <> None.
Proof.
  intros st r H i Hi. destruct (ofold_some_in _ _ _ _ H i Hi) as [s Hs]. unfold ustep in Hs. destruct (h i); congruence.
Qed.

Lemma uloop_partial d m r : ofold ustep (seq 0 m) (repeat d m) = Some r -> r = map (uval d) (seq 0 m).
Proof.
  intros H. assert (Hh : forall i, i < m -> h i <> None) by (intros i Hi; eapply uloop_some; [exact H|apply in_seq; lia]).
  rewrite (uloop_total d m Hh) in H. congruence.
Qed.
End UpdLoop.

(* ---- outlets = [False] * n; for idx0 in idxs_out: if idx0 != mv: outlets[idx0] = True ---- *)
Definition ostep (n : nat) (st : list bool) (idx0 : nat) : list bool := if negb (n <=? idx0) then upd st idx0 true else st.

Lemma ostep_length n st x : length (ostep n st x) = length st.
Proof. unfold ostep. destruct (negb (n <=? x)); [apply upd_length|reflexivity]. Qed.

Lemma outl_nth n l : forall a x, length a = n ->
  nth x (fold_left (ostep n) l a) false = nth x a false || ((x <? n) && memb x l).
Proof.
  induction l as [|y l IH]; intros a x Ha; cbn [fold_left memb].
  - rewrite andb_false_r, orb_false_r. reflexivity.
  - rewrite IH by (rewrite ostep_length; exact Ha). unfold ostep.
    destruct (Nat.leb_spec n y) as [Hy|Hy]; cbn [negb].
    + destruct (Nat.eqb_spec x y) as [->|Hne]; cbn [orb]; [|reflexivity].
      destruct (Nat.ltb_spec y n); [lia|]. cbn [andb]. reflexivity.
    + rewrite nth_upd, Ha. destruct (Nat.ltb_spec y n); [|lia].
      destruct (Nat.eqb_spec x y) as [->|Hne]; cbn [andb orb]; [|reflexivity].
      destruct (Nat.ltb_spec y n); [|lia]. cbn [andb]. rewrite orb_true_r. reflexivity.
Qed.

Lemma outl_spec n outs x : x < n -> nth x (fold_left (ostep n) outs (repeat false n)) false = outflag outs x.
Proof.
  intros Hx. rewrite outl_nth by apply repeat_length. rewrite nth_repeat_lt by exact Hx.
  destruct (Nat.ltb_spec x n); [|lia]. reflexivity.
Qed.

Lemma mask_test (mask : option (list bool)) x :
  match mask with None => false | Some m => Bool.eqb (nth x m false) false end = negb (mok mask x).
Proof. destruct mask as [m|]; cbn [mok]; [|reflexivity]. destruct (nth x m false); reflexivity. Qed.

(* ---- the segment walk with an error value ---- *)
Section OSeg.
Variable nxt : list nat.
Let n := length nxt.
Variable isout : nat -> bool.
Variable maskok : nat -> bool.
Variable incl : bool.
Notation seg := (seg nxt isout maskok incl).

Fixpoint oseg (fuel : nat) (cur : nat) : option (list nat) :=
  let x := nth cur nxt n in
  if (n <=? x)%nat || (x =? cur)%nat || negb (maskok x) then Some []
  else if isout x then Some (if incl then [x] else [])
  else match fuel with
       | O => None
       | S f => match oseg f x with None => None | Some p => Some (x :: p) end
       end.

Lemma oseg_seg : forall fuel cur p, oseg fuel cur = Some p -> seg fuel cur = p.
Proof.
  induction fuel as [|f IH]; intros cur p; cbn [oseg Ucat.seg]; fold n;
    destruct ((n <=? nth cur nxt n) || (nth cur nxt n =? cur) || negb (maskok (nth cur nxt n))); try congruence;
    destruct (isout (nth cur nxt n)); try congruence.
  destruct (oseg f (nth cur nxt n)) as [q|] eqn:E; [|discriminate]. intros H. injection H as <-. f_equal. apply IH. exact E.
Qed.

(* when the fuel is used up the model has taken `fuel` steps *)
Lemma oseg_none : forall fuel cur, oseg fuel cur = None -> length (seg fuel cur) = fuel.
Proof.
  induction fuel as [|f IH]; intros cur; cbn [oseg Ucat.seg]; fold n;
    destruct ((n <=? nth cur nxt n) || (nth cur nxt n =? cur) || negb (maskok (nth cur nxt n))); try discriminate;
    destruct (isout (nth cur nxt n)); try discriminate; [reflexivity|].
  destruct (oseg f (nth cur nxt n)) as [q|] eqn:E; [discriminate|]. intros _. cbn [length]. f_equal. apply IH. exact E.
Qed.

Lemma seg_lt : forall fuel cur y, In y (seg fuel cur) -> y < n.
Proof.
  induction fuel as [|f IH]; intros cur y; cbn [Ucat.seg]; fold n; set (x := nth cur nxt n).
  all: destruct (Nat.leb_spec n x) as [Hn|Hn]; cbn [orb]; [intros []|].
  all: destruct ((x =? cur) || negb (maskok x)); [intros []|].
  all: destruct (isout x); [destruct incl; [intros [<-|[]]; exact Hn|intros []]|].
  - intros [].
  - intros [<-|H]; [exact Hn|]. eapply IH; exact H.
Qed.
End OSeg.
