(* C06: invariants of the priority flood (structural part). *)
From Coq Require Import List Arith ZArith Lia Bool.
Import ListNotations.
From PF Require Import Arr Codec Flood.
From PFG Require Import GenTables.
Local Open Scope Z_scope.

Section FloodSpec.
Variables nrow ncol : nat.
Variable elv : list Z.
Variable nodata : Z.
Variable conn : Z.
Notation sz := (nrow * ncol)%nat.
Notation visit := (visit nrow ncol elv).
Notation isnd := (isnodata elv nodata).

(* basic invariant: array sizes; raised amounts are non-negative; done cells that hold nodata are never touched *)
Definition binv (st : fstate) : Prop :=
  length (fdone st) = sz /\ length (fqd st) = sz /\ length (fdelv st) = sz /\ length (fd8 st) = sz /\
  (forall j, 0 <= nth j (fdelv st) 0) /\
  (forall j, (j < sz)%nat -> isnd j = true -> nth j (fdone st) true = true /\ nth j (fdelv st) 0 = 0 /\ nth j (fd8 st) 0 = 247).

Lemma visit_binv z0 i0 st o : binv st -> binv (visit z0 i0 st o).
Proof.
  intros (L1 & L2 & L3 & L4 & Hd & Hn). unfold Flood.visit.
  pose proof (conj L1 (conj L2 (conj L3 (conj L4 (conj Hd Hn))))) as Hall.
  destruct (negb (inb nrow ncol (row ncol i0 + fst o) (col ncol i0 + snd o))); [exact Hall|].
  set (jj := lin ncol (row ncol i0 + fst o) (col ncol i0 + snd o)).
  destruct (nth jj (fdone st) true) eqn:Ed; [exact Hall|].
  set (dv := if z0 - nth jj elv 0 >? 0 then upd (fdelv st) jj (z0 - nth jj elv 0) else fdelv st).
  assert (Hdv_len : length dv = sz) by (unfold dv; destruct (z0 - nth jj elv 0 >? 0); rewrite ?upd_length; auto).
  assert (Hdv_pos : forall x, 0 <= nth x dv 0).
  { intros x. unfold dv. destruct (Z.gtb_spec (z0 - nth jj elv 0) 0); auto.
    rewrite nth_upd. destruct ((x =? jj)%nat && (jj <? length (fdelv st))%nat); auto. lia. }
  assert (Hdv_nd : forall x, x <> jj -> nth x dv 0 = nth x (fdelv st) 0).
  { intros x Hx. unfold dv. destruct (z0 - nth jj elv 0 >? 0); auto. apply nth_upd_neq; auto. }
  assert (Hkeep : forall x, (x < sz)%nat -> isnd x = true ->
            nth x (upd (fdone st) jj true) true = true /\ nth x dv 0 = 0 /\
            nth x (upd (fd8 st) jj (table_at d8_us (fst o) (snd o))) 0 = 247).
  { intros x Hx Hnd. destruct (Hn x Hx Hnd) as (A & B & C).
    assert (Hxj : x <> jj) by (intros E; rewrite E in A; congruence).
    rewrite !nth_upd_neq by auto. rewrite Hdv_nd by auto. auto. }
  destruct (nth jj (fqd st) false) eqn:Eq; unfold binv; simpl; fold dv;
    rewrite ?upd_length; repeat split; auto; apply Hkeep; auto.
Qed.

Lemma fold_visit_binv z0 i0 l : forall st, binv st -> binv (fold_left (visit z0 i0) l st).
Proof. induction l as [|o l IH]; intros st H; simpl; auto. apply IH. apply visit_binv. auto. Qed.

Lemma loop_binv fuel : forall st, binv st -> binv (flood_loop nrow ncol elv conn fuel st).
Proof.
  induction fuel as [|f IH]; intros st H; simpl; auto.
  destruct (extract_min (fq st)) as [[[[z0 b] i0] rest]|]; auto.
  apply IH. apply fold_visit_binv. destruct H as (L1 & L2 & L3 & L4 & Hd & Hn).
  exact (conj L1 (conj L2 (conj L3 (conj L4 (conj Hd Hn))))).
Qed.

Lemma map_seq_nth {A} (f : nat -> A) n i d : (i < n)%nat -> nth i (map f (seq 0 n)) d = f i.
Proof. intros H. rewrite (nth_indep _ d (f 0%nat)) by (rewrite map_length, seq_length; auto).
  rewrite (map_nth f). rewrite seq_nth by auto. reflexivity. Qed.

Lemma init_binv mode pits : binv (flood_init nrow ncol elv nodata conn mode pits).
Proof.
  unfold flood_init.
  match goal with |- binv (let '(q, qd) := ?X in _) => destruct X as [q qd] eqn:Eq end.
  assert (Hqd : length qd = sz).
  { destruct (mode =? 1).
    - match type of Eq with match ?E with _ => _ end = _ => destruct E as [[[[z b] i] r]|] end;
        inversion Eq; subst; rewrite map_length; apply seq_length.
    - inversion Eq; subst. destruct (mode =? 2); rewrite map_length; apply seq_length. }
  unfold binv; simpl. rewrite !map_length, seq_length. repeat split; auto.
  - intros j. destruct (Nat.lt_ge_cases j sz) as [Hj|Hj].
    + rewrite map_seq_nth by auto. lia.
    + rewrite nth_overflow by (rewrite map_length, seq_length; auto). lia.
  - rewrite map_seq_nth by auto. auto.
  - rewrite map_seq_nth by auto. reflexivity.
  - rewrite map_seq_nth by auto. rewrite H0. reflexivity.
Qed.

(* filled elevation is never below the input; nodata cells are untouched and coded 247 *)
Theorem flood_basic mode pits : let '(filled, d8) := fill_depressions nrow ncol elv nodata conn mode pits in
  length filled = sz /\ length d8 = sz /\
  forall i, (i < sz)%nat ->
    nth i elv 0 <= nth i filled 0 /\
    (isnd i = true -> nth i filled 0 = nth i elv 0 /\ nth i d8 0 = 247).
Proof.
  unfold fill_depressions.
  pose proof (loop_binv (S sz) _ (init_binv mode pits)) as (L1 & L2 & L3 & L4 & Hd & Hn).
  set (st := flood_loop nrow ncol elv conn (S sz) (flood_init nrow ncol elv nodata conn mode pits)) in *.
  split; [rewrite map_length, seq_length; auto|]. split; auto.
  intros i Hi.
  rewrite map_seq_nth by auto.
  split; [specialize (Hd i); lia|]. intros Hnd. destruct (Hn i Hi Hnd) as (_ & B & C). split; [lia|auto].
Qed.
End FloodSpec.
