(* subgrid.segment_indices after the repair of finding F19 (max_len divides a segment instead of truncating it):
   dividing loses no link and duplicates no link.  The links of a piece are its consecutive pairs (VectSpec.pairs); the
   list of the links of all the pieces that segment_indices_model returns with a maximum length is EQUAL, as a list (same
   links, same order, same multiplicities), to the list of the links of the pieces it returns without one (max_len = 0).
   The one-segment fact is VectSpec.split_chain (cutting a chain keeps its links). *)
From Coq Require Import List Arith ZArith Bool Lia.
Import ListNotations.
From PF Require Import Arr Vect VectSpec GenSegIndicesEq.
Local Open Scope Z_scope.

Definition links (ps : list (list nat)) : list (nat * nat) := concat (map pairs ps).

Lemma links_app a b : links (a ++ b) = links a ++ links b.
Proof. unfold links. rewrite map_app, concat_app. reflexivity. Qed.

Lemma links_flat_map {A} (f : A -> list (list nat)) (l : list A) : links (flat_map f l) = flat_map (fun x => links (f x)) l.
Proof. induction l as [|x l IH]; [reflexivity|]. cbn [flat_map]. rewrite links_app, IH. reflexivity. Qed.

(* one segment: the links of the pieces are the links of the undivided segment *)
Lemma links_cut idxs max_len : links (cut idxs max_len) = pairs idxs.
Proof. apply split_chain. Qed.

Lemma links_seg_pieces max_len o p y b : links (seg_pieces max_len o p y b) = links (seg_pieces 0 o p y b).
Proof.
  unfold seg_pieces. rewrite !links_app. f_equal.
  destruct (1 <? length (o :: p))%nat; [|reflexivity]. rewrite !links_cut. reflexivity.
Qed.

Theorem segment_indices_links_maxlen nxt outs mask max_len :
  links (segment_indices_model nxt outs mask max_len) = links (segment_indices_model nxt outs mask 0).
Proof.
  unfold segment_indices_model. rewrite !links_flat_map. apply flat_map_ext. intros o.
  destruct (o <? length nxt)%nat; [|reflexivity].
  destruct (segm nxt outs mask (length nxt) o) as [[p y] b]. apply links_seg_pieces.
Qed.

(* without a maximum length the pieces are the undivided segments themselves (so the theorem above compares with them) *)
Lemma seg_pieces_0 o p y b : seg_pieces 0 o p y b = (if (1 <? length (o :: p))%nat then [o :: p] else []) ++ (if b then [[y; y]] else []).
Proof. unfold seg_pieces, cut. rewrite andb_false_r. reflexivity. Qed.

(* a non-vacuous instance: with max_len = 2 the four-cell segment 5-4-3-2 is divided (the result differs from the one
   without a maximum length), the links stay (5,4) (4,3) (3,2) (2,1) (1,0) (0,0) *)
Example segment_indices_links_example :
  segment_indices_model [0;0;1;2;3;4]%nat [5;6;2]%nat None 2 <> segment_indices_model [0;0;1;2;3;4]%nat [5;6;2]%nat None 0 /\
  links (segment_indices_model [0;0;1;2;3;4]%nat [5;6;2]%nat None 2) = [(5,4); (4,3); (3,2); (2,1); (1,0); (0,0)]%nat.
Proof. split; [vm_compute; discriminate|vm_compute; reflexivity]. Qed.

Print Assumptions segment_indices_links_maxlen.
