(* Models: streams.streams (vectorisation split at confluences, optional cutting), gis_utils.features
   (properties), core.flwdir_tuples. *)
From Coq Require Import List Arith ZArith QArith Qround Bool.
Import ListNotations.
From PF Require Import Arr Net Rank Stream.
Local Open Scope Z_scope.

(* Python round(): round half to even, on a rational *)
Definition py_round (q : Q) : Z :=
  let f := Qfloor q in
  let r := (q - inject_Z f)%Q in
  match Qcompare r (1 # 2) with
  | Lt => f
  | Gt => f + 1
  | Eq => if Z.even f then f else f + 1
  end.

Section Streams.
Variable ds : list nat.
Variable nup : list Z.

(* the inner `while True`: returns (cells marked done after the start, vertices appended, pit?) *)
Fixpoint swalk (fuel : nat) (cur : nat) : list nat * list nat * bool :=
  let d := dsf ds cur in
  if (d =? cur)%nat then ([], [], true)
  else if nth d nup 0 >? 1 then ([], [d], false)
  else match fuel with
       | O => ([], [d], false)
       | S f => let '(dn, vs, pit) := swalk f d in (d :: dn, d :: vs, pit)
       end.

(* firstn/skipn slices idxs[a:b] *)
Definition slice {A} (l : list A) (a b : nat) : list A := firstn (b - a) (skipn a l).

(* cut a stream of l vertices when l > max_len > 0 *)
Definition cut (idxs : list nat) (max_len : Z) : list (list nat) :=
  let l := Z.of_nat (length idxs) in
  if (l >? max_len) && (max_len >? 0) then
    let ratio := (l # Z.to_pos max_len)%Q in
    let '(k, n) := if Qlt_le_dec (3 # 2) ratio
                   then let k := py_round ratio in (k, py_round (l # Z.to_pos k)%Q)
                   else (1, l) in
    map (fun i => if (Z.of_nat i + 1 =? k) then skipn (i * Z.to_nat n) idxs
                  else slice idxs (i * Z.to_nat n) (Z.to_nat n * (i + 1) + 1))
        (seq 0 (Z.to_nat k))
  else [idxs].

Definition sstep (mask : option (list bool)) (max_len : Z) (st : list bool * list (list nat)) (idx0 : nat)
  : list bool * list (list nat) :=
  let '(done, out) := st in
  if nth idx0 done false || negb (mget mask idx0) then st
  else
    let '(dn, vs, pit) := swalk (length ds) idx0 in
    let done' := fold_left (fun a c => upd a c true) (idx0 :: dn) done in
    let idxs := idx0 :: vs in
    let last_c := last idxs idx0 in
    (done', out ++ cut idxs max_len ++ (if pit then [[last_c; last_c]] else [])).
End Streams.

Definition streams (ds : list nat) (sq : list nat) (mask : option (list bool)) (max_len : Z) : list (list nat) :=
  snd (fold_left (sstep ds (upstream_count ds mask) mask max_len) (rev sq) (repeat false (length ds), [])).

(* gis_utils.features: (first cell, last cell, pit flag) of every path with at least two vertices *)
Definition feature_props (paths : list (list nat)) : list (nat * nat * bool) :=
  flat_map (fun p => match p with
                     | a :: _ :: _ => [(a, last p a, (last p a =? last (removelast p) a)%nat)]
                     | _ => []
                     end) paths.

(* core.flwdir_tuples *)
Definition flwdir_tuples (nxt : list nat) (mask : option (list bool)) : list (list nat) :=
  flat_map (fun i => if (nth i nxt (length nxt) <? length nxt)%nat && mget mask i then [[i; nth i nxt (length nxt)]] else [])
           (seq 0 (length nxt)).
