(* Models: streams.strahler_order, streams.stream_order (classic), core.main_upstream. *)
From Coq Require Import List Arith ZArith Bool.
Import ListNotations.
From PF Require Import Arr Net SweepDown SweepUp Rank.
Local Open Scope Z_scope.

Definition mget (mask : option (list bool)) (i : nat) : bool :=
  match mask with None => true | Some m => nth i m false end.

(* ---- Strahler: one array of pairs (strord, strmax) instead of two arrays ---- *)
(* sto, sto_ds = strord[idx0], strord[idx_ds]; sto_up = strmax[idx_ds]
   if sto_ds < sto: strord[idx_ds] = sto
   elif sto == sto_ds and sto_up == sto: strord[idx_ds] += 1
   if sto_up < sto: strmax[idx_ds] = sto *)
Definition spush (acc : Z * Z) (sto : Z) : Z * Z :=
  let '(sto_ds, sto_up) := acc in
  (if sto_ds <? sto then sto else if (sto =? sto_ds) && (sto_up =? sto) then sto_ds + 1 else sto_ds,
   if sto_up <? sto then sto else sto_up).

Definition sfin (mask : option (list bool)) (i : nat) (x : Z * Z) : Z * Z :=
  if mget mask i then (if fst x =? 0 then 1 else fst x, snd x) else x.
Definition sg (mask : option (list bool)) (i : nat) (acc own : Z * Z) : Z * Z :=
  if mget mask i then spush acc (fst own) else acc.

Definition strahler_pairs (ds : list nat) (sq : list nat) (mask : option (list bool)) : list (Z * Z) :=
  sweep_up ds (0, 0) (sfin mask) (sg mask) (rev sq) (repeat (0, 0) (length ds)).
Definition strahler_order (ds : list nat) (sq : list nat) (mask : option (list bool)) : list Z :=
  map fst (strahler_pairs ds sq mask).

(* ---- main upstream: first index among the maxima of uparea above upa_min ---- *)
Definition main_step (ds : list nat) (uparea : list Z) (st : list nat * list Z) (idx0 : nat) : list nat * list Z :=
  let '(main, upa) := st in
  let d := dsf ds idx0 in
  if (d =? idx0)%nat || (size ds <=? d)%nat then st
  else if nth idx0 uparea 0 >? nth d upa 0 then (upd main d idx0, upd upa d (nth idx0 uparea 0)) else st.
Definition main_upstream (ds : list nat) (uparea : list Z) (upa_min : Z) : list nat :=
  fst (fold_left (main_step ds uparea) (seq 0 (length ds)) (repeat (length ds) (length ds), repeat upa_min (length ds))).

(* ---- classic stream order (down-sweep) ---- *)
Definition classic_f (ds : list nat) (mask : option (list bool)) (nup : list Z) (main : list nat)
           (i : nat) (vds own : Z) : Z :=
  if negb (mget mask i) then own
  else if (dsf ds i =? i)%nat then 1
  else if (nth (dsf ds i) nup 0 >? 1) && negb (nth (dsf ds i) main (length ds) =? i)%nat then vds + 1
  else vds.
Definition stream_order (ds : list nat) (sq : list nat) (main : list nat) (mask : option (list bool)) : list Z :=
  sweep_down ds 0 (classic_f ds mask (upstream_count ds mask) main) sq (repeat 0 (length ds)).
