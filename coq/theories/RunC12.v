From Coq Require Import List Arith ZArith Bool.
Import ListNotations.
From PF Require Import Obj Glue.
Local Open Scope Z_scope.

Definition dec_op (c a : Z) : op :=
  let an := Z.to_nat a in
  if c =? 0 then QRank else if c =? 1 then QIsvalid else if c =? 2 then QPit else if c =? 3 then QSeq
  else if c =? 4 then QNnodes else if c =? 5 then QMain else if c =? 6 then QMainUp an
  else if c =? 7 then QStrahler an else if c =? 8 then QClassic an else if c =? 9 then QDistnc
  else if c =? 10 then QArea else if c =? 11 then QUparea (negb (a =? 0)) else if c =? 12 then QAccuflux an
  else if c =? 13 then (if (a =? 0) || (a =? 5) then QBasins else QPit)   (* 5: basins of snapped outlets; other a <> 0: to_array, which only needs the pits *)
  else if c =? 14 then QPathUp else if c =? 15 then QPathDown
  else if c =? 16 then MAddPits else if c =? 17 then MRepair (negb (a =? 0)) else if c =? 18 then MSetTransform
  else if c =? 19 then MOrder (if a =? 0 then Sort else Walk) else if c =? 21 then QStreamDist an else MDumpLoad.

Fixpoint dec_ops (l : list Z) : list op :=
  match l with c :: a :: t => dec_op c a :: dec_ops t | _ => [] end.

Definition some_b {A} (o : option A) : Z := match o with Some _ => 1 | None => 0 end.
(* which memo slots are filled: _pit, _seq, _nnodes, rank, idxs_us_main, strord, distnc, area; then the cache flag *)
Definition occupancy (s : state) : list Z :=
  [some_b (s_pit s); some_b (s_seq s); some_b (s_nn s); some_b (c_rank s); some_b (c_main s); some_b (c_so s);
   some_b (c_dist s); some_b (c_area s); zb (cacheon s)].

Definition freshb (s : state) (args : list nat) (t : tag) : bool :=
  forallb (fun v => Nat.eqb v (ver s)) (t_net t) && forallb (fun v => Nat.eqb v (tver s)) (t_tr t)
  && forallb (fun a => existsb (Nat.eqb a) args) (t_arg t).

Definition op_args_of (o : op) : list nat :=
  match o with
  | QMainUp a => [a; 0%nat] | QStrahler m => [m; 0%nat] | QClassic m => [m; 0%nat] | QAccuflux d => [d; 0%nat] | QStreamDist m => [m; 0%nat] | _ => [0%nat]
  end.
Fixpoint run_occ (s : state) (ops : list op) : list (list Z) :=
  match ops with
  | [] => []
  | o :: t => let '(s', tg) := step s o in (occupancy s' ++ [zb (freshb s (op_args_of o) tg)]) :: run_occ s' t
  end.

Definition run_c12 (k : Z) (args : list (list Z)) : list (list Z) :=
  if k =? 1201 then run_occ (init (negb (argz 0 args =? 0)) (negb (nth 1 (arg 0 args) 0 =? 0)) (negb (nth 2 (arg 0 args) 0 =? 0))) (dec_ops (arg 1 args))
  else [[-999]].
