(* C13 / termination, target 5: the explicit-queue loop `bfs` of core.idxs_seq (fuel n) and the explicit-stack walk `walk`
   of core.rank (fuel n) (Rank.v).  C03 proves what they compute; here: the fuel n passed by the model is never the
   reason to stop -- on EVERY closed network, loops included (a cell enters the queue / the stack at most once). *)
From Coq Require Import List Arith ZArith Bool Lia.
Import ListNotations.
From PF Require Import Arr Net Rank RankSpec.

Section TermBfs.
Variable ds : list nat.
Notation n := (size ds).

(* with the queue invariant of RankSpec, at most n - |acc| further iterations take place *)
Lemma bfs_fuel_gen : forall fuel queue acc extra, binv ds queue acc -> n <= fuel + length acc ->
  bfs ds (fuel + extra) queue acc = bfs ds fuel queue acc.
Proof.
  induction fuel as [|f IH]; intros queue acc extra Hb Hn.
  - assert (Hq : queue = []).
    { destruct queue as [|x q]; auto. exfalso.
      assert (Hl : length (rev acc ++ x :: q) <= length (seq 0 n)).
      { apply NoDup_incl_length; [destruct Hb as (_ & H & _); auto|].
        intros y Hy. apply in_seq. pose proof (binv_bound ds _ _ y Hb Hy). lia. }
      rewrite app_length, rev_length, seq_length in Hl. simpl in Hl. lia. }
    subst queue. cbn [Nat.add]. destruct extra; reflexivity.
  - cbn [Nat.add bfs]. destruct queue as [|x q]; [reflexivity|].
    assert (Hx : x < n) by (apply (binv_bound ds (x :: q) acc); auto; apply in_or_app; right; left; auto).
    apply IH; [apply binv_step; auto|simpl; lia].
Qed.

Variable pits : list nat.
Hypothesis Hp : forall p, In p pits <-> p < n /\ dsf ds p = p.
Hypothesis Hnd : NoDup pits.

Lemma binv_init : binv ds pits [].
Proof.
  split; [constructor|]. split; [exact Hnd|]. split.
  - intros c Hc. apply Hp in Hc. destruct Hc as [Hc Hd]. split; [split; auto; rewrite Hd; auto|left; auto].
  - intros c _ _ [].
Qed.

(* idxs_seq: the queue is empty before the fuel n is used up *)
Theorem idxs_seq_fuel extra : bfs ds (n + extra) pits [] = idxs_seq ds pits.
Proof. unfold idxs_seq. apply bfs_fuel_gen; [apply binv_init|simpl; lia]. Qed.

(* number of iterations = number of cells dequeued = length of the result <= n *)
Theorem idxs_seq_iterations : length (idxs_seq ds pits) <= n.
Proof.
  pose proof (bfs_topo ds n pits [] binv_init) as Ht. fold (idxs_seq ds pits) in Ht.
  pose proof (topo_NoDup ds _ Ht) as Hn.
  assert (Hl : length (idxs_seq ds pits) <= length (seq 0 n)).
  { apply NoDup_incl_length; auto. intros y Hy. apply in_seq. destruct (topo_valid ds _ y Ht Hy). lia. }
  rewrite seq_length in Hl. exact Hl.
Qed.
End TermBfs.

Section TermWalk.
Variable ds : list nat.
Notation n := (size ds).
Hypothesis Hwf : wf ds.

(* the stack holds distinct unranked cells; with fuel + |stack| >= n the `fuel = 0` branch of walk is dead code *)
Lemma walk_fuel_gen : forall fuel ranks rest cur extra,
  rinv ds ranks -> chain ds (cur :: rest) -> NoDup (cur :: rest) ->
  (forall c, In c (cur :: rest) -> valid ds c /\ nth c ranks RU = RU) ->
  n <= fuel + length (cur :: rest) ->
  walk ds (fuel + extra) ranks (cur :: rest) cur = walk ds fuel ranks (cur :: rest) cur.
Proof.
  induction fuel as [|f IH]; intros ranks rest cur extra Hr Hc Hnd Hst Hfuel;
    pose proof (walk_stop_ok ds ranks rest cur cur Hr Hc Hnd Hst (or_introl eq_refl)) as Hs;
    (assert (Hcv' : valid ds cur) by (apply Hst; left; auto)).
  - cbn [Nat.add]. destruct extra as [|e]; [reflexivity|]. cbn [walk].
    destruct (walk_stop ds ranks (cur :: rest) cur) as [r|]; [reflexivity|]. exfalso.
    destruct Hs as (Ed & Em & Hnp).
    assert (Hl : length (dsf ds cur :: cur :: rest) <= length (seq 0 n)).
    { apply NoDup_incl_length; [constructor; auto|].
      intros y [<-|Hy]; apply in_seq; [destruct Hcv'; lia|]. destruct (Hst y Hy) as [[H _] _]. lia. }
    rewrite seq_length in Hl. simpl in *. lia.
  - cbn [Nat.add walk].
    destruct (walk_stop ds ranks (cur :: rest) cur) as [r|]; [reflexivity|].
    destruct Hs as (Ed & Em & Hnp).
    apply IH; auto.
    + simpl. split; auto.
    + constructor; auto.
    + intros c [<-|Hc0]; [split; auto; apply Hwf; auto|apply Hst; auto].
    + simpl in *. lia.
Qed.

(* core.rank with a fuel parameter for its inner walk *)
Definition rank_outer_fuel (fuel : nat) (st : list Z * nat) (i : nat) : list Z * nat :=
  let '(ranks, cnt) := st in
  if validb ds i && (nth i ranks RU =? RU)%Z then
    let '(r', c) := walk ds fuel ranks [i] i in (r', (cnt + c)%nat)
  else st.
Definition rank_fuel (fuel : nat) : list Z * nat := fold_left (rank_outer_fuel fuel) (seq 0 n) (repeat RU n, 0%nat).

Lemma rank_fuel_n : rank_fuel n = rank ds.
Proof. reflexivity. Qed.

Lemma rank_outer_fuel_eq extra st i : i < n -> oinv ds st i ->
  rank_outer_fuel (n + extra) st i = rank_outer ds st i.
Proof.
  intros Hi [Hr _]. destruct st as [ranks cnt]. cbn [fst] in Hr. unfold rank_outer_fuel, rank_outer.
  destruct (validb ds i) eqn:Ev; [|reflexivity]. cbn [andb].
  destruct (Z.eqb_spec (nth i ranks RU) RU) as [E|E]; [|reflexivity].
  apply validb_valid in Ev.
  rewrite (walk_fuel_gen n ranks [] i extra Hr); [reflexivity|exact I|constructor; [intros []|constructor]| |simpl; lia].
  intros c [<-|[]]. split; auto.
Qed.

Lemma rank_fold_fuel extra k : forall st a, a + k <= n -> oinv ds st a ->
  fold_left (rank_outer_fuel (n + extra)) (seq a k) st = fold_left (rank_outer ds) (seq a k) st.
Proof.
  induction k as [|k IH]; intros st a Hk Hi; [reflexivity|]. cbn [seq fold_left].
  rewrite rank_outer_fuel_eq by (auto; lia). apply IH; [lia|]. apply outer_step; auto. lia.
Qed.

(* the fuel n of every inner walk of core.rank is never exhausted -- on every closed network, loops included *)
Theorem rank_fuel_terminates extra : rank_fuel (n + extra) = rank ds.
Proof.
  unfold rank_fuel, rank. apply rank_fold_fuel; [lia|]. split; [apply rinv_init|intros j Hj; lia].
Qed.
End TermWalk.

(* satisfiable (the network of C03's example: a 2-cycle {1,2} with tributary 3, a pit 0 with tributary 4) *)
Example rank_fuel_example :
  wf [0;2;1;1;0] /\ (forall p, In p [0] <-> p < size [0;2;1;1;0] /\ dsf [0;2;1;1;0] p = p) /\ NoDup [0] /\
  bfs [0;2;1;1;0] 50 [0] [] = [0;4] /\ idxs_seq [0;2;1;1;0] [0] = [0;4] /\
  rank_fuel [0;2;1;1;0] 50 = rank [0;2;1;1;0].
Proof.
  split; [apply wfb_wf; vm_compute; reflexivity|]. split; [|split; [constructor; [intros []|constructor]|vm_compute; auto]].
  intros p. split.
  - intros [<-|[]]. split; [unfold size; simpl; lia|reflexivity].
  - intros [H1 H2]. do 5 (destruct p as [|p]; [first [left; reflexivity | vm_compute in H2; discriminate]|]).
    unfold size in H1. simpl in H1. lia.
Qed.

Print Assumptions idxs_seq_fuel.
Print Assumptions idxs_seq_iterations.
Print Assumptions rank_fuel_terminates.
