(* C15, tree level: adjust_elevation with ANY 1-D fixer satisfying the contract K makes elevation
   non-increasing downstream, touches only the network, stays within range, fixes conforming input. *)
From Coq Require Import List Arith ZArith Bool Lia.
Import ListNotations.
From PF Require Import Arr Net Elev.
Local Open Scope Z_scope.

Definition nonincr (l : list Z) : Prop := forall j, (S j < length l)%nat -> zn l (S j) <= zn l j.
Definition within (lo hi : Z) (l : list Z) : Prop := forall x, In x l -> lo <= x <= hi.

Record contract (F : list Z -> list Z) : Prop := {
  K_len : forall l, length (F l) = length l;
  K_mono : forall l, nonincr (F l);
  K_last : forall l, zn (F l) (length l - 1) = zn l (length l - 1);
  K_range : forall l lo hi, within lo hi l -> within lo hi (F l);
  K_id : forall l, nonincr l -> F l = l }.

(* ---------- small generic facts ---------- *)

Lemma least_witness (P : nat -> bool) k : P k = true ->
  exists m, (m <= k)%nat /\ P m = true /\ forall j, (j < m)%nat -> P j = false.
Proof.
  induction k as [k IH] using lt_wf_ind. intros Hk.
  destruct (existsb P (seq 0 k)) eqn:E.
  - apply existsb_exists in E. destruct E as [j [Hj Pj]]. apply in_seq in Hj.
    destruct (IH j) as [m [Hm [Pm Hl]]]; [lia|auto|]. exists m. split; [lia|auto].
  - exists k. split; [lia|]. split; auto. intros j Hj.
    destruct (P j) eqn:Pj; auto. exfalso.
    assert (existsb P (seq 0 k) = true); [|congruence].
    apply existsb_exists. exists j. split; auto. apply in_seq. lia.
Qed.


Lemma NoDup_bound (l : list nat) n : NoDup l -> (forall x, In x l -> (x < n)%nat) -> (length l <= n)%nat.
Proof. intros Hn Hb. rewrite <- (seq_length n 0). apply NoDup_incl_length; auto.
  intros x Hx. apply in_seq. specialize (Hb x Hx). lia. Qed.

(* ---------- scatter / setmask ---------- *)

Lemma scatter_length e p v : length (scatter e p v) = length e.
Proof. revert e v; induction p as [|i p IH]; intros e [|x v]; simpl; auto. rewrite IH, upd_length. auto. Qed.

Lemma scatter_notin e p v c : ~ In c p -> zn (scatter e p v) c = zn e c.
Proof. revert e v; induction p as [|i p IH]; intros e [|x v] H; simpl; auto.
  unfold zn in *. rewrite IH; [|intros Hc; apply H; right; auto].
  apply nth_upd_neq. intros ->. apply H. left; auto. Qed.

Lemma scatter_in e p v j : NoDup p -> length v = length p -> (forall c, In c p -> (c < length e)%nat) ->
  (j < length p)%nat -> zn (scatter e p v) (nth j p 0%nat) = zn v j.
Proof.
  revert e v j; induction p as [|i p IH]; intros e [|x v] j Hn Hl Hb Hj; simpl in *; try lia.
  inversion Hn as [|? ? Hni Hn']; subst.
  destruct j as [|j].
  - rewrite scatter_notin; auto. unfold zn. apply nth_upd_eq. apply Hb. auto.
  - change (zn (x :: v) (S j)) with (zn v j). apply IH; auto; try lia. intros c Hc. rewrite upd_length. apply Hb. auto.
Qed.

Lemma scatter_same e p : scatter e p (map (zn e) p) = e.
Proof. induction p as [|i p IH]; simpl; auto. unfold zn at 1. rewrite upd_same. exact IH. Qed.

Lemma setmask_length m p : length (setmask m p) = length m.
Proof. unfold setmask. revert m; induction p as [|i p IH]; intros m; simpl; auto. rewrite IH, upd_length. auto. Qed.

Lemma setmask_spec m p c : (forall x, In x p -> (x < length m)%nat) ->
  nth c (setmask m p) false = true <-> (In c p \/ nth c m false = true).
Proof.
  unfold setmask. revert m; induction p as [|i p IH]; intros m Hb; simpl; [tauto|].
  rewrite IH; [|intros x Hx; rewrite upd_length; apply Hb; right; auto].
  rewrite nth_upd. destruct (Nat.eqb_spec c i) as [->|Hne]; simpl.
  - assert (Hi : (i <? length m)%nat = true) by (apply Nat.ltb_lt, Hb; left; auto). rewrite Hi. tauto.
  - intuition congruence.
Qed.

(* ---------- the trace ---------- *)

Section Tree.
Variable F : list Z -> list Z.
Hypothesis K : contract F.
Variable ds : list nat.
Variable sq : list nat.
Hypothesis Ht : topo ds sq.
Hypothesis Hc : complete ds sq.
Let n := length ds.

Lemma sq_valid i : In i sq <-> valid ds i.
Proof. split; [apply topo_valid; auto|apply Hc]. Qed.

Lemma wf_ds : wf ds.
Proof. intros i Hv. apply sq_valid. apply topo_closed; auto. Qed.

Definition stopb (mask : list bool) (c : nat) : bool :=
  nth c mask false || (dsf ds c =? c)%nat || (n <=? dsf ds c)%nat.

Definition pathof (i k : nat) : list nat := map (fun j => iter ds j i) (seq 0 (S k)).

Lemma pathof_S i k : pathof i (S k) = i :: pathof (dsf ds i) k.
Proof. unfold pathof. change (seq 0 (S (S k))) with (0%nat :: seq 1 (S k)).
  rewrite <- seq_shift, map_cons, map_map. reflexivity. Qed.

Lemma tracem_spec mask : forall fuel i k, (k <= fuel)%nat ->
  (forall j, (j < k)%nat -> stopb mask (iter ds j i) = false) -> stopb mask (iter ds k i) = true ->
  tracem ds fuel mask i = pathof i k.
Proof.
  induction fuel as [|f IH]; intros i k Hk Hns Hs.
  - assert (k = 0)%nat by lia. subst. reflexivity.
  - destruct k as [|k].
    + simpl in Hs. unfold stopb in Hs. cbn [tracem]. fold n.
      destruct (nth i mask false); [reflexivity|]. simpl in Hs. rewrite Hs. reflexivity.
    + assert (H0 : stopb mask i = false) by (apply (Hns 0%nat); lia).
      unfold stopb in H0. rewrite !orb_false_iff in H0. destruct H0 as [[H1 H2] H3].
      cbn [tracem]. fold n. rewrite H1, H2, H3. simpl. rewrite pathof_S. f_equal.
      apply IH; [lia| |exact Hs].
      intros j Hj. apply (Hns (S j)). lia.
Qed.

Lemma path_nodup i k : valid ds i -> (forall j, (j < k)%nat -> dsf ds (iter ds j i) <> iter ds j i) ->
  NoDup (pathof i k).
Proof.
  intros Hv Hnp. unfold pathof.
  assert (Hinj : forall a b, (a < b)%nat -> (b <= k)%nat -> iter ds a i <> iter ds b i).
  { intros a b Hab Hb Heq.
    apply (Hnp a); [lia|].
    apply (topo_acyclic ds sq (iter ds a i) (b - a - 1)); [exact Ht|apply topo_closed_iter; auto; apply sq_valid; auto|].
    replace (S (b - a - 1)) with (b - a)%nat by lia.
    rewrite <- iter_add. replace (a + (b - a))%nat with b by lia. auto. }
  assert (G : forall m, (m <= S k)%nat -> NoDup (map (fun j => iter ds j i) (seq 0 m))).
  { induction m as [|m IH]; intros Hm; [constructor|].
    rewrite seq_S, map_app. simpl. apply NoDup_snoc; [apply IH; lia|].
    intros Hin. apply in_map_iff in Hin. destruct Hin as [a [Ha Hin]]. apply in_seq in Hin.
    apply (Hinj a m); auto; lia. }
  apply G. lia.
Qed.

Lemma path_nth i k j : (j <= k)%nat -> nth j (pathof i k) 0%nat = iter ds j i.
Proof. intros Hj. unfold pathof.
  rewrite (nth_indep _ 0%nat (iter ds 0 i)) by (rewrite map_length, seq_length; lia).
  rewrite (map_nth (fun j => iter ds j i) (seq 0 (S k)) 0%nat j).
  rewrite seq_nth by lia. reflexivity. Qed.

Lemma path_in i k c : In c (pathof i k) <-> exists j, (j <= k)%nat /\ c = iter ds j i.
Proof. unfold pathof. rewrite in_map_iff. split.
  - intros [j [Hj Hin]]. apply in_seq in Hin. exists j. split; [lia|auto].
  - intros [j [Hj ->]]. exists j. split; auto. apply in_seq. lia. Qed.

(* ---------- the invariant ---------- *)

Variable elv : list Z.
Hypothesis Hlen : length elv = n.
Variables lo hi : Z.
Hypothesis Hrange : forall i, valid ds i -> lo <= zn elv i <= hi.

Record Inv (e : list Z) (mask : list bool) : Prop := {
  I_len : length e = n;
  I_mlen : length mask = n;
  I_valid : forall c, nth c mask false = true -> valid ds c;
  I_closed : forall c, nth c mask false = true -> dsf ds c <> c -> nth (dsf ds c) mask false = true;
  I_mono : forall c, nth c mask false = true -> dsf ds c <> c -> zn e (dsf ds c) <= zn e c;
  I_same : forall c, nth c mask false = false -> zn e c = zn elv c;
  I_range : forall c, valid ds c -> lo <= zn e c <= hi }.

Lemma nth_repeat_false c m : nth c (repeat false m) false = false.
Proof. revert c; induction m as [|m IH]; intros [|c]; simpl; auto. Qed.

Lemma Inv_init : Inv elv (repeat false n).
Proof. constructor; auto; try (intros c H; rewrite nth_repeat_false in H; discriminate).
  apply repeat_length. Qed.

Lemma valid_lt c : valid ds c -> (c < n)%nat.
Proof. intros [H _]. exact H. Qed.

Lemma adj_step_inv e mask i0 : Inv e mask -> valid ds i0 ->
  let st := adj_step F ds (e, mask) i0 in
  Inv (fst st) (snd st) /\ nth i0 (snd st) false = true /\
  (forall c, nth c mask false = true -> nth c (snd st) false = true).
Proof.
  intros HI Hv. unfold adj_step. fold n.
  destruct (nth i0 mask false) eqn:Em; [simpl; auto|].
  (* the stopping index *)
  destruct (topo_drains ds sq i0 Ht (proj2 (sq_valid i0) Hv)) as [kp Hkp].
  assert (Hstop : stopb mask (iter ds kp i0) = true).
  { unfold stopb. destruct Hkp as [_ Hp]. rewrite Hp, Nat.eqb_refl, orb_true_r. reflexivity. }
  destruct (least_witness (fun j => stopb mask (iter ds j i0)) kp Hstop) as [k [Hk [Hsk Hnk]]].
  assert (Hval : forall j, valid ds (iter ds j i0)) by (intros j; apply iter_valid; auto using wf_ds).
  assert (Hnp : forall j, (j < k)%nat -> dsf ds (iter ds j i0) <> iter ds j i0).
  { intros j Hj. specialize (Hnk j Hj). unfold stopb in Hnk. rewrite !orb_false_iff in Hnk.
    destruct Hnk as [[_ H2] _]. apply Nat.eqb_neq in H2. exact H2. }
  assert (Hum : forall j, (j < k)%nat -> nth (iter ds j i0) mask false = false).
  { intros j Hj. specialize (Hnk j Hj). unfold stopb in Hnk. rewrite !orb_false_iff in Hnk. tauto. }
  assert (Hnd : NoDup (pathof i0 k)) by (apply path_nodup; auto).
  assert (Hpb : forall c, In c (pathof i0 k) -> (c < n)%nat).
  { intros c Hin. apply path_in in Hin. destruct Hin as [j [_ ->]]. apply valid_lt, Hval. }
  assert (Hkn : (k <= n)%nat).
  { pose proof (NoDup_bound _ n Hnd Hpb) as Hb. unfold pathof in Hb. rewrite map_length, seq_length in Hb. lia. }
  rewrite (tracem_spec mask n i0 k Hkn Hnk Hsk).
  set (p := pathof i0 k). set (v := F (map (zn e) p)).
  assert (Hpl : length p = S k) by (unfold p, pathof; rewrite map_length, seq_length; auto).
  assert (Hvl : length v = S k) by (unfold v; rewrite (K_len F K), map_length; auto).
  assert (Hpe : forall c, In c p -> (c < length e)%nat) by (intros c Hin; rewrite (I_len _ _ HI); auto).
  assert (Hpm : forall c, In c p -> (c < length mask)%nat) by (intros c Hin; rewrite (I_mlen _ _ HI); auto).
  assert (Hev : forall j, (j <= k)%nat -> zn (scatter e p v) (iter ds j i0) = zn v j).
  { intros j Hj. rewrite <- (path_nth i0 k j Hj). apply scatter_in; [exact Hnd | transitivity (S k); [exact Hvl | symmetry; exact Hpl] | exact Hpe | ]. fold p. rewrite Hpl. lia. }
  assert (Hlastv : zn v k = zn e (iter ds k i0)).
  { unfold v. pose proof (K_last F K (map (zn e) p)) as Hl. rewrite map_length, Hpl in Hl.
    replace (S k - 1)%nat with k in Hl by lia. rewrite Hl.
    unfold zn at 1. rewrite (nth_indep _ 0 (zn e 0%nat)) by (rewrite map_length; lia).
    rewrite map_nth. unfold p. rewrite path_nth; auto. }
  (* iter (k+1) is outside the path when iter k is not a pit *)
  assert (Hnext : dsf ds (iter ds k i0) <> iter ds k i0 -> ~ In (dsf ds (iter ds k i0)) p).
  { intros Hnpk Hin. apply path_in in Hin. destruct Hin as [j [Hj Heq]].
    rewrite <- iter_S in Heq.
    assert (Hp : dsf ds (iter ds j i0) = iter ds j i0).
    { apply (topo_acyclic ds sq (iter ds j i0) (k - j)); [exact Ht|apply topo_closed_iter; auto; apply sq_valid; auto|].
      rewrite <- iter_add. replace (j + S (k - j))%nat with (S k) by lia. auto. }
    destruct (Nat.eq_dec j k) as [->|Hne]; [auto|]. apply (Hnp j); [lia|auto]. }
  cbn [fst snd]. split; [|split].
  - constructor.
    + rewrite scatter_length. apply (I_len _ _ HI).
    + rewrite setmask_length. apply (I_mlen _ _ HI).
    + intros c Hm. apply setmask_spec in Hm; auto. destruct Hm as [Hin|Hm]; [|apply (I_valid _ _ HI); auto].
      apply path_in in Hin. destruct Hin as [j [_ ->]]. auto.
    + intros c Hm Hnpc. apply setmask_spec; auto. apply setmask_spec in Hm; auto.
      destruct Hm as [Hin|Hm]; [|right; apply (I_closed _ _ HI); auto].
      apply path_in in Hin. destruct Hin as [j [Hj ->]].
      destruct (Nat.eq_dec j k) as [->|Hne].
      * unfold stopb in Hsk. rewrite !orb_true_iff in Hsk. destruct Hsk as [[Hsk|Hsk]|Hsk].
        -- right. apply (I_closed _ _ HI); auto.
        -- apply Nat.eqb_eq in Hsk. contradiction.
        -- apply Nat.leb_le in Hsk. destruct (wf_ds _ (Hval k)) as [Hlt _]. unfold size in Hlt. unfold n in Hsk. lia.
      * left. apply path_in. exists (S j). split; [lia|]. rewrite iter_S. auto.
    + intros c Hm Hnpc. apply setmask_spec in Hm; auto.
      destruct (in_dec Nat.eq_dec c p) as [Hin|Hnin].
      * apply path_in in Hin. destruct Hin as [j [Hj ->]].
        destruct (Nat.eq_dec j k) as [->|Hne].
        -- rewrite (Hev k) by lia. rewrite scatter_notin by (apply Hnext; auto). rewrite Hlastv.
           apply (I_mono _ _ HI); auto.
           unfold stopb in Hsk. rewrite !orb_true_iff in Hsk. destruct Hsk as [[Hsk|Hsk]|Hsk]; auto.
           ++ apply Nat.eqb_eq in Hsk. contradiction.
           ++ apply Nat.leb_le in Hsk. destruct (wf_ds _ (Hval k)) as [Hlt _]. unfold size in Hlt. unfold n in Hsk. lia.
        -- rewrite <- iter_S. rewrite (Hev (S j)) by lia. rewrite (Hev j) by lia.
           apply (K_mono F K). fold v. rewrite Hvl. lia.
      * destruct Hm as [Hin|Hm]; [contradiction|].
        rewrite (scatter_notin _ _ _ c) by auto.
        pose proof (I_mono _ _ HI c Hm Hnpc) as Hmo.
        destruct (in_dec Nat.eq_dec (dsf ds c) p) as [Hin|Hnin2]; [|rewrite scatter_notin; auto].
        apply path_in in Hin. destruct Hin as [j [Hj Heq]].
        pose proof (I_closed _ _ HI c Hm Hnpc) as Hcm.
        destruct (Nat.eq_dec j k) as [->|Hne].
        -- rewrite Heq, (Hev k) by lia. rewrite Hlastv, <- Heq. exact Hmo.
        -- rewrite Heq in Hcm. rewrite Hum in Hcm by lia. discriminate.
    + intros c Hm.
      assert (Hnin : ~ In c p).
      { intros Hin. assert (nth c (setmask mask p) false = true) by (apply setmask_spec; auto). congruence. }
      rewrite scatter_notin by auto. apply (I_same _ _ HI).
      destruct (nth c mask false) eqn:E; auto.
      assert (nth c (setmask mask p) false = true) by (apply setmask_spec; auto). congruence.
    + intros c Hvc.
      destruct (in_dec Nat.eq_dec c p) as [Hin|Hnin]; [|rewrite scatter_notin by auto; apply (I_range _ _ HI); auto].
      apply path_in in Hin. destruct Hin as [j [Hj ->]]. rewrite Hev by auto.
      assert (Hw : within lo hi v).
      { unfold v. apply (K_range F K). intros x Hx. apply in_map_iff in Hx. destruct Hx as [c [<- Hcin]].
        apply (I_range _ _ HI). apply path_in in Hcin. destruct Hcin as [j' [_ ->]]. auto. }
      apply Hw. unfold zn. apply nth_In. lia.
  - apply setmask_spec; auto. left. apply path_in. exists 0%nat. split; [lia|reflexivity].
  - intros c Hm. apply setmask_spec; auto.
Qed.

Lemma adj_fold_inv P : forall e mask, Inv e mask -> (forall i, In i P -> valid ds i) ->
  let st := fold_left (adj_step F ds) P (e, mask) in
  Inv (fst st) (snd st) /\ (forall i, In i P -> nth i (snd st) false = true) /\
  (forall c, nth c mask false = true -> nth c (snd st) false = true).
Proof.
  induction P as [|i0 P IH]; intros e mask HI HP; cbn [fold_left].
  - split; [exact HI|]. split; [intros i []|auto].
  - destruct (adj_step_inv e mask i0 HI (HP i0 (or_introl eq_refl))) as [HI' [Hm0 Hmon]].
    destruct (adj_step F ds (e, mask) i0) as [e' mask'] eqn:Es. cbn [fst snd] in *.
    destruct (IH e' mask' HI' (fun i Hi => HP i (or_intror Hi))) as [HI'' [Hall Hmon']].
    split; [exact HI''|]. split.
    + intros i [<-|Hi]; [apply Hmon'; exact Hm0|apply Hall; exact Hi].
    + intros c Hm. apply Hmon', Hmon, Hm.
Qed.

Theorem adjust_tree_sec :
  let out := adjust F ds sq elv in
  length out = length elv /\
  (forall i, valid ds i -> dsf ds i <> i -> zn out (dsf ds i) <= zn out i) /\
  (forall i, ~ valid ds i -> zn out i = zn elv i) /\
  (forall i, valid ds i -> lo <= zn out i <= hi).
Proof.
  unfold adjust. fold n.
  destruct (adj_fold_inv (rev sq) elv (repeat false n) Inv_init) as [HI [Hall _]].
  { intros i Hi. apply sq_valid. apply in_rev. auto. }
  destruct (fold_left (adj_step F ds) (rev sq) (elv, repeat false n)) as [e mask]. simpl in *.
  assert (Hm : forall i, valid ds i -> nth i mask false = true).
  { intros i Hv. apply Hall. rewrite <- in_rev. apply sq_valid. auto. }
  split; [rewrite (I_len _ _ HI); auto|]. split; [|split].
  - intros i Hv Hnp. apply (I_mono _ _ HI); auto.
  - intros i Hnv. apply (I_same _ _ HI). destruct (nth i mask false) eqn:E; auto.
    exfalso. apply Hnv. apply (I_valid _ _ HI). auto.
  - intros i Hv. apply (I_range _ _ HI). auto.
Qed.

(* conforming input is returned unchanged *)
Lemma adj_fold_conforming P : (forall i, valid ds i -> dsf ds i <> i -> zn elv (dsf ds i) <= zn elv i) ->
  forall mask, Inv elv mask -> (forall i, In i P -> valid ds i) ->
  fst (fold_left (adj_step F ds) P (elv, mask)) = elv.
Proof.
  intros Hconf. induction P as [|i0 P IH]; intros mask HI HP; cbn [fold_left]; auto.
  assert (Hv : valid ds i0) by (apply HP; left; auto).
  destruct (adj_step_inv elv mask i0 HI Hv) as [HI' _].
  assert (Hfst : fst (adj_step F ds (elv, mask) i0) = elv).
  { unfold adj_step. destruct (nth i0 mask false); [reflexivity|]. simpl. fold n.
    set (p := tracem ds n mask i0).
    assert (Hni : nonincr (map (zn elv) p)).
    { (* consecutive cells of a trace are (c, dsf c) with c valid and not a pit *)
      assert (G : forall fuel i, valid ds i -> nonincr (map (zn elv) (tracem ds fuel mask i))).
      { induction fuel as [|f IHf]; intros i Hvi; [intros j Hj; simpl in Hj; lia|].
        cbn [tracem]. fold n. destruct (nth i mask false); [intros j Hj; simpl in Hj; lia|].
        destruct ((dsf ds i =? i)%nat || (n <=? dsf ds i)%nat) eqn:E; [intros j Hj; simpl in Hj; lia|].
        apply orb_false_iff in E. destruct E as [E1 E2]. apply Nat.eqb_neq in E1.
        specialize (IHf (dsf ds i) (wf_ds _ Hvi)).
        intros [|j] Hj.
        - simpl. destruct f as [|f']; simpl.
          + apply Hconf; auto.
          + fold n. destruct (nth (dsf ds i) mask false); [simpl; apply Hconf; auto|].
            destruct ((dsf ds (dsf ds i) =? dsf ds i)%nat || (n <=? dsf ds (dsf ds i))%nat); simpl; apply Hconf; auto.
        - simpl in Hj. apply (IHf j). simpl. lia. }
      apply G. auto. }
    rewrite (K_id F K _ Hni). apply scatter_same. }
  destruct (adj_step F ds (elv, mask) i0) as [e' mask'] eqn:Es. cbn [fst snd] in *. subst e'.
  apply IH; auto. intros i Hi. apply HP. right; auto.
Qed.
End Tree.

Lemma zn_bounds l : exists lo hi, forall i, lo <= zn l i <= hi.
Proof. induction l as [|a l [lo [hi IH]]].
  - exists 0, 0. intros [|i]; unfold zn; simpl; lia.
  - exists (Z.min a lo), (Z.max a hi). intros [|i]; unfold zn; simpl; [lia|]. specialize (IH i). unfold zn in IH. lia.
Qed.

Theorem adjust_tree F ds sq elv lo hi : contract F -> topo ds sq -> complete ds sq -> length elv = length ds ->
  (forall i, valid ds i -> lo <= zn elv i <= hi) ->
  let out := adjust F ds sq elv in
  length out = length elv /\
  (forall i, valid ds i -> dsf ds i <> i -> zn out (dsf ds i) <= zn out i) /\
  (forall i, ~ valid ds i -> zn out i = zn elv i) /\
  (forall i, valid ds i -> lo <= zn out i <= hi).
Proof. intros K Ht Hc Hl Hr. apply adjust_tree_sec; auto. Qed.

Theorem adjust_conforming_fixed F ds sq elv : contract F -> topo ds sq -> complete ds sq -> length elv = length ds ->
  (forall i, valid ds i -> dsf ds i <> i -> zn elv (dsf ds i) <= zn elv i) ->
  adjust F ds sq elv = elv.
Proof.
  intros K Ht Hc Hl Hconf. unfold adjust.
  destruct (zn_bounds elv) as [lo [hi Hb]].
  apply (adj_fold_conforming F K ds sq Ht Hc elv Hl lo hi (rev sq) Hconf).
  - apply Inv_init; auto.
  - intros i Hi. apply (sq_valid ds sq Ht Hc). apply in_rev. auto.
Qed.

Theorem adjust_idempotent F ds sq elv : contract F -> topo ds sq -> complete ds sq -> length elv = length ds ->
  adjust F ds sq (adjust F ds sq elv) = adjust F ds sq elv.
Proof.
  intros K Ht Hc Hl.
  destruct (zn_bounds elv) as [lo [hi Hb]].
  destruct (adjust_tree F ds sq elv lo hi K Ht Hc Hl (fun i _ => Hb i)) as [Hlen [Hmono _]].
  apply adjust_conforming_fixed; auto. congruence.
Qed.
