(* Arrays as lists: functional update and the lemmas every kernel model uses. *)
From Coq Require Import List Arith Lia Bool ZArith.
Import ListNotations.

Fixpoint upd {A} (l : list A) (i : nat) (v : A) : list A :=
  match l, i with
  | [], _ => []
  | _ :: t, 0 => v :: t
  | h :: t, S k => h :: upd t k v
  end.

Lemma upd_length {A} (l : list A) i v : length (upd l i v) = length l.
Proof. revert i; induction l as [|h t IH]; intros [|k]; simpl; auto. Qed.

Lemma nth_upd_eq {A} (l : list A) i v d : i < length l -> nth i (upd l i v) d = v.
Proof. revert i; induction l as [|h t IH]; intros [|k] H; simpl in *; try lia; auto.
  apply IH; lia. Qed.

Lemma nth_upd_neq {A} (l : list A) i j v d : i <> j -> nth i (upd l j v) d = nth i l d.
Proof. revert i j; induction l as [|h t IH]; intros [|i] [|j] H; simpl; auto; try congruence. Qed.

Lemma nth_upd {A} (l : list A) i j v d :
  nth i (upd l j v) d = if Nat.eqb i j && Nat.ltb j (length l) then v else nth i l d.
Proof.
  destruct (Nat.eqb_spec i j) as [->|Hne]; simpl.
  - destruct (Nat.ltb_spec j (length l)) as [Hlt|Hge].
    + apply nth_upd_eq; auto.
    + rewrite !nth_overflow; auto. rewrite upd_length; auto.
  - apply nth_upd_neq; auto.
Qed.

Lemma upd_oob {A} (l : list A) i v : length l <= i -> upd l i v = l.
Proof. revert i; induction l as [|h t IH]; intros [|k] H; simpl in *; auto; try lia.
  f_equal. apply IH. lia. Qed.

Lemma upd_same {A} (l : list A) i d : upd l i (nth i l d) = l.
Proof. revert i; induction l as [|h t IH]; intros [|i]; simpl; auto. f_equal. apply IH. Qed.

(* list equality from pointwise equality *)
Lemma nth_ext_len {A} (l1 l2 : list A) d :
  length l1 = length l2 -> (forall i, i < length l1 -> nth i l1 d = nth i l2 d) -> l1 = l2.
Proof. intros H1 H2. apply (nth_ext l1 l2 d d); auto. Qed.

(* sum over a list of Z *)
Definition zsum (l : list Z) : Z := fold_right Z.add 0%Z l.

Lemma zsum_app l1 l2 : zsum (l1 ++ l2) = (zsum l1 + zsum l2)%Z.
Proof. induction l1 as [|h t IH]; simpl; auto. rewrite IH. lia. Qed.

Lemma zsum_map_ext {A} (f g : A -> Z) l : (forall x, In x l -> f x = g x) ->
  zsum (map f l) = zsum (map g l).
Proof. induction l as [|h t IH]; simpl; intros H; auto. rewrite H, IH; auto. Qed.

Lemma fold_left_add_zsum l a : fold_left Z.add l a = (a + zsum l)%Z.
Proof. revert a; induction l as [|h t IH]; intros a; simpl; [lia|]. rewrite IH. lia. Qed.

(* boolean membership on nat *)
Fixpoint memb (x : nat) (l : list nat) : bool :=
  match l with [] => false | h :: t => Nat.eqb x h || memb x t end.

Lemma memb_In x l : memb x l = true <-> In x l.
Proof. induction l as [|h t IH]; simpl; [split; [discriminate|tauto]|].
  rewrite orb_true_iff, IH, Nat.eqb_eq. split; intros [H|H]; auto. Qed.

Lemma memb_false x l : memb x l = false <-> ~ In x l.
Proof. rewrite <- memb_In. destruct (memb x l); split; intros; congruence. Qed.

Fixpoint nodupb (l : list nat) : bool :=
  match l with [] => true | h :: t => negb (memb h t) && nodupb t end.

Lemma nodupb_NoDup l : nodupb l = true <-> NoDup l.
Proof. induction l as [|h t IH]; simpl.
  - split; auto. constructor.
  - rewrite andb_true_iff, negb_true_iff, memb_false, IH. split.
    + intros [H1 H2]; constructor; auto.
    + intros H; inversion H; auto. Qed.

Lemma NoDup_snoc {A} (l : list A) x : NoDup l -> ~ In x l -> NoDup (l ++ [x]).
Proof.
  intros Hl Hx. induction Hl as [|a l Ha Hl IH]; simpl; [constructor; [intros []|constructor]|].
  constructor.
  - intros H. apply in_app_or in H. destruct H as [H|[H|[]]]; [contradiction|]. apply Hx. left; auto.
  - apply IH. intros H. apply Hx. right; auto.
Qed.
