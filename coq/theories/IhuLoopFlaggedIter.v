(* C09 / ihu: EVERY CYCLE OF THE NETWORK RETURNED BY up_ihu PASSES THROUGH A CELL WITH AN UPSCALE ERROR.
   The result of up_ihu on a legal input is the result of the stages optimize_rivlen + minimize_error of its last
   iteration, run on the state a1 left by the last ihu_relocate_outlets; the links between the cells that
   upscale_check flags valid IN THAT STATE decrease a rank (IhuLoopFlagged.v).  A cell is unflagged when the walk from its
   outlet pixel does not arrive at the outlet pixel of its downstream cell (an "upscale error").  The cycles of IhuLoop.v
   are of this kind, and show that the restriction cannot be dropped. *)
From Coq Require Import List Arith ZArith Bool Lia.
Import ListNotations.
From PF Require Import Arr Net Elev Upscale UpscaleSpec UpscaleD8 UpscaleNoErr D8Idx Ihu IhuD8 IhuValid IhuDistinct
  IhuRank IhuAssert IhuAssertInit IhuFuel IhuNoMarker IhuLoop IhuLoopFlagged.

(* ---------- a rank on flagged cells: every cycle passes through an unflagged cell ---------- *)
Lemma iter_ds_rank_flag valid cds nc r :
  (forall i, Flag valid i -> nth i cds nc < nc -> nth i cds nc <> i -> Flag valid (nth i cds nc) -> r (nth i cds nc) < r i) ->
  forall k i, (forall j, j <= k -> Flag valid (iter_ds cds nc j i)) ->
    (forall j, j < k -> nth (iter_ds cds nc j i) cds nc < nc /\ nth (iter_ds cds nc j i) cds nc <> iter_ds cds nc j i) ->
    r (iter_ds cds nc k i) + k <= r i.
Proof.
  intros Hr. induction k as [|k IH]; intros i HF H; cbn [iter_ds]; [lia|].
  destruct (H 0 ltac:(lia)) as [A B]. cbn [iter_ds] in A, B.
  pose proof (HF 0 ltac:(lia)) as F0. pose proof (HF 1 ltac:(lia)) as F1. cbn [iter_ds] in F0, F1.
  pose proof (Hr i F0 A B F1) as R.
  assert (HF' : forall j, j <= k -> Flag valid (iter_ds cds nc j (nth i cds nc))) by (intros j Hj; apply (HF (S j)); lia).
  assert (H' : forall j, j < k -> nth (iter_ds cds nc j (nth i cds nc)) cds nc < nc /\
                 nth (iter_ds cds nc j (nth i cds nc)) cds nc <> iter_ds cds nc j (nth i cds nc))
    by (intros j Hj; apply (H (S j)); lia).
  specialize (IH (nth i cds nc) HF' H'). lia.
Qed.

Theorem cycle_through_unflagged valid cds nc k i : RankInv nc valid cds -> on_cycle cds nc k i ->
  exists j, j < k /\ nth (iter_ds cds nc j i) valid true = false.
Proof.
  intros [r Hr] (Hk & Hi & Hc & Hj).
  destruct (existsb (fun j => negb (nth (iter_ds cds nc j i) valid true)) (seq 0 k)) eqn:E.
  - apply existsb_exists in E. destruct E as (j & Hin & Hn). apply in_seq in Hin. apply negb_true_iff in Hn.
    exists j. split; [lia|exact Hn].
  - exfalso.
    assert (Hall : forall j, j < k -> Flag valid (iter_ds cds nc j i)).
    { intros j Hjk. unfold Flag. destruct (nth (iter_ds cds nc j i) valid true) eqn:En; [reflexivity|].
      assert (X : existsb (fun j => negb (nth (iter_ds cds nc j i) valid true)) (seq 0 k) = true).
      { apply existsb_exists. exists j. split; [apply in_seq; lia|rewrite En; reflexivity]. }
      rewrite X in E. discriminate. }
    assert (HF : forall j, j <= k -> Flag valid (iter_ds cds nc j i)).
    { intros j Hjk. destruct (Nat.eq_dec j k) as [->|N]; [rewrite Hc; apply (Hall 0); lia|apply Hall; lia]. }
    assert (H : forall j, j < k -> nth (iter_ds cds nc j i) cds nc < nc /\ nth (iter_ds cds nc j i) cds nc <> iter_ds cds nc j i).
    { intros j Hjk. split; [|apply Hj; exact Hjk]. rewrite <- iter_ds_S.
      destruct (Nat.eq_dec (S j) k) as [E'|N]; [rewrite E', Hc; exact Hi|]. apply Hj. lia. }
    pose proof (iter_ds_rank_flag valid cds nc r Hr k i HF H) as R. rewrite Hc in R. lia.
Qed.

Section Iter.
Variables sds sq : list nat.
Variable upa : list Z.
Variables subnrow subncol cs : nat.
Variable ea : list bool.
Notation nsub := (length sds).
Notation nrow := (cdiv subnrow cs).
Notation ncol := (cdiv subncol cs).
Notation nc := (nrow * ncol).

Hypothesis Hcs : 0 < cs.
Hypothesis HW : 0 < subncol.
Hypothesis Hlen : length sds = subnrow * subncol.
Hypothesis Ht : topo sds sq.
Hypothesis Hc : complete sds sq.

Let Hwf := topo_complete_closed sds sq Ht Hc.
Let Hncol : 0 < ncol := ncol_pos sds subnrow subncol cs Hcs HW Hlen.

(* `res` is what the stages of one iteration make of the state a1, and carries the rank for the flags of that iteration *)
Definition LastStage (res : A) : Prop :=
  exists (a1 : A) (p : nat),
    let c := upscale_check sds cs nrow ncol (a_out a1) (a_cds a1) in
    let a2 := mkA (a_cds a1) (a_out a1) (c_st c) (if c_ok c then a_err a1 else if a_err a1 =? 0 then 1 else a_err a1) in
    res = minimize_error sds upa subncol cs nrow ncol (c_fix c) p
            (optimize_rivlen sds upa subncol cs nrow ncol (c_valid c) (c_short c) a2) /\
    RankInv nc (c_valid c) (a_cds res).

Theorem ihu_iter_flagged n : forall j a fixl,
  G0 sds subnrow subncol cs (a_cds a) (a_out a) -> InCell sds subncol cs (a_out a) -> Inv nrow ncol (a_cds a) ->
  (forall x, In x fixl -> Val subnrow subncol cs (a_cds a) x) ->
  LastStage (ihu_iter sds upa subncol cs nrow ncol (S n) j a fixl).
Proof.
  induction n as [|n IH]; intros j a fixl G HI HV Hf.
  1: cbn [ihu_iter]; cbv zeta.
  2: remember (S n) as m eqn:Em; cbn [ihu_iter]; cbv zeta.
  all: destruct (relocate_ok sds upa subnrow subncol cs Hcs HW Hlen Hwf fixl a G Hf) as [G1' M1].
  all: pose proof (relocate_incell sds upa subnrow subncol cs Hcs HW Hlen fixl a HI) as I1.
  all: pose proof (relocate_inv sds upa subncol cs nrow ncol fixl a HV) as V1.
  all: set (a1 := relocate sds upa subncol cs nrow ncol fixl a) in *.
  all: destruct (upscale_check_ok sds subnrow subncol cs Hcs HW Hlen (a_cds a1) (a_out a1) G1') as (Cs & Cf & Csh).
  all: pose proof (upscale_check_rank_incell sds subnrow subncol cs sq (a_out a1) (a_cds a1) Ht Hc G1' I1) as R1.
  all: destruct (upscale_check_fix_unflagged sds cs nrow ncol (a_out a1) (a_cds a1)) as [_ Cu]; cbv zeta in Cu.
  all: set (c := upscale_check sds cs nrow ncol (a_out a1) (a_cds a1)) in *.
  all: match goal with |- context [optimize_rivlen _ _ _ _ _ _ _ _ ?a2] => set (A2 := a2) end.
  all: assert (H2 : G1 sds subnrow subncol cs A2) by (split; cbn [A2 a_cds a_out a_st]; assumption).
  all: pose proof (optimize_rivlen_ok sds upa subnrow subncol cs Hcs HW Hlen Hwf (c_valid c) (c_short c) A2 H2 Csh) as H3.
  all: destruct (optimize_rivlen_rank sds upa subncol cs nrow ncol Hncol (c_valid c) (c_short c) A2 V1
              (g_lc _ _ _ _ _ _ G1') R1) as (V3 & L3 & R3 & _).
  all: pose proof (optimize_rivlen_incell sds upa subnrow subncol cs Hcs HW Hlen (c_valid c) (c_short c) A2 I1) as I3.
  all: cbv zeta in V3, L3, R3.
  all: set (A3 := optimize_rivlen sds upa subncol cs nrow ncol (c_valid c) (c_short c) A2) in *.
  all: assert (Hf3 : forall x, In x (c_fix c) -> Val subnrow subncol cs (a_cds A3) x)
         by (intros x Hx; destruct H3 as [_ M3]; apply M3; apply Cf; exact Hx).
  all: assert (G3 : G1 sds subnrow subncol cs A3) by (destruct H3 as [H3 _]; exact H3).
  all: assert (K4 : forall p, K nrow ncol (c_valid c) (a_cds (minimize_error sds upa subncol cs nrow ncol (c_fix c) p A3)))
         by (intros p; apply (minimize_error_K sds upa subncol cs nrow ncol Hncol); [exact Cu|split; [exact V3|split; [exact L3|exact R3]]]).
  all: assert (LS : forall p, LastStage (minimize_error sds upa subncol cs nrow ncol (c_fix c) p A3))
         by (intros p; exists a1, p; cbv zeta; split; [reflexivity|destruct (K4 p) as (_ & _ & R4); exact R4]).
  - (* the fuel of the iterations runs out: the result is the one of this iteration *)
    match goal with |- context [if ?c then _ else _] => destruct c end; apply LS.
  - match goal with |- context [if ?c then _ else ihu_iter _ _ _ _ _ _ _ _ _ _] => destruct c end; [apply LS|].
    destruct (minimize_error_ok sds upa subnrow subncol cs Hcs HW Hlen Hwf (c_fix c) 0 A3 G3 Hf3) as [[G4 _] M4].
    subst m. apply IH; [exact G4| | |].
    + apply (minimize_error_incell sds upa subnrow subncol cs Hcs HW Hlen). exact I3.
    + apply minimize_error_inv. exact V3.
    + intros x Hx. apply M4. apply Hf3. exact Hx.
Qed.

Hypothesis Hd8 : forall t, t < nsub -> Upscale.sd sds t < nsub -> in_d8 t (Upscale.sd sds t) subncol = true.
Hypothesis Hck : check_cross sds ea subncol cs = true.
Hypothesis Hupa : forall t, t < nsub -> Upscale.sd sds t < nsub -> (0 < nth t upa 0)%Z.

Theorem ihu_final_flagged : LastStage (ihu_final sds upa subnrow subncol cs ea).
Proof.
  unfold ihu_final. cbv zeta. apply ihu_iter_flagged; cbn [a_cds a_out a_err].
  - apply (G0_init sds upa subnrow subncol cs Hcs HW Hlen Hwf sq ea Ht Hc Hd8 Hck Hupa).
  - apply (ihu_outlets_InCell sds sq upa subnrow subncol cs ea); assumption.
  - apply (eam_plus_Inv sds sq upa subnrow subncol cs ea Hcs HW Hlen Ht Hc Hd8 Hck).
  - apply (fix_init sds upa subnrow subncol cs Hcs HW Hlen sq ea Ht Hc Hd8 Hck).
Qed.

(* TARGET (partial loop-freeness): the links returned by up_ihu are those of a state `res` produced by the last
   optimize_rivlen + minimize_error from a state a1, and there is a rank r on the coarse cells with r (cds i) < r i for every
   link i -> cds i, cds i <> i, between two cells that upscale_check flags valid on a1: a cycle of the returned network
   cannot consist of flagged cells only. *)
Theorem up_ihu_flagged_loopfree :
  let '(cds, out, (nr, ncl)) := up_ihu sds upa subnrow subncol cs ea in
  exists (a1 : A) (p : nat) (r : nat -> nat),
    let c := upscale_check sds cs nr ncl (a_out a1) (a_cds a1) in
    let a2 := mkA (a_cds a1) (a_out a1) (c_st c) (if c_ok c then a_err a1 else if a_err a1 =? 0 then 1 else a_err a1) in
    let res := minimize_error sds upa subncol cs nr ncl (c_fix c) p
                 (optimize_rivlen sds upa subncol cs nr ncl (c_valid c) (c_short c) a2) in
    cds = a_cds res /\ out = a_out res /\
    forall i, nth i (c_valid c) true = true -> nth i cds (nr * ncl) < nr * ncl -> nth i cds (nr * ncl) <> i ->
              nth (nth i cds (nr * ncl)) (c_valid c) true = true -> r (nth i cds (nr * ncl)) < r i.
Proof.
  rewrite (up_ihu_noerr sds sq upa subnrow subncol cs ea Hcs HW Hlen Ht Hc Hd8 Hck Hupa).
  destruct ihu_final_flagged as (a1 & p & E & [r Hr]). cbv zeta in E, Hr.
  exists a1, p, r. cbv zeta. rewrite <- E. split; [reflexivity|]. split; [reflexivity|]. exact Hr.
Qed.
(* the same as a statement on cycles: with the flags of the last upscale_check, every cycle of the returned network
   passes through an unflagged cell *)
Corollary up_ihu_cycle_through_unflagged :
  let '(cds, out, (nr, ncl)) := up_ihu sds upa subnrow subncol cs ea in
  exists (a1 : A) (p : nat),
    let c := upscale_check sds cs nr ncl (a_out a1) (a_cds a1) in
    let a2 := mkA (a_cds a1) (a_out a1) (c_st c) (if c_ok c then a_err a1 else if a_err a1 =? 0 then 1 else a_err a1) in
    let res := minimize_error sds upa subncol cs nr ncl (c_fix c) p
                 (optimize_rivlen sds upa subncol cs nr ncl (c_valid c) (c_short c) a2) in
    cds = a_cds res /\ out = a_out res /\
    forall k i, on_cycle cds (nr * ncl) k i -> exists j, j < k /\ nth (iter_ds cds (nr * ncl) j i) (c_valid c) true = false.
Proof.
  rewrite (up_ihu_noerr sds sq upa subnrow subncol cs ea Hcs HW Hlen Ht Hc Hd8 Hck Hupa).
  destruct ihu_final_flagged as (a1 & p & E & HR). cbv zeta in E, HR.
  exists a1, p. cbv zeta. rewrite <- E. split; [reflexivity|]. split; [reflexivity|].
  intros k i Hcy. apply (cycle_through_unflagged _ _ _ k i HR Hcy).
Qed.
End Iter.

Print Assumptions cycle_through_unflagged.
Print Assumptions ihu_iter_flagged.
Print Assumptions ihu_final_flagged.
Print Assumptions up_ihu_flagged_loopfree.
Print Assumptions up_ihu_cycle_through_unflagged.
