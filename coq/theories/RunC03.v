From Coq Require Import List Arith ZArith Bool.
Import ListNotations.
From PF Require Import Arr Net Rank Stream GenExtra Glue.
Open Scope Z_scope.

Definition mask_opt (has : Z) (m : list Z) : option (list bool) := if has =? 0 then None else Some (bs m).

Definition run_c03 (k : Z) (args : list (list Z)) : list (list Z) :=
  let ds := net_in (arg 0 args) in
  if k =? 301 then let '(r, c) := rank ds in [r; [Z.of_nat c]]
  else if k =? 302 then [zs (idxs_seq ds (ns (arg 1 args)))]
  else if k =? 303 then [zs (order_sort ds)]
  else if k =? 304 then [zs (loop_indices ds)]
  else if k =? 305 then [[zb (isvalid ds)]; [Z.of_nat (snd (rank ds))]]      (* validity and the node count (cells that reach a pit) *)
  else if k =? 306 then let d' := repair_loops ds in [net_out d'; zs (filter (fun i => (nth i d' (length d') =? i)%nat) (seq 0 (length d')))]
  else if k =? 307 then [upstream_count ds (mask_opt (argz 1 args) (arg 2 args))]
  else if k =? 308 then [[zb (check_topo ds (ns (arg 1 args))); zb (check_complete ds (ns (arg 1 args)))]]
  else if k =? 309 then [[zb (check_topo ds (ns (arg 1 args)))]]
  (* core.inflow_idxs / outflow_idxs (args ds, order, region flags), headwater_indices / confluence_indices (args ds, has-mask, mask) *)
  else if k =? 310 then [zs (inflow_idxs ds (ns (arg 1 args)) (bs (arg 2 args)))]
  else if k =? 311 then [zs (outflow_idxs ds (ns (arg 1 args)) (bs (arg 2 args)))]
  else if k =? 312 then [zs (headwater_indices ds (mask_opt (argz 1 args) (arg 2 args)))]
  else if k =? 313 then [zs (confluence_indices ds (mask_opt (argz 1 args) (arg 2 args)))]
  else [[-999]].
