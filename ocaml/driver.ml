(* Reads one case per line:  <kernel>|<ints>|<ints>|...   prints  <ints>|<ints>|...
   All logic lives in the extracted Model.run; this file only converts integers. *)
open Model

let rec pos_of_int (n : int) : positive =
  if n = 1 then XH
  else if n land 1 = 0 then XO (pos_of_int (n lsr 1))
  else XI (pos_of_int (n lsr 1))

let z_of_int (n : int) : z =
  if n = 0 then Z0 else if n > 0 then Zpos (pos_of_int n) else Zneg (pos_of_int (-n))

let rec int_of_pos (p : positive) : int =
  match p with XH -> 1 | XO q -> 2 * int_of_pos q | XI q -> 2 * int_of_pos q + 1

let int_of_z (x : z) : int =
  match x with Z0 -> 0 | Zpos p -> int_of_pos p | Zneg p -> - (int_of_pos p)

let parse_ints (s : string) : z list =
  String.split_on_char ' ' s
  |> List.filter (fun t -> t <> "")
  |> List.map (fun t -> z_of_int (int_of_string t))

let () =
  try
    while true do
      let line = input_line stdin in
      match String.split_on_char '|' line with
      | [] -> print_endline "ERR"
      | k :: rest ->
        let args = List.map parse_ints rest in
        let res =
          try
            let out = run (z_of_int (int_of_string (String.trim k))) args in
            String.concat "|"
              (List.map (fun l -> String.concat " " (List.map (fun v -> string_of_int (int_of_z v)) l)) out)
          with Stack_overflow -> "ERR stack" | Failure m -> "ERR " ^ m
        in
        print_endline res
    done
  with End_of_file -> ()
