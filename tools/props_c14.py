"""C14 — along-network operators."""
import statistics
from fractions import Fraction
import numpy as np
import nets

PID = "C14"
THEOREMS = ["downstream_spec", "upstream_sum_spec", "upstream_sum_nodata_refuted", "fill_up_spec", "fill_down_pairs", "merge_fold_closed", "fill_down_spec", "window_down_spec",
            "window_up_spec", "stream_distance_spec", "hand_spec", "floodplain_spec", "gen_upstream_sum_eq", "gen_fillnodata_upstream_eq", "gen_fillnodata_downstream_eq", "gen_hand_eq", "gen_stream_distance_eq", "gen_floodplains_eq", "gen__window_cells"]
RULE = ("loop-free closed graphs on n<=4 cells (n<=5 thorough) x small integer fields with nodata x every operator "
        "(downstream, upstream_sum, fillnodata up / down min,max,sum, window n=0..3 with and without stream-order "
        "restriction, moving average / median, stream distance in cells and metres on a 3-4-5 grid, HAND, floodplains "
        "with b=1 and perfect-square areas for b=0.5), random forests to 40 cells through the kernels and through "
        "Flwdir/FlwdirRaster methods; float outputs are compared with the exactly rounded model rational; "
        "non-trivial = network has a link")
ASSUMPTIONS = ["values are integers in the model; float results are compared as correctly rounded rationals on "
               "integer-valued inputs (sums exact in binary64/32)",
               "floodplains: uparea**b enters as an input threshold field (float power not modelled)"]
HOW = ["min", "max", "sum"]


def _smallnets(maxn, rng, frac=1.0):
    for n in range(2, maxn + 1):
        for ds in nets.all_graphs(n):
            if nets.is_wf(ds) and nets.is_loopfree(ds) and nets.pits(ds) and (n <= 3 or rng.random() < frac):
                yield ds


def _strahler(ds):
    from props_c08 import _strahler as s
    return s(ds, [1] * len(ds))


def _uparea(ds):
    from props_c08 import _uparea as u
    return u(ds)


def _main(ds, upa):
    from props_c08 import _main as m
    return m(ds, upa, 0)


def corpus():
    # repaired defect: a partial sum equal to the nodata value (5 + 2 = 7) was taken for an empty cell
    return [{"k": 1403, "args": [[0, -1, 0, 0, 0], [0, 4, 2, 3], [7, 1, 5, 2, 3], [7], [1], [2]], "group": "corpus-sum-equals-nodata"}]


def _cases_for(ds, rng, tag, api=False):
    n = len(ds)
    sq = nets.topo_order(ds, rng)
    nodata = rng.choice([-9999, -1, 0, 7, 255])      # also sentinels LARGER than the data
    lo = rng.choice([1, 1, -6])
    data = [nodata if rng.random() < 0.3 else rng.randint(lo, 6) for _ in range(n)]
    data = [v if (v != nodata or rng.random() < 0.5) else nodata for v in data]
    full = [rng.randint(1, 6) for _ in range(n)]
    yield {"k": 1401, "args": [ds, data], "group": f"{tag}-downstream"}
    yield {"k": 1402, "args": [ds, full, [nodata]], "group": f"{tag}-upstream_sum"}
    if rng.random() < 0.3:      # a field that holds the missing value (known finding F14)
        yield {"k": 1402, "args": [ds, data, [nodata]], "group": f"{tag}-upstream_sum-nodata"}
    yield {"k": 1403, "args": [ds, sq, data, [nodata], [0], [0]], "group": f"{tag}-fill-up"}
    yield {"k": 1403, "args": [ds, sq, data, [nodata], [1], [rng.randrange(3)]], "group": f"{tag}-fill-down"}
    upa = _uparea(ds)
    main = _main(ds, upa)
    # an order map that may DEcrease downstream (classic order does), not only Strahler
    so = _strahler(ds) if rng.random() < 0.5 else [rng.randint(1, 3) for _ in range(n)]
    has = rng.randrange(2)
    k = rng.randint(0, 3)
    fdata = [(-9999 if rng.random() < 0.25 else rng.randint(0, 9)) for _ in range(n)]
    w = [rng.randint(1, 3) for _ in range(n)] if rng.random() < 0.4 else []
    yield {"k": 1409, "args": [ds, main, [has], so if has else [], [k], [rng.randrange(n)]], "group": f"{tag}-window"}
    yield {"k": 1404, "args": [ds, main, [has], so if has else [], [k], fdata, w, [-9999]], "group": f"{tag}-moving_average"}
    yield {"k": 1405, "args": [ds, main, [has], so if has else [], [k], fdata, [], [-9999]], "group": f"{tag}-moving_median"}
    hm = rng.randrange(2)
    mask = [int(rng.random() < 0.3) for _ in range(n)] if hm else []
    yield {"k": 1406, "args": [ds, sq, [hm], mask], "group": f"{tag}-stream_distance"}
    elv = [rng.randint(0, 9) for _ in range(n)]
    drain = [int(rng.random() < 0.3) for _ in range(n)]
    yield {"k": 1407, "args": [ds, sq, drain, elv], "group": f"{tag}-hand"}
    b = rng.choice([1.0, 0.5, 0, 0.0])        # b = 0: the same height threshold 1 everywhere
    area = [rng.choice([1, 4, 9, 16]) for _ in range(n)] if b == 0.5 else [rng.randint(1, 6) for _ in range(n)]
    upa_min = rng.choice([3, 5, 9, 0])         # 0: every cell is a stream cell
    stream = [int(a >= upa_min) for a in area]
    hmax = [int(round(a ** b)) for a in area]
    yield {"k": 1408, "args": [ds, sq, stream, hmax, elv], "call": {"area": area, "upa_min": upa_min, "b": b}, "group": f"{tag}-floodplains"}
    if api:
        apim = rng.choice(["vec", "ras"])
        # vector objects with fractional node areas (quarters): the main stem follows the larger upstream area even when the
        # integer parts tie (round-6 seed: the running maximum kept in an integer array)
        wq = [rng.choice([4, 5, 6, 7, 9, 10, 11]) for _ in range(n)] if apim == "vec" and rng.random() < 0.6 else []
        yield {"k": 1410, "args": [ds, nets.topo_order(ds), [rng.randrange(2)], [rng.randrange(2)], [k], fdata, wq, [-9999]],
               "call": {"api": apim}, "group": f"{tag}-api-moving" + ("-areas" if wq else "")}


def cases(tier, rng):
    maxn = 4 if tier == "quick" else 5
    for ds in _smallnets(maxn, rng, 0.5 if tier == "quick" else 0.3):
        yield from _cases_for(ds, rng, f"exh-n{len(ds)}")
    for ds in nets.structured(rng):
        if nets.is_loopfree(ds):
            yield from _cases_for(ds, rng, "structured", api=True)
    for t in range(80 if tier == "quick" else 800):
        n = rng.randint(2, 40 if t % 3 else 8)
        ds = nets.random_forest(rng, n, p_nodata=rng.choice([0, 0.1]))
        yield from _cases_for(ds, rng, "rand", api=True)
    # stream distance in metres on rasters with a 3-4-5 cell
    for t in range(40 if tier == "quick" else 400):
        nr, nc = rng.randint(1, 5), rng.randint(2, 5)
        flw = nets.random_d8_raster(rng, nr, nc, p_nodata=rng.choice([0, 0.15]))
        ds = nets.d8_decode(flw, nr, nc)
        if not nets.pits(ds):
            continue
        hm = rng.randrange(2)
        mask = [int(rng.random() < 0.3) for _ in range(nr * nc)] if hm else []
        xres, yres = rng.choice([(3, -4), (4, 3), (-3, -4)])
        yield {"k": 1411, "args": [ds, nets.topo_order(ds), [hm], mask, [nc], [xres], [yres], [5]],
               "call": {"nr": nr, "nc": nc, "flw": flw, "pre": rng.choice([None, "masked_m", "distnc", "cell", "masked_cell"]),
                        "premask": [int(rng.random() < 0.4) for _ in range(nr * nc)]}, "group": "raster-stream_distance-m"}


def _oq(vals, nodata, isfloat=True):
    out = []
    for v in vals:
        v = float(v)
        if v == nodata or v != v:      # NaN (median of an all-nodata segment) = no value
            out += [0, 0, 1]
        else:
            f = Fraction(v)
            out += [1, f.numerator, f.denominator]
    return out


def impl(case):
    from common import call_impl
    from implutil import ds_array, make_raster, make_vector, idx_list
    from pyflwdir import core, arithmetics, streams, dem
    k, a = case["k"], case["args"]
    ds = a[0]
    n = len(ds)
    arr = ds_array(ds)

    def ints(st, v):
        if st != "ok":
            return [[-2], [st]]
        v = np.asarray(v).ravel()
        if np.any(v != np.round(v)):
            return [[-3], ["non-integer"]]
        return [[int(x) for x in v]]
    if k == 1401:
        flw = make_vector(ds) if len(nets.pits(ds)) else None
        return ints(*call_impl(flw.downstream, np.array(a[1], dtype=np.int64)))
    if k == 1402:
        return ints(*call_impl(arithmetics.upstream_sum, arr, np.array(a[1], dtype=np.int64), a[2][0]))
    if k == 1403:
        sq = np.array(a[1], dtype=np.int32)
        data = np.array(a[2], dtype=np.int64)
        if a[4][0] == 0:
            return ints(*call_impl(core.fillnodata_upstream, arr, sq, data, a[3][0]))
        return ints(*call_impl(core.fillnodata_downstream, arr, sq, data, a[3][0], HOW[a[5][0]]))
    if k in (1404, 1405, 1409):
        main = ds_array(a[1])
        so = np.array(a[3], dtype=np.uint8) if a[2][0] else None
        if k == 1409:
            st, v = call_impl(core._window, a[5][0], a[4][0], arr, main, so)
            return [[x for x in idx_list(v) if x >= 0]] if st == "ok" else [[-2], [st]]
        data = np.array(a[5], dtype=np.float64)
        if k == 1404:
            w = np.array(a[6], dtype=np.float64) if a[6] else None
            st, v = call_impl(arithmetics.moving_average, data, w, a[4][0], arr, main, so, float(a[7][0]))
        else:
            # integer fields too (defect fixed after e2e8ecf: nodata entries became INT_MIN inside the median); a half-integer
            # median is truncated when it is stored into an integer field
            if (sum(a[5]) + len(a[5])) % 3 == 0:
                data = data.astype([np.int32, np.int64][len(a[5]) % 2])
            st, v = call_impl(arithmetics.moving_median, data, a[4][0], arr, main, so, a[7][0] if data.dtype.kind == "i" else float(a[7][0]))
            if st == "ok" and data.dtype.kind == "i":
                return [_oq(v, a[7][0]), ["int"]]
        return [_oq(v, a[7][0])] if st == "ok" else [[-2], [st]]
    if k == 1410:
        api = case["call"]["api"]
        flw = make_vector(ds, area=np.array(a[6], dtype=np.float64) / 4.0) if (api == "vec" and a[6]) else (make_vector if api == "vec" else make_raster)(ds)
        data = np.array(a[5], dtype=np.float64)
        if api == "ras":
            data = data.reshape(1, n)
        before = data.copy()
        fn = flw.moving_average if a[3][0] == 0 else flw.moving_median
        st, v = call_impl(fn, data, a[4][0], restrict_strord=bool(a[2][0]), nodata=float(a[7][0]))
        if not np.array_equal(before, data):
            return [[-4], ["input mutated"]]
        return [_oq(np.asarray(v).ravel(), a[7][0])] if st == "ok" else [[-2], [st]]
    sq = np.array(a[1], dtype=np.int32)
    if k == 1406:
        mask = np.array(a[3], dtype=bool) if a[2][0] else None
        return ints(*call_impl(streams.stream_distance, arr, sq, n, mask, False))
    if k == 1407:
        return ints(*call_impl(dem.height_above_nearest_drain, arr, sq, np.array(a[2], dtype=np.int8), np.array(a[3], dtype=np.float64)))
    if k == 1408:
        c = case["call"]
        if (sum(c["area"]) + n) % 2:
            # through the raster method, which has to hand b and upa_min on as given, 0 included (round-5 seed)
            from implutil import make_raster
            flw = make_raster(ds)
            return ints(*call_impl(flw.floodplains, np.array(a[4], dtype=np.float64).reshape(flw.shape),
                                   uparea=np.array(c["area"], dtype=np.float64).reshape(flw.shape), upa_min=c["upa_min"], b=c["b"]))
        return ints(*call_impl(dem.floodplains, arr, sq, np.array(a[4], dtype=np.float64), np.array(c["area"], dtype=np.float64), float(c["upa_min"]), c["b"]))
    if k == 1411:
        import pyflwdir
        from affine import Affine
        c = case["call"]
        tr = Affine(float(a[5][0]), 0.0, 10.0, 0.0, float(a[6][0]), 20.0)
        flw = pyflwdir.from_array(np.array(c["flw"], dtype=np.uint8).reshape(c["nr"], c["nc"]), ftype="d8", transform=tr)
        mask = np.array(a[3], dtype=bool).reshape(c["nr"], c["nc"]) if a[2][0] else None
        # an earlier query on the same (memoising) object must not change the answer (round-2 seed)
        pre = c.get("pre")
        if pre:
            pm = np.array(c["premask"], dtype=bool).reshape(c["nr"], c["nc"])
            call_impl({"masked_m": lambda: flw.stream_distance(mask=pm, unit="m"), "distnc": lambda: flw.distnc,
                       "cell": lambda: flw.stream_distance(), "masked_cell": lambda: flw.stream_distance(mask=pm)}[pre])
        return ints(*call_impl(flw.stream_distance, mask=mask, unit="m"))
    raise ValueError(k)


def compare(case, i, m):
    k = case["k"]
    if k in (1404, 1405, 1410) and i and i[0] not in ([-2], [-3], [-4]) and m and len(m[0]) == len(i[0]):
        # the model's exact rational, correctly rounded, must equal the implementation's float
        iv, mv = i[0], m[0]
        trunc = len(i) > 1 and i[1] == ["int"]          # integer field: the stored median is truncated toward zero
        for j in range(0, len(mv), 3):
            if iv[j] != mv[j]:
                return False
            want = float(Fraction(mv[j + 1], mv[j + 2])) if mv[j] == 1 else 0.0
            if mv[j] == 1 and (float(int(want)) if trunc else want) != float(Fraction(iv[j + 1], iv[j + 2])):
                return False
        return True
    return i == m


# ---- independent oracles ----
def _walk_down(ds, i):
    out = [i]
    while ds[out[-1]] != out[-1] and ds[out[-1]] >= 0:
        out.append(ds[out[-1]])
    return out


def _window(ds, main, so, k, i):
    down = []
    cur = i
    for _ in range(k):
        d = ds[cur]
        if d == cur or d < 0 or (so is not None and so[d] > so[i]):
            break
        down.append(d); cur = d
    up = []
    cur = i
    for _ in range(k):
        u = main[cur]
        if u < 0:
            break
        up.append(u); cur = u
    return up[::-1] + [i] + down


def oracle(case, out):
    k, a = case["k"], case["args"]
    ds = a[0]
    n = len(ds)
    if out and out[0] in ([-2], [-3], [-4]):
        return ("ops:unexpected-outcome", f"{out}")
    if k == 1401:
        exp = [a[1][ds[i]] if ds[i] >= 0 else a[1][i] for i in range(n)]
        return None if out == [exp] else ("downstream", f"expected {exp} got {out}")
    if k == 1402:
        exp = [sum(a[1][c] for c in range(n) if ds[c] == j and c != j) for j in range(n)]
        nod = a[2][0]
        if nod in a[1]:
            # the field holds the missing value: what a cell with a missing value (or with a missing value among its direct
            # upstream cells) should get is not documented, but a cell that is valid and whose direct upstream cells all are
            # must get the plain sum, whatever is missing elsewhere
            for j in range(n):
                if ds[j] >= 0 and a[1][j] != nod and all(a[1][c] != nod for c in range(n) if ds[c] == j and c != j):
                    if len(out) != 1 or len(out[0]) != n or out[0][j] != exp[j]:
                        return ("upstream_sum:nodata-in-field", f"cell {j} and its direct upstream cells are valid, expected {exp[j]} "
                                f"got {out[0][j] if out and len(out[0]) == n else out}; ds={ds} data={a[1]} nodata={nod}")
            return None
        return None if out == [exp] else ("upstream_sum", f"expected {exp} got {out}")
    if k == 1403:
        data, nodata = a[2], a[3][0]
        if a[4][0] == 0:
            exp = list(data)
            for i in range(n):
                if ds[i] >= 0 and data[i] == nodata:
                    for j in _walk_down(ds, i):
                        if data[j] != nodata:
                            exp[i] = data[j]; break
            return None if out == [exp] else ("fill:up", f"expected {exp} got {out}")
        how = a[5][0]
        memo = {}

        def val(j):   # value a cell ends up with: own value, or merge of the valid values of its direct upstream cells
            if j in memo:
                return memo[j]
            if ds[j] < 0 or data[j] != nodata:
                r = data[j]
            else:
                vs = [val(c) for c in range(n) if ds[c] == j and c != j]
                vs = [v for v in vs if v != nodata]
                r = nodata if not vs else (min(vs) if how == 0 else max(vs) if how == 1 else sum(vs))
            memo[j] = r
            return r
        exp = [val(j) for j in range(n)]
        if how == 2 and any(v == nodata for v in exp if v is not None) and exp != out[0]:
            return None   # sums that collide with the sentinel are outside the stated domain
        return None if out == [exp] else (f"fill:down-{HOW[how]}", f"expected {exp} got {out}")
    if k in (1404, 1405, 1409, 1410):
        if k == 1410:
            upa = _uparea(ds)
            if a[6]:      # node areas given (quarters): accumulate them
                def _reach(x, j):
                    while True:
                        if x == j:
                            return True
                        if ds[x] == x or ds[x] < 0:
                            return False
                        x = ds[x]
                upa = [(sum(a[6][x] for x in range(n) if ds[x] >= 0 and _reach(x, j)) if ds[j] >= 0 else -9999) for j in range(n)]
            main = _main(ds, upa)
            so = _strahler(ds) if a[2][0] else None
            median = a[3][0] == 1
            w = []
        else:
            main = a[1]
            so = a[3] if a[2][0] else None
            median = k == 1405
            w = a[6] if k == 1404 else []
        kk = a[4][0]
        if k == 1409:
            exp = _window(ds, main, so, kk, a[5][0])
            return None if out == [exp] else ("window", f"expected {exp} got {out}")
        data, nodata = a[5], a[7][0]
        exp = []
        for i in range(n):
            if data[i] == nodata:
                exp += [0, 0, 1]; continue
            win = [j for j in _window(ds, main, so, kk, i) if data[j] != nodata]
            if median:
                q = Fraction(statistics.median([Fraction(data[j]) for j in win]))
            else:
                ws = [(w[j] if w else 1) for j in win]
                q = Fraction(sum(wi * data[j] for wi, j in zip(ws, win)), sum(ws))
            f = Fraction(float(q))
            if len(out) > 1 and out[1] == ["int"]:
                f = Fraction(int(float(q)))          # integer field: the stored median is truncated toward zero
            exp += [1, f.numerator, f.denominator]
        return None if out[:1] == [exp] else (f"moving:{'median' if median else 'average'}", f"expected {exp} got {out}")
    if k in (1406, 1411):
        mask = a[3] if a[2][0] else [0] * n
        exp = []
        for i in range(n):
            if ds[i] < 0:
                exp.append(-9999); continue
            d, j = 0, i
            while ds[j] != j and not mask[j]:
                if k == 1406:
                    d += 1
                else:
                    nc = a[4][0]
                    dr, dc = abs(ds[j] // nc - j // nc), abs(ds[j] % nc - j % nc)
                    d += abs(a[5][0]) if dr == 0 else abs(a[6][0]) if dc == 0 else 5
                j = ds[j]
            exp.append(d)
        return None if out == [exp] else ("stream_distance", f"expected {exp} got {out}")
    if k == 1407:
        drain, elv = a[2], a[3]
        exp = []
        for i in range(n):
            if ds[i] < 0:
                exp.append(-9999); continue
            j = i
            while not drain[j] and ds[j] != j:
                j = ds[j]
            exp.append(elv[i] - elv[j])
        return None if out == [exp] else ("hand", f"expected {exp} got {out}")
    if k == 1408:
        stream, hmax, elv = a[2], a[3], a[4]
        memo = {}

        def fp(i):   # (flag, first stream cell)
            if i in memo:
                return memo[i]
            if stream[i]:
                r = (1, i)
            elif ds[i] == i:
                r = (0, None)
            else:
                f, s = fp(ds[i])
                r = (1, s) if (f == 1 and elv[i] - elv[s] <= hmax[s]) else (0, None)
            memo[i] = r
            return r
        exp = [(-1 if ds[i] < 0 else fp(i)[0]) for i in range(n)]
        return None if out == [exp] else ("floodplains", f"expected {exp} got {out}")
    return None


def nontrivial(case, out):
    ds = case["args"][0]
    return any(d >= 0 and d != i for i, d in enumerate(ds))
