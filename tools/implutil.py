"""helpers to hand networks to the implementation"""
import numpy as np


def ds_array(ds, dtype=np.int32):
    dt = np.dtype(dtype)
    mv = -1 if dt.kind == "i" else np.iinfo(dt).max
    return np.array([mv if d < 0 else d for d in ds], dtype=dt)


def make_raster(ds, shape=None, dtype=np.int32, **kw):
    import pyflwdir
    a = ds_array(ds, dtype)
    if shape is None:
        shape = shape2d(len(ds), sum(int(d) * (i + 1) for i, d in enumerate(ds)))
    return pyflwdir.FlwdirRaster(idxs_ds=a, shape=shape, ftype="d8", **kw)


def shape2d(n, key):
    """a raster shape for a network given as a flat list: (1, n) or, half of the time when n is composite, (r, n // r);
    callers that pass (1, n)-shaped fields get them reshaped by apifuzz; nothing geometric may be asked of such objects"""
    import os
    divs = [r for r in range(2, n) if n % r == 0]
    if not divs or key % 2 == 0 or os.environ.get("VERIF_NOFUZZ"):
        return (1, n)
    r = divs[(key // 2) % len(divs)]
    return (r, n // r)


def make_vector(ds, dtype=np.int32, **kw):
    from pyflwdir.flwdir import Flwdir
    return Flwdir(idxs_ds=ds_array(ds, dtype), **kw)


def idx_list(a):
    """index array -> python ints with the sentinel (negative or >= 2^31) mapped to -1"""
    out = []
    for x in np.asarray(a).ravel().tolist():
        x = int(x)
        out.append(-1 if (x < 0 or x >= 2**31 - 1) else x)
    return out


def layout(a, mode):
    """the same values in another memory layout: 'F' Fortran-ordered copy, 'T' transposed view of a transposed copy,
    'S' every-other-element view of a widened copy (non-contiguous); anything else: unchanged"""
    if a is None or mode in (None, "C"):
        return a
    a = np.asarray(a)
    if mode == "F":
        return np.asfortranarray(a)
    if mode == "T":
        return a.T.copy().T
    if mode == "S":
        big = np.repeat(a, 2, axis=-1)
        return big[..., ::2]
    return a
