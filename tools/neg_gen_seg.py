#!/usr/bin/env python3
"""negative tests of tools/gen_seg.py: one small semantic change of a translated function in a scratch copy of the source;
expected: GenError, or the generated file / the equality proof no longer compiles.  usage: run_neg.py <coq scratch dir> [ids...]"""
import os, re, shutil, subprocess, sys
ROOT = "/tmp/genseg"
SRC = "/tmp/wt_ihu/pyflwdir"
NEG = os.path.join(ROOT, "scratch", "neg")
os.makedirs(NEG, exist_ok=True)
# id: (file, function or None (whole file), old, new, Eq file)
TESTS = {
    "s1": ("streams.py", "streams", "if nup[idx_ds] > 1 or pit:", "if nup[idx_ds] > 2 or pit:", "GenSegStreamsEq"),
    "s2": ("streams.py", "streams", "if (l / max_len) > 1.5:", "if (l / max_len) > 2.5:", "GenSegStreamsEq"),
    "s3": ("streams.py", "streams", "_idxs = idxs[i * n : n * (i + 1) + 1]", "_idxs = idxs[i * n : n * (i + 1)]", "GenSegStreamsEq"),
    "s4": ("streams.py", "streams", "for idx0 in seq[::-1]:  # up- to downstream", "for idx0 in seq:", "GenSegStreamsEq"),
    "s5": ("streams.py", "streams", "k = round(l / max_len)", "k = int(l / max_len)", "GenSegStreamsEq"),
    "i1": ("subgrid.py", "segment_indices", "if l > 1:", "if l > 0:", "GenSegIndicesEq"),
    "i2": ("subgrid.py", "segment_indices", "_idxs = idxs[j * n : n * (j + 1) + 1]", "_idxs = idxs[j * n : n * (j + 1)]", "GenSegIndicesEq"),
    "i4": ("subgrid.py", "segment_indices", "if (l / max_len) > 1.5:", "if (l / max_len) > 2.5:", "GenSegIndicesEq"),
    "i3": ("subgrid.py", "segment_indices", "pit = idx1 == idx", "pit = idx1 != idx", "GenSegIndicesEq"),
    "l1": ("subgrid.py", "segment_length", "rivlen[i] = abs(distnc[idx] - x0)", "rivlen[i] = distnc[idx] - x0", "GenSegWalkEq"),
    "l2": ("subgrid.py", "segment_length", "if outlets[idx1]:", "if not outlets[idx1]:", "GenSegWalkEq"),
    "l3": ("subgrid.py", "segment_length", "mask[idx1] == False):", "mask[idx1] == True):", "GenSegWalkEq"),
    "a1": ("subgrid.py", "segment_average", "_average(data[idxs_np], weights[idxs_np], nodata)", "_average(weights[idxs_np], data[idxs_np], nodata)", "GenSegWalkEq"),
    "a2": ("arithmetics.py", "_average", "v += w0 * v0", "v += v0", "GenSegWalkEq"),
    "a3": ("subgrid.py", "segment_average", "data_out = np.full(idxs_out.size, nodata, dtype=data.dtype)", "data_out = np.full(idxs_out.size, 0, dtype=data.dtype)", "GenSegWalkEq"),
    "a4": ("subgrid.py", "segment_average", "idx1 == mv\n                or idx1 == idx", "idx1 == mv", "GenSegWalkEq"),
    "m1": ("subgrid.py", "segment_median", "np.where(data_seg == nodata, np.nan, data_seg)", "np.where(data_seg != nodata, np.nan, data_seg)", "GenSegWalkEq"),
    "m2": ("subgrid.py", "segment_median", "idxs.append(idx1)", "idxs.append(idx)", "GenSegWalkEq"),
    "m3": ("subgrid.py", "segment_median", "or outlets[idx1]", "or False", "GenSegWalkEq"),
    "u1": ("subgrid.py", "ucat_volume", "dh = np.maximum(0, depths - hand[idx0])", "dh = np.maximum(1, depths - hand[idx0])", "GenSegUcatEq"),
    "u2": ("subgrid.py", "ucat_volume", "fldpln_vol[:, ucat_ds - 1] += area[idx0] * dh", "fldpln_vol[:, ucat_ds] += area[idx0] * dh", "GenSegUcatEq"),
    "u3": ("subgrid.py", "ucat_volume", "ucatch_map[idx0] = i + 1", "ucatch_map[idx0] = i + 2", "GenSegUcatEq"),
    "t1": ("basins.py", "_tributaries", "strord[idx0] > strord[idx_ds]", "strord[idx0] >= strord[idx_ds]", "GenSegTribEq"),
    "t2": ("basins.py", "_tributaries", "for idx0 in seq:", "for idx0 in seq[::-1]:", "GenSegTribEq"),
    "p1": ("basins.py", "subbasins_pfafstetter", "idxs_trib0 = idxs0s[:4]", "idxs_trib0 = idxs0s[:3]", "GenSegPfafEq"),
    "p2": ("basins.py", "subbasins_pfafstetter", "pfaf_sub = pfaf0 + (i * 2 + 1) * 10 ** (depth - d0)", "pfaf_sub = pfaf0 + (i * 2 + 2) * 10 ** (depth - d0)", "GenSegPfafEq"),
    "p3": ("basins.py", "subbasins_pfafstetter", "np.argsort(-uparea[idxs0])", "np.argsort(uparea[idxs0])", "GenSegPfafEq"),
    "p4": ("basins.py", "subbasins_pfafstetter", "labs.pop(0)", "labs.pop(-1)", "GenSegPfafEq"),
    "p5": ("basins.py", "subbasins_pfafstetter", "if idx1 not in idxs:", "if idx1 in idxs:", "GenSegPfafEq"),
    "x1": ("streams.py", "streams", "done[idx0] = True", "done[idx0] = 1", "GenSegStreamsEq"),
    "x2": ("subgrid.py", "segment_length", "x0 = distnc[idx0]", "x0 = float(distnc[idx0])", "GenSegWalkEq"),
    "x3": ("basins.py", "subbasins_pfafstetter", "for i, idx in enumerate(idxs_trib0s):", "for i, idx in enumerate(idxs_trib0s[::-1]):", "GenSegPfafEq"),
    "x4": ("subgrid.py", "ucat_volume", "for idx0 in seq:  # down- to upstream", "for idx0 in sorted(seq):", "GenSegUcatEq"),
    "p6": ("basins.py", "subbasins_pfafstetter", "if idx1 == mv or pfaf_branch[idx1] != pfaf_int_ds:", "if idx1 == mv or pfaf_branch[idx1] != pfaf0:", "GenSegPfafEq"),
}


def mutate(path, func, old, new):
    s = open(path).read()
    a = s.index(f"def {func}(")
    m = re.search(r"\n(@njit|def )", s[a + 1:])
    b = a + 1 + m.start() if m else len(s)
    seg = s[a:b]
    assert seg.count(old) >= 1, (func, old)
    seg = seg.replace(old, new, 1)
    open(path, "w").write(s[:a] + seg + s[b:])


def coqc(coq, f):
    r = subprocess.run(["timeout", "900", "coqc", "-Q", "theories", "PF", "-Q", "generated", "PFG", "-Q", "props", "PFP", f], cwd=coq,
                       capture_output=True, text=True)
    return r.returncode, (r.stdout + r.stderr)


def main():
    coq = sys.argv[1]
    ids = sys.argv[2:] or list(TESTS)
    good = open(os.path.join(ROOT, "coq", "generated", "GenSeg.v")).read()
    for tid in ids:
        fn, func, old, new, eq = TESTS[tid]
        tree = os.path.join(NEG, "src_" + tid)
        shutil.rmtree(tree, ignore_errors=True)
        shutil.copytree(SRC, os.path.join(tree, "pyflwdir"), ignore=shutil.ignore_patterns("__pycache__"))
        mutate(os.path.join(tree, "pyflwdir", fn), func, old, new)
        r = subprocess.run([sys.executable, "-c", "import sys; sys.path.insert(0, 'tools'); import gen_seg; sys.stdout.write(gen_seg.gen_seg())"],
                           cwd=ROOT, env=dict(os.environ, PYFLWDIR_REPO=tree), capture_output=True, text=True)
        shutil.rmtree(tree, ignore_errors=True)
        head = f"{tid} [{fn}:{func}] `{old.strip()[:50]}` -> `{new.strip()[:50]}`"
        if r.returncode != 0:
            msg = [l for l in r.stderr.strip().splitlines() if "GenError" in l]
            print(f"{head}\n    => GenError: {msg[-1].split('GenError:')[-1].strip()[:200] if msg else r.stderr[-300:]}", flush=True)
            continue
        if r.stdout == good:
            print(f"{head}\n    => SURVIVED: generated text unchanged", flush=True)
            continue
        open(os.path.join(coq, "generated", "GenSeg.v"), "w").write(r.stdout)
        rc, out = coqc(coq, "generated/GenSeg.v")
        if rc != 0:
            print(f"{head}\n    => generated/GenSeg.v does not compile: {out.strip().splitlines()[-1][:160]}", flush=True)
        else:
            for dep in {"GenSegPfafEq": ["GenSegTribEq"]}.get(eq, []):      # the files that eq imports and that import GenSeg
                rc0, out0 = coqc(coq, f"theories/{dep}.v")
                assert rc0 == 0, out0
            rc, out = coqc(coq, f"theories/{eq}.v")
            if rc != 0:
                loc = [l for l in out.splitlines() if l.startswith("File")]
                print(f"{head}\n    => generated text changed; theories/{eq}.v no longer compiles ({loc[0].split(',', 1)[1].strip() if loc else ''} {out.strip().splitlines()[-1][:100]})", flush=True)
            else:
                print(f"{head}\n    => SURVIVED: generated text changed but {eq}.v still compiles", flush=True)
        open(os.path.join(coq, "generated", "GenSeg.v"), "w").write(good)
        coqc(coq, "generated/GenSeg.v")
        if eq == "GenSegPfafEq":
            coqc(coq, "theories/GenSegTribEq.v")


main()
