"""Translator, part 2: straight-line numeric functions of gis_utils -> Gallina over Z and R
(GenFormulas.v).  Registered into gen.GENERATORS on import.  Fail-closed like gen.py."""
import ast
from fractions import Fraction

import gen
from gen import GenError, fail, parse, find_def, find_assign, is_np_call

RHEADER = ("(* GENERATED from /repo/pyflwdir by tools/gen_more.py -- do not edit *)\n"
           "From Coq Require Import ZArith Reals List Bool.\nImport ListNotations.\nLocal Open Scope R_scope.\n\n")


def rlit(v):
    fr = Fraction(str(v)) if isinstance(v, float) else Fraction(v)
    if fr.denominator == 1:
        return f"(IZR ({fr.numerator})%Z)"
    return f"(IZR ({fr.numerator})%Z / IZR ({fr.denominator})%Z)"


class FTrans:
    """typed translation of a straight-line function body.
    env: python name -> (coq name, 'Z' | 'R' | 'B'); funcs: callable package functions (name -> coq name)"""

    def __init__(self, fn, env, funcs, consts):
        self.fn, self.env, self.funcs, self.consts = fn, dict(env), funcs, consts
        self.py = {}        # coq text -> python text of the same expression (translator self-check)

    def P(self, coq, py):
        self.py[coq] = py
        return coq

    def p(self, coq):
        return self.py.get(coq, coq)

    def coerce(self, e, t, want):
        if t == want:
            return e
        if t == "Z" and want == "R":
            return self.P(f"(IZR {e})", f"float({self.p(e)})")
        raise GenError(f"{self.fn}: cannot use {t} expression {e} as {want}")

    def expr(self, n):
        """returns (coq, type)"""
        if isinstance(n, ast.Constant):
            if isinstance(n.value, bool):
                return ("true" if n.value else "false", "B")
            if isinstance(n.value, int):
                return (self.P(f"({n.value})%Z", f"({n.value})"), "Z")
            if isinstance(n.value, float):
                return (self.P(rlit(n.value), repr(n.value)), "R")
        if isinstance(n, ast.Name):
            if n.id in self.env:
                return self.env[n.id]
            if n.id in self.consts:
                return (self.P(self.consts[n.id], "CONSTS[%r]" % n.id), "R")
            fail(n, self.fn, f"unknown name {n.id}")
        if isinstance(n, ast.Subscript) and isinstance(n.value, ast.Name) and n.value.id == "transform":
            k = gen.const_int(n.slice, self.fn)
            return (self.P(f"t{k}", f"t{k}"), "R")
        if isinstance(n, ast.UnaryOp) and isinstance(n.op, ast.USub):
            e, t = self.expr(n.operand)
            return (self.P(f"(- {e})" if t == "R" else f"(- {e})%Z", f"(-{self.p(e)})"), t)
        if isinstance(n, ast.BinOp):
            l, lt = self.expr(n.left)
            r, rt = self.expr(n.right)
            if isinstance(n.op, ast.Pow):
                if isinstance(n.right, ast.Constant) and n.right.value == 2:
                    l = self.coerce(l, lt, "R")
                    return (self.P(f"({l} * {l})", f"({self.p(l)} * {self.p(l)})"), "R")
                fail(n, self.fn, "only **2 is supported")
            if isinstance(n.op, ast.Div):
                lc, rc = self.coerce(l, lt, 'R'), self.coerce(r, rt, 'R')
                return (self.P(f"({lc} / {rc})", f"({self.p(lc)} / {self.p(rc)})"), "R")
            if isinstance(n.op, (ast.FloorDiv, ast.Mod)):
                if lt != "Z" or rt != "Z":
                    fail(n, self.fn, "// and % only on integers")
                op = "/" if isinstance(n.op, ast.FloorDiv) else "mod"
                pop = "//" if isinstance(n.op, ast.FloorDiv) else "%"
                return (self.P(f"({l} {op} {r})%Z", f"({self.p(l)} {pop} {self.p(r)})"), "Z")
            ops = {ast.Add: "+", ast.Sub: "-", ast.Mult: "*"}
            for k, v in ops.items():
                if isinstance(n.op, k):
                    if lt == "Z" and rt == "Z":
                        return (self.P(f"({l} {v} {r})%Z", f"({self.p(l)} {v} {self.p(r)})"), "Z")
                    lc, rc = self.coerce(l, lt, 'R'), self.coerce(r, rt, 'R')
                    return (self.P(f"({lc} {v} {rc})", f"({self.p(lc)} {v} {self.p(rc)})"), "R")
            fail(n, self.fn, "unsupported operator")
        if isinstance(n, ast.IfExp):
            c = self.cond(n.test)
            a, at = self.expr(n.body)
            b, bt = self.expr(n.orelse)
            t = "R" if "R" in (at, bt) else at
            ac, bc = self.coerce(a, at, t), self.coerce(b, bt, t)
            return (self.P(f"(if {c} then {ac} else {bc})", f"({self.p(ac)} if {self.p(c)} else {self.p(bc)})"), t)
        if isinstance(n, ast.Call):
            f = n.func
            name = None
            if isinstance(f, ast.Name):
                name = f.id
            elif isinstance(f, ast.Attribute) and isinstance(f.value, ast.Name) and f.value.id in ("np", "math"):
                name = f.value.id + "." + f.attr
            args = [self.expr(a) for a in n.args]
            if name == "int" and len(args) == 1 and args[0][1] == "Z":
                return args[0]
            if name in ("abs", "np.abs") and len(args) == 1:
                e, t = args[0]
                return (self.P(f"(Z.abs {e})", f"abs({self.p(e)})"), "Z") if t == "Z" else (self.P(f"(Rabs {e})", f"abs({self.p(e)})"), "R")
            if name in ("math.hypot", "np.hypot") and len(args) == 2:
                a = self.coerce(*args[0], "R")
                b = self.coerce(*args[1], "R")
                return (self.P(f"(sqrt ({a} * {a} + {b} * {b}))", f"math.sqrt({self.p(a)} * {self.p(a)} + {self.p(b)} * {self.p(b)})"), "R")
            if name == "np.radians" and len(args) == 1:
                a = self.coerce(*args[0], 'R')
                return (self.P(f"({a} * PI / IZR 180%Z)", f"({self.p(a)} * math.pi / 180.0)"), "R")
            if name in ("np.sin", "np.cos", "math.sin", "math.cos") and len(args) == 1:
                a = self.coerce(*args[0], 'R')
                return (self.P(f"({name.split('.')[1]} {a})", f"math.{name.split('.')[1]}({self.p(a)})"), "R")
            if name in self.funcs:
                cn, sig = self.funcs[name]
                if len(sig) != len(args):
                    fail(n, self.fn, f"arity of {name}")
                cs = [self.coerce(e, t, w) for (e, t), w in zip(args, sig)]
                return (self.P("(" + cn + " " + " ".join(cs) + ")", cn + "(" + ", ".join(self.p(c) for c in cs) + ")"), "R")
            fail(n, self.fn, f"unsupported call {name}")
        fail(n, self.fn, f"unsupported expression {ast.dump(n)[:80]}")

    def cond(self, n):
        if isinstance(n, ast.Name) and n.id in self.env and self.env[n.id][1] == "B":
            return self.P(self.env[n.id][0], self.env[n.id][0])
        if isinstance(n, ast.Compare) and len(n.ops) == 1:
            l, lt = self.expr(n.left)
            r, rt = self.expr(n.comparators[0])
            if lt == "Z" and rt == "Z":
                ops = {ast.Eq: "=?", ast.Lt: "<?", ast.LtE: "<=?"}
                pops = {ast.Eq: "==", ast.Lt: "<", ast.LtE: "<="}
                for k, v in ops.items():
                    if isinstance(n.ops[0], k):
                        return self.P(f"({l} {v} {r})%Z", f"({self.p(l)} {pops[k]} {self.p(r)})")
        fail(n, self.fn, "unsupported condition")

    def assigned(self, stmts):
        out = []
        for s in stmts:
            if isinstance(s, ast.Assign):
                t = s.targets[0]
                names = [t.id] if isinstance(t, ast.Name) else [e.id for e in t.elts]
                out += [x for x in names if x not in out]
        return out

    def block(self, stmts, result):
        """translate statements; `result` = list of python names to return as a tuple when the
        block ends without `return`"""
        if not stmts:
            vals = [self.env[v][0] for v in result]
            return vals[0] if len(vals) == 1 else "(" + ", ".join(vals) + ")"
        s, rest = stmts[0], stmts[1:]
        if isinstance(s, ast.Expr) and isinstance(s.value, ast.Constant) and isinstance(s.value.value, str):
            return self.block(rest, result)
        if isinstance(s, ast.Return):
            e, t = self.expr(s.value)
            return self.coerce(e, t, "R")
        if isinstance(s, ast.Assign) and len(s.targets) == 1:
            t = s.targets[0]
            if isinstance(t, ast.Name):
                e, ty = self.expr(s.value)
                self.env[t.id] = (t.id + "_", ty)
                return f"let {t.id}_ := {e} in\n  {self.block(rest, result)}"
            if isinstance(t, ast.Tuple) and isinstance(s.value, ast.Tuple) and len(t.elts) == len(s.value.elts):
                vals = [self.expr(v) for v in s.value.elts]
                out = ""
                for nm, (e, ty) in zip(t.elts, vals):
                    out += f"let {nm.id}_ := {e} in\n  "
                for nm, (e, ty) in zip(t.elts, vals):
                    self.env[nm.id] = (nm.id + "_", ty)
                return out + self.block(rest, result)
            fail(s, self.fn, "unsupported assignment")
        if isinstance(s, ast.If):
            c = self.cond(s.test)
            both = [v for v in self.assigned(s.body) if v in self.assigned(s.orelse)]
            if not both:
                fail(s, self.fn, "if/else must assign common variables")
            saved = dict(self.env)
            a = self.block(list(s.body), both)
            types_a = [self.env[v][1] for v in both]
            self.env = dict(saved)
            b = self.block(list(s.orelse), both)
            types_b = [self.env[v][1] for v in both]
            if types_a != types_b:
                fail(s, self.fn, f"branches give different types to {both}")
            self.env = dict(saved)
            for v, ty in zip(both, types_a):
                self.env[v] = (v + "_", ty)
            pat = both[0] + "_" if len(both) == 1 else "'(" + ", ".join(v + "_" for v in both) + ")"
            return f"let {pat} := (if {c} then ({a}) else ({b})) in\n  {self.block(rest, result)}"
        fail(s, self.fn, f"unsupported statement {type(s).__name__}")


def pyblock(tr, stmts, ind):
    """python rendering of the same translation (for the translator self-check)"""
    lines = []
    for s in stmts:
        if isinstance(s, ast.Expr) and isinstance(s.value, ast.Constant) and isinstance(s.value.value, str):
            continue
        if isinstance(s, ast.Return):
            e, t = tr.expr(s.value)
            lines.append(f"{ind}return {tr.p(tr.coerce(e, t, 'R'))}")
        elif isinstance(s, ast.Assign):
            t = s.targets[0]
            if isinstance(t, ast.Name):
                e, ty = tr.expr(s.value)
                lines.append(f"{ind}{t.id}_ = {tr.p(e)}")
                tr.env[t.id] = (t.id + "_", ty)
            else:
                vals = [tr.expr(v) for v in s.value.elts]
                lines.append(f"{ind}{', '.join(nm.id + '_' for nm in t.elts)} = {', '.join(tr.p(e) for e, _ in vals)}")
                for nm, (e, ty) in zip(t.elts, vals):
                    tr.env[nm.id] = (nm.id + "_", ty)
        elif isinstance(s, ast.If):
            c = tr.cond(s.test)
            saved = dict(tr.env)
            lines.append(f"{ind}if {tr.p(c)}:")
            lines += pyblock(tr, list(s.body), ind + "    ")
            env_a = dict(tr.env)
            tr.env = dict(saved)
            lines.append(f"{ind}else:")
            lines += pyblock(tr, list(s.orelse), ind + "    ")
            both = [v for v in tr.assigned(s.body) if v in tr.assigned(s.orelse)]
            tr.env = dict(saved)
            for v in both:
                tr.env[v] = env_a[v]
        else:
            raise GenError("pyblock: unsupported statement")
    return lines


PYOUT = []


def gen_formulas():
    del PYOUT[:]
    PYOUT.append("# GENERATED by tools/gen_more.py: python rendering of GenFormulas.v (translator self-check)\nimport math\nCONSTS = {}\n")
    fn = "gis_utils.py"
    tree = parse(fn)
    out = [RHEADER]
    # constants
    rn = find_assign(tree, "_R", fn)
    if not (isinstance(rn, ast.Constant) and isinstance(rn.value, float)):
        raise GenError(f"{fn}: _R is not a float literal")
    out.append(f"Definition earth_R : R := {rlit(rn.value)}.\n")
    af = find_assign(tree, "AREA_FACTORS", fn)
    if not isinstance(af, ast.Dict):
        raise GenError(f"{fn}: AREA_FACTORS is not a dict literal")
    for k, v in zip(af.keys, af.values):
        if not (isinstance(k, ast.Constant) and isinstance(v, ast.Constant)):
            raise GenError(f"{fn}: AREA_FACTORS entries must be literals")
        out.append(f"Definition area_factor_{k.value} : R := {rlit(v.value)}.\n")
    ident = find_assign(tree, "IDENTITY", fn)
    try:
        vals = [a.value if isinstance(a, ast.Constant) else -a.operand.value for a in ident.args]
        assert ident.func.id == "Affine" and len(vals) == 6
    except Exception:
        raise GenError(f"{fn}: IDENTITY is not Affine(6 literals)")
    out.append("Definition identity_transform : list R := [" + "; ".join(rlit(float(v)) for v in vals) + "].\n\n")
    consts = {"_R": "earth_R"}
    PYOUT.append(f"CONSTS['_R'] = {rn.value!r}\n\n")
    funcs = {}
    TR = [(f"t{k}", "R") for k in range(6)]

    def emit(name, params, body_env, result_type="R"):
        f = find_def(tree, name, fn)
        got = [a.arg for a in f.args.args]
        want = [p for p, _ in params]
        if got != want:
            raise GenError(f"{fn}:{f.lineno}: signature of {name} changed: {got} (expected {want})")
        env = {}
        sig = []
        binder = []
        for p, t in params:
            if t == "T":
                binder.append("(t0 t1 t2 t3 t4 t5 : R)")
                sig += ["R"] * 6
            else:
                env[p] = (p, t)
                sig.append(t)
                binder.append(f"({p} : {'Z' if t == 'Z' else 'R' if t == 'R' else 'bool'})")
        tr = FTrans(fn, env, funcs, consts)
        body = tr.block(list(f.body), [])
        out.append(f"Definition gen_{name} {' '.join(binder)} : R :=\n  {body}.\n\n")
        funcs[name] = ("gen_" + name, sig)
        tr2 = FTrans(fn, env, funcs, consts)
        tr2.py = tr.py
        pyparams = []
        for p_, t_ in params:
            pyparams += ["t0", "t1", "t2", "t3", "t4", "t5"] if t_ == "T" else [p_]
        PYOUT.append(f"def gen_{name}({', '.join(pyparams)}):\n" + "\n".join(pyblock(tr2, list(f.body), '    ')) + "\n\n")

    emit("degree_metres_y", [("lat", "R")], {})
    emit("degree_metres_x", [("lat", "R")], {})
    emit("cellarea", [("lat", "R"), ("xres", "R"), ("yres", "R")], {})
    emit("distance", [("idx0", "Z"), ("idx1", "Z"), ("ncol", "Z"), ("latlon", "B"), ("transform", "T")], {})
    # area_grid, projected branch:  area0 = abs(transform[0] * transform[4]) / AREA_FACTORS[unit]
    ag = find_def(tree, "area_grid", fn)
    found = None
    for node in ast.walk(ag):
        if isinstance(node, ast.Assign) and isinstance(node.targets[0], ast.Name) and node.targets[0].id == "area0" \
                and isinstance(node.value, ast.BinOp) and isinstance(node.value.op, ast.Div) \
                and isinstance(node.value.left, ast.Call) and getattr(node.value.left.func, "id", "") == "abs":
            found = node
    if found is None:
        raise GenError(f"{fn}: projected cell-area expression not found in area_grid")
    tr = FTrans(fn, {"factor": ("factor", "R")}, funcs, consts)
    num, _ = tr.expr(found.value.left)
    den = found.value.right
    if not (isinstance(den, ast.Subscript) and getattr(den.value, "id", "") == "AREA_FACTORS"):
        raise GenError(f"{fn}: projected cell area is not divided by AREA_FACTORS[unit]")
    out.append(f"Definition gen_area_projected (t0 t1 t2 t3 t4 t5 factor : R) : R := {num} / factor.\n")
    PYOUT.append(f"def gen_area_projected(t0, t1, t2, t3, t4, t5, factor):\n    return {tr.p(num)} / factor\n")
    gen.write_if_changed(gen.os.path.join(gen.OUT, "gen_formulas_py.py"), "".join(PYOUT))
    return "".join(out)


gen.GENERATORS["GenFormulas.v"] = gen_formulas
