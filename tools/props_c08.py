"""C08 — Strahler and classic stream order."""
import itertools
import numpy as np
import nets

PID = "C08"
THEOREMS = ["push_fold", "strahler_spec", "kids_mem", "classic_spec", "main_upstream_spec", "strahler_fits", "gen_main_upstream_eq", "gen_strahler_order_eq", "gen_upstream_count_eq", "gen_stream_order_eq"]
RULE = ("all loop-free closed graphs on n<=5 cells (n<=6 thorough, junction degree up to 5) x downstream-closed masks, "
        "stars with 3..8 tributaries of prescribed orders (every multiset over {1,2,3} up to size 5, random up to 8), "
        "random forests to 60 cells, upstream-area fields with ties for main_upstream; kernels and "
        "Flwdir/FlwdirRaster.stream_order; non-trivial = network has a confluence")
ASSUMPTIONS = ["orders are modelled over Z: for the Strahler order the uint8 storage cannot wrap (strahler_fits: order k needs 2^(k-1) cells); the classic order does wrap beyond 255 on deeply nested networks (known finding F13, 521 nodes)",
               "Strahler theorem assumes a downstream-closed mask (the property's domain)"]


def closed_masks(ds, rng, k):
    n = len(ds)
    valid = [i for i in range(n) if ds[i] >= 0]
    out = [None]
    for _ in range(k):
        m = [0] * n
        for s in rng.sample(valid, rng.randint(0, len(valid))):
            j = s
            while True:
                m[j] = 1
                if ds[j] == j:
                    break
                j = ds[j]
        out.append(m)
    return out


def tributary_star(orders):
    """network with a pit 0 into which streams of the given Strahler orders flow"""
    ds = [0]

    def build(order, into):
        idx = len(ds)
        ds.append(into)
        if order > 1:
            build(order - 1, idx)
            build(order - 1, idx)
    for o in orders:
        build(o, 0)
    return ds


def cases(tier, rng):
    maxn = 5 if tier == "quick" else 6
    for n in range(2, maxn + 1):
        for ds in nets.all_graphs(n, nodata=(n <= 4)):
            if not (nets.is_wf(ds) and nets.is_loopfree(ds) and nets.pits(ds)):
                continue
            if n >= 5 and rng.random() > (0.25 if tier == "quick" else 0.5):
                continue
            for m in closed_masks(ds, rng, 1 if n > 3 else 2):
                sq = nets.topo_order(ds, rng)
                yield {"k": 801, "args": [ds, sq, [int(m is not None)], m or []], "group": f"exh-n{n}-strahler"}
                if rng.random() < 0.5:
                    upa = [rng.randint(1, 3) for _ in range(n)]
                    main = _main(ds, upa, 0)
                    yield {"k": 802, "args": [ds, sq, [int(m is not None)], m or [], main], "group": f"exh-n{n}-classic"}
            if rng.random() < 0.3:
                yield {"k": 803, "args": [ds, [rng.randint(0, 3) for _ in range(n)], [rng.choice([0, 1])]], "group": f"exh-n{n}-main"}
    size = 5 if tier == "quick" else 6
    for k in range(1, size + 1):
        for orders in itertools.combinations_with_replacement([1, 2, 3], k):
            orders = list(orders)
            rng.shuffle(orders)
            ds = tributary_star(orders)
            yield {"k": 801, "args": [ds, nets.topo_order(ds, rng), [0], []], "group": f"star-{k}"}
    for _ in range(40 if tier == "quick" else 300):
        orders = [rng.choice([1, 1, 2, 2, 3]) for _ in range(rng.randint(3, 8))]
        ds = tributary_star(orders)
        yield {"k": 804, "args": [ds, nets.topo_order(ds), [0], []], "call": {"api": rng.choice(["vec", "ras"])}, "group": "star-api"}
    # very wide confluences (only possible in the 1-D vector class): the number of upstream nodes exceeds what a narrow
    # counter can hold
    for ntrib in ([127, 128, 129, 130, 200, 256, 257, 300] if tier == "quick" else list(range(120, 140)) + [200, 255, 256, 257, 258, 300, 384, 385, 513]):
        for tail in (0, 1):
            # node 0: pit; with tail: hub = 1 drains to 0; tributaries drain to the hub
            hub = 1 if tail else 0
            ds = ([0, 0] if tail else [0]) + [hub] * ntrib
            for typ in (804, 805):
                yield {"k": typ, "args": [ds, nets.topo_order(ds), [0], []], "call": {"api": "vec", "pre": None}, "group": "wide-star"}
    nrand = 200 if tier == "quick" else 2000
    for t in range(nrand):
        n = rng.randint(2, 60 if t % 3 else 10)
        ds = nets.random_forest(rng, n, p_nodata=rng.choice([0, 0.1]))
        m = rng.choice(closed_masks(ds, rng, 1))
        api = rng.choice(["vec", "ras"])
        typ = rng.choice([804, 805])
        yield {"k": typ, "args": [ds, nets.topo_order(ds), [int(m is not None)], m or []],
               "call": {"api": api, "pre": rng.choice([None, None, "classic", "strahler"])}, "group": f"rand-{'strahler' if typ == 804 else 'classic'}-{api}"}
        yield {"k": 803, "args": [ds, [rng.randint(0, 4) for _ in range(n)], [rng.choice([0, 0, 2])]], "group": "rand-main"}
        # fractional areas: quarters, so that floor() would change the ranking
        yield {"k": 803, "args": [ds, [rng.randint(0, 9) for _ in range(n)], [rng.choice([0, 0, 2])]],
               "call": {"api": rng.choice(["kernel", "vec", "ras"]), "scale": 4}, "group": "rand-main-fractional"}


def corpus():
    # known finding F13: a chain whose every node also receives a leaf that is declared the main upstream cell, so the
    # chain is the "other branch" at 260 nested confluences: classic order 261 does not fit the uint8 result
    K = 260
    n = 2 * K + 1
    ds = [0] * n
    main = [-1] * n
    for k in range(1, K + 1):
        ds[k] = k - 1
        ds[K + k] = k - 1
        main[k - 1] = K + k
    return [{"k": 802, "args": [ds, nets.topo_order(ds), [0], [], main], "group": "corpus-F13-deep-nesting"}]


def impl(case):
    from common import call_impl
    from implutil import ds_array, make_raster, make_vector, idx_list
    from pyflwdir import core, streams
    k, a = case["k"], case["args"]
    ds = a[0]
    n = len(ds)
    arr = ds_array(ds)
    if k in (801, 802):
        sq = np.array(a[1], dtype=np.int32)
        mask = np.array(a[3], dtype=bool) if a[2][0] else None
        if k == 801:
            st, v = call_impl(streams.strahler_order, arr, sq, mask)
        else:
            st, v = call_impl(streams.stream_order, arr, sq, ds_array(a[4]), mask)
        return [[int(x) for x in v]] if st == "ok" else [[-2], [st]]
    if k == 803:
        call = case.get("call") or {}
        if call.get("scale"):
            upa = np.array(a[1], dtype=np.float64) / call["scale"]
            if sum(a[1]) % 3 == 0 and a[2][0] == 0:
                # areas above 2^24 that differ by one unit: the ranking must not go through float32 (round-5 seed)
                upa = np.where(np.array(a[1]) > 0, 4.0e7 + np.array(a[1], dtype=np.float64), 0.0)
            if call["api"] == "kernel":
                st, v = call_impl(core.main_upstream, arr, upa, a[2][0] / call["scale"])
            else:
                if a[2][0] != 0:
                    return [_main(ds, a[1], a[2][0])]       # the API has no upa_min argument
                flw = (make_vector if call["api"] == "vec" else make_raster)(ds)
                st, v = call_impl(flw.main_upstream, upa if call["api"] == "vec" else upa.reshape(1, n))
            return [idx_list(v)] if st == "ok" else [[-2], [st]]
        st, v = call_impl(core.main_upstream, arr, np.array(a[1], dtype=np.int64), a[2][0])
        return [idx_list(v)] if st == "ok" else [[-2], [st]]
    api = case["call"]["api"]
    flw = (make_vector if api == "vec" else make_raster)(ds)
    mask = None
    if a[2][0]:
        mask = np.array(a[3], dtype=bool)
        if api == "ras":
            mask = mask.reshape(1, n)
    if case["call"].get("pre"):      # an earlier query of the other (or the same) kind on the same object must not matter
        call_impl(flw.stream_order, type=case["call"]["pre"])
    st, v = call_impl(flw.stream_order, type="strahler" if k == 804 else "classic", mask=mask)
    if st != "ok":
        return [[-2], [st]]
    if v.dtype != np.uint8:
        return [[-3], [str(v.dtype)]]
    return [[int(x) for x in v.ravel()]]


def _main(ds, upa, upa_min):
    n = len(ds)
    out = [-1] * n
    for d in range(n):
        best = None
        for c in range(n):
            if ds[c] == d and c != d and upa[c] > upa_min and (best is None or upa[c] > upa[best]):
                best = c
        out[d] = -1 if best is None else best
    return out


def _uparea(ds):
    n = len(ds)
    up = [0] * n
    for x in range(n):
        if ds[x] < 0:
            up[x] = -9999
            continue
        j = x
        while True:
            up[j] += 1
            if ds[j] == j:
                break
            j = ds[j]
    return up


def _strahler(ds, m):
    n = len(ds)
    memo = {}

    def so(j):
        if j in memo:
            return memo[j]
        if ds[j] < 0 or not m[j]:
            memo[j] = 0
            return 0
        tr = [so(c) for c in range(n) if ds[c] == j and c != j and ds[c] >= 0 and m[c]]
        if not tr:
            r = 1
        else:
            M = max(tr)
            r = M + 1 if tr.count(M) >= 2 else M
        memo[j] = r
        return r
    return [so(j) for j in range(n)]


def _classic(ds, m, main):
    n = len(ds)
    nup = [sum(1 for c in range(n) if ds[c] == j and c != j and m[c]) for j in range(n)]
    memo = {}

    def o(i):
        if i in memo:
            return memo[i]
        if ds[i] < 0 or not m[i]:
            r = 0
        elif ds[i] == i:
            r = 1
        else:
            d = ds[i]
            r = o(d) + (1 if (nup[d] > 1 and main[d] != i) else 0)
        memo[i] = r
        return r
    return [o(i) for i in range(n)]


def oracle(case, out):
    k, a = case["k"], case["args"]
    ds = a[0]
    n = len(ds)
    if out and out[0] in ([-2], [-3]):
        return ("order:unexpected-outcome", f"{out}")
    if k == 803:
        exp = _main(ds, a[1], a[2][0])
        return None if out == [exp] else ("main_upstream", f"expected {exp} got {out}")
    m = a[3] if a[2][0] else [1] * n
    if k in (801, 804):
        exp = _strahler(ds, m)
        return None if out == [exp] else ("strahler", f"expected {exp} got {out}")
    if k == 802:
        exp = _classic(ds, m, a[4])
        if out != [exp] and max(exp) > 255 and len(out[0]) == n and all(o == e % 256 for o, e in zip(out[0], exp)):
            return ("classic:uint8-wrap", f"classic order exceeds 255 and wraps around in the uint8 result: expected max {max(exp)}, "
                                          f"got {out[0][max(range(n), key=lambda i: exp[i])]} there ({n}-node network nested {max(exp) - 1} deep)")
        return None if out == [exp] else ("classic", f"expected {str(exp)[:300]} got {str(out)[:300]}")
    if k == 805:
        exp = _classic(ds, m, _main(ds, _uparea(ds), 0))
        return None if out == [exp] else ("classic:api", f"expected {exp} got {out}")
    return None


def nontrivial(case, out):
    ds = case["args"][0]
    n = len(ds)
    return any(sum(1 for c in range(n) if ds[c] == j and c != j) >= 2 for j in range(n))
