"""C06 — depression filling yields the minimal spill surface draining all cells."""
import heapq, itertools
import numpy as np
import nets

PID = "C06"
THEOREMS = ["flood_basic", "flood_forest", "flood_upper", "flood_attained", "seeds_char", "fill_idempotent", "us_points_back", "extract_min_spec", "gen_fill_depressions_eq"]
RULE = ("all DEMs over {0,1,2,nodata} on shapes up to 2x3 / 3x2 (exhaustive), both connectivities, outlet modes 'edge', "
        "'min' and user cells; random integer DEMs (plateaus, nested depressions, nodata holes) to 8x8 (20x20 thorough) "
        "through dem.fill_depressions (integer, unsigned, float32 and float64 arrays holding integers or eighths, nodata values float32 "
        "cannot hold, every negative max_depth) and pyflwdir.from_dem; general and close-valued float DEMs (oracle only); "
        "non-trivial = some cell is raised")
ASSUMPTIONS = ["max_depth < 0 (unlimited fill) and no elv_max in the model; elevations are integers or eighths in the model cases; general "
               "float DEMs (k = 600) are decided by the oracle alone: the filled level must be exactly an input value (minimax level)"]


def cases(tier, rng):
    vals = [0, 1, 2, -9999]
    for (nr, nc) in [(1, 2), (2, 1), (1, 3), (3, 1), (2, 2), (2, 3), (3, 2)]:
        n = nr * nc
        for dem in itertools.product(vals, repeat=n):
            if n == 6 and rng.random() > (0.15 if tier == "quick" else 0.6):
                continue
            if all(v == -9999 for v in dem):
                continue
            conn = rng.choice([4, 8])
            mode = rng.choice([0, 0, 1, 2])
            pits = []
            if mode == 2:
                valid = [i for i in range(n) if dem[i] != -9999]
                pits = sorted(rng.sample(valid, rng.randint(1, min(2, len(valid)))))
            yield {"k": 601, "args": [[nr], [nc], list(dem), [-9999], [conn], [mode], pits], "call": {"dtype": rng.choice(["int32", "float32", "float64"])}, "group": f"exh-{nr}x{nc}"}
    for t in range(150 if tier == "quick" else 1500):
        nr, nc = rng.randint(2, 9), rng.randint(2, 9)
        close = rng.random() < 0.4
        yield {"k": 600, "args": [[t]], "call": {"nr": nr, "nc": nc, "dtype": rng.choice(["float64", "int32"]) if close else rng.choice(["float32", "float64"]),
                                                  "seed": rng.randrange(10**9), "close": close, "from_dem": rng.random() < 0.7,
                                                  "pn": rng.choice([0, 0.1]), "conn": rng.choice([4, 8]), "mode": rng.choice([0, 1])},
               "group": "float-close" if close else "float-general"}
    for t in range(100 if tier == "quick" else 1000):
        nr, nc = rng.randint(2, 7), rng.randint(2, 7)
        n = nr * nc
        dem = [(-9999 if rng.random() < 0.1 else rng.randint(0, 80)) for _ in range(n)]
        if all(v == -9999 for v in dem):
            continue
        yield {"k": 601, "args": [[nr], [nc], dem, [-9999], [rng.choice([4, 8])], [rng.choice([0, 1])], []],
               "call": {"dtype": rng.choice(["float32", "float64"]), "scale": 8}, "group": "float-eighths"}
    nrand = 250 if tier == "quick" else 2500
    for t in range(nrand):
        mx = 8 if tier == "quick" else 20
        nr, nc = nets.rshape(rng, 2, mx, 0.15)
        n = nr * nc
        hi = rng.choice([2, 4, 9, 30])
        pn = rng.choice([0, 0.05, 0.2])
        dem = [(-9999 if rng.random() < pn else rng.randint(0, hi)) for _ in range(n)]
        if all(v == -9999 for v in dem):
            continue
        conn = rng.choice([4, 8])
        mode = rng.choice([0, 0, 1, 2])
        pits = []
        if mode == 2:
            valid = [i for i in range(n) if dem[i] != -9999]
            pits = sorted(rng.sample(valid, rng.randint(1, min(3, len(valid)))))
        yield {"k": 601, "args": [[nr], [nc], dem, [-9999], [conn], [mode], pits],
               "call": {"dtype": rng.choice(["int32", "float32", "float64", "uint8", "uint16", "int16"]), "from_dem": mode != 2 and conn == 8 and rng.random() < 0.3}, "group": f"rand-conn{conn}-mode{mode}"}


def _float_case(call):
    """general floating point DEMs: the filled surface must be the exact minimax level (an input value)"""
    import random
    from pyflwdir import dem as pdem
    rng = random.Random(call["seed"])
    nr, nc = call["nr"], call["nc"]
    n = nr * nc
    dt = call["dtype"]
    vals = np.array([rng.uniform(0, 50) if rng.random() < 0.8 else float(rng.randint(0, 5)) for _ in range(n)]).astype(dt)
    close = call.get("close")
    if close:      # elevations closer together than float32 can resolve (round-2 seed: a narrowing cast in from_dem)
        if dt == "float64":
            stepz = rng.choice([1e-7, 1e-10, 3e-11])      # depressions far shallower than any rounding a kernel might apply (round-6 seed)
            vals = np.array([1000.0 + rng.randint(0, 40) * stepz for _ in range(n)], dtype=dt)
        elif dt == "int32":
            vals = np.array([20000000 + rng.randint(0, 12) for _ in range(n)], dtype=dt)
    nod = [rng.random() < call["pn"] for _ in range(n)]
    arr = np.where(np.array(nod), np.array(-9999, dtype=dt), vals).reshape(nr, nc)
    conn = call["conn"]
    mode = call["mode"]
    f, d8 = pdem.fill_depressions(arr.copy(), nodata=-9999, connectivity=conn, outlets="min" if mode == 1 else "edge")
    dem = [float(x) for x in arr.ravel()]
    fake = {"args": [[nr], [nc], dem, [-9999.0], [conn], [mode], []], "call": {}}
    res = oracle_core(fake, [[float(x) for x in f.ravel()], [int(x) for x in d8.ravel()]])
    if res is None and call.get("from_dem") and conn == 8:
        import pyflwdir
        flw = pyflwdir.from_dem(arr.copy(), nodata=-9999, outlets="min" if mode == 1 else "edge")
        got = [int(x) for x in flw.to_array().ravel()]
        if got != _canon_d8([int(x) for x in d8.ravel()], nr, nc):
            # the directions may legitimately differ among ties only if they still satisfy the property on THIS elevation
            res2 = oracle_core(fake, [[float(x) for x in f.ravel()], [(247 if g == 247 else g) for g in got]])
            if res2 is not None:
                res = ("from_dem:" + res2[0], "from_dem: " + res2[1])
    return [[0]] if res is None else [[1], [res[0], res[1][:300]]]


def impl(case):
    from common import call_impl
    from pyflwdir import dem as pdem
    import pyflwdir
    if case["k"] == 600:
        return _float_case(case["call"])
    a = case["args"]
    scale = case["call"].get("scale", 1)
    nr, nc, dem, nodata, conn, mode, pits = a[0][0], a[1][0], a[2], a[3][0], a[4][0], a[5][0], a[6]
    unsigned = np.dtype(case["call"]["dtype"]).kind == "u"
    if unsigned:        # the nodata value of an unsigned raster: the largest value of the type
        nodata_model, nodata = nodata, int(np.iinfo(case["call"]["dtype"]).max)
        dem = [(nodata if v == nodata_model else v) for v in dem]
    arr = np.array(dem, dtype=case["call"]["dtype"]).reshape(nr, nc)
    if scale != 1:      # eighths: exact in float32, scaled to integers for the model
        arr = np.where(arr == nodata, arr, arr / scale).astype(case["call"]["dtype"])
    # float rasters: also nodata values that float32 cannot hold exactly, passed as plain Python floats (the missing cells
    # hold the value rounded to the raster's type); any negative max_depth means "no limit" (round-5 seeds)
    key = sum(int(v) for v in dem if v != nodata) + nr
    nd_model = nodata
    if arr.dtype.kind == "f" and key % 3:
        nd_py = [1e20, -9999.9][key % 3 - 1]
        arr = np.where(arr == nodata, np.array(nd_py, dtype=arr.dtype), arr).astype(arr.dtype)
        nodata = nd_py
    md = [None, -1, -0.5, -0.001, -2.0, -100][key % 6]
    before = arr.copy()
    kw = dict(nodata=nodata, connectivity=conn, outlets="min" if mode == 1 else "edge")
    if md is not None:
        kw["max_depth"] = md
    if mode == 2:
        kw["idxs_pit"] = np.array(pits, dtype=np.int64)
    st, v = call_impl(pdem.fill_depressions, arr, **kw)
    if not np.array_equal(before, arr):
        return [[-4], ["input mutated"]]
    if st != "ok":
        return [[-2], [st, str(v)[:100]]]
    f, d8 = v
    if nodata != nd_model:
        f = np.where(f == np.array(nodata, dtype=f.dtype), np.array(nd_model, dtype=f.dtype), f)
        nodata = nd_model
    if scale != 1:
        f = np.where(f == nodata, f, f * scale)
    if np.any(f != np.round(f)) or d8.dtype != np.uint8 or f.dtype != arr.dtype:
        return [[-3], [str(f.dtype), str(d8.dtype)]]
    out = [[int(x) for x in f.ravel()], [int(x) for x in d8.ravel()]]
    if unsigned:
        out[0] = [(nodata_model if x == nodata else x) for x in out[0]]
    if case["call"].get("from_dem"):
        kw2 = {k_: v_ for k_, v_ in kw.items() if k_ in ("nodata", "max_depth", "outlets")}
        st2, flw = call_impl(pyflwdir.from_dem, arr, **kw2)
        if st2 != "ok" or [int(x) for x in flw.to_array().ravel()] != _canon_d8(out[1], nr, nc):
            return [[-5], ["from_dem disagrees with fill_depressions"]]
    return out


def _canon_d8(d8, nr, nc):
    ds = nets.d8_decode(d8, nr, nc)
    inv = {v: k for k, v in nets.D8.items()}
    return [(247 if d8[i] == 247 else (0 if ds[i] == i else d8[i])) for i in range(nr * nc)]


def _nbrs(i, nr, nc, conn):
    r, c = divmod(i, nc)
    for dr in (-1, 0, 1):
        for dc in (-1, 0, 1):
            if (dr or dc) and (conn == 8 or dr == 0 or dc == 0) and 0 <= r + dr < nr and 0 <= c + dc < nc:
                yield (r + dr) * nc + c + dc


def oracle(case, out):
    if case["k"] == 600:
        return None if out == [[0]] else (out[1][0] + ":float", out[1][1])
    return oracle_core(case, out)


def oracle_core(case, out):
    a = case["args"]
    nr, nc, dem, nodata, conn, mode, pits = a[0][0], a[1][0], a[2], a[3][0], a[4][0], a[5][0], a[6]
    n = nr * nc
    if out and out[0] in ([-2], [-3], [-4], [-5]):
        return ("fill:unexpected-outcome", f"{out}")
    filled, d8 = out
    valid = [i for i in range(n) if dem[i] != nodata]
    # outlets
    if mode == 2:
        outlets = list(pits)
    else:
        def edge(i):
            r, c = divmod(i, nc)
            if r in (0, nr - 1) or c in (0, nc - 1):
                return True
            return any(dem[j] == nodata for j in _nbrs(i, nr, nc, conn))
        outlets = [i for i in valid if edge(i)]
        if mode == 1:
            outlets = [min(outlets, key=lambda i: (dem[i], i))]
    # minimax spill level by Dijkstra on (max elevation along the path)
    lvl = {i: None for i in valid}
    h = [(dem[o], o) for o in outlets]
    heapq.heapify(h)
    while h:
        z, i = heapq.heappop(h)
        if lvl[i] is not None:
            continue
        lvl[i] = z
        for j in _nbrs(i, nr, nc, conn):
            if dem[j] != nodata and lvl[j] is None:
                heapq.heappush(h, (max(z, dem[j]), j))
    for i in range(n):
        if dem[i] == nodata:
            if filled[i] != nodata or d8[i] != 247:
                return ("fill:nodata-touched", f"cell {i}: {filled[i]} {d8[i]}")
        elif lvl[i] is not None and filled[i] != lvl[i]:
            return ("fill:not-minimax", f"cell {i}: filled {filled[i]} but the minimal spill level is {lvl[i]} (dem {dem}, shape {nr}x{nc}, conn {conn}, outlets {outlets})")
    # directions: allowed neighbour, never uphill, loop-free, reach an outlet
    ds = nets.d8_decode(d8, nr, nc)
    for i in valid:
        if lvl[i] is None:
            continue
        if ds[i] != i:
            if ds[i] not in set(_nbrs(i, nr, nc, conn)):
                return ("fill:step-not-allowed", f"cell {i} -> {ds[i]} with connectivity {conn}")
            if filled[ds[i]] > filled[i]:
                return ("fill:uphill", f"cell {i} ({filled[i]}) -> {ds[i]} ({filled[ds[i]]})")
        j, k = i, 0
        while ds[j] != j and k <= n:
            j = ds[j]; k += 1
        if ds[j] != j or j not in outlets:
            return ("fill:no-outlet", f"cell {i} ends at {j}, outlets {outlets}")
    return None


def nontrivial(case, out):
    if case["k"] == 600:
        return True
    return len(out) == 2 and any(f != d for f, d in zip(out[0], case["args"][2]))
