"""C17 — indices, coordinates, distances, areas."""
import math, os, sys
from fractions import Fraction
import numpy as np

PID = "C17"
THEOREMS = ["xy_is_centre", "index_xy_roundtrip", "idx_coords_roundtrip", "coords_to_idx_spec", "idx_outside_raises",
            "centres_inside_bounds", "distance_ew", "distance_ns", "distance_diag", "distance_symmetric",
            "geo_distance_ew", "geo_distance_ns", "area_projected", "area_factors", "column_area_sum", "area_global_sum"]
RULE = ("affine part: dyadic transforms (resolutions +-2^k, k=-2..3, either sign, unequal x/y), dyadic origins, shapes "
        "1..6 x 1..6, every cell and points on cell borders / outside the raster, compared as exact rationals "
        "(float.as_integer_ratio) with the Q model, through gis_utils and FlwdirRaster.xy/index/bounds; formulas: "
        "projected and geographic distance for every pair of 8-neighbours on random grids of both hemispheres, "
        "symmetry, projected / spherical cell areas incl. 1xN and Nx1 rasters and a global grid, and the translator's "
        "python rendering of GenFormulas against gis_utils to 1e-12; non-trivial = non-identity transform")
ASSUMPTIONS = ["lengths and areas: theorems are about the regenerated formulas read over R; binary64 rounding is not modelled",
               "rowcol: the implementation multiplies by the inverse transform in floats; exact comparison uses dyadic "
               "transforms where that is exact"]
TRUSTED_EXTRA = ["stdlib Reals axioms: ClassicalDedekindReals.sig_forall_dec, sig_not_dec, FunctionalExtensionality.functional_extensionality_dep"]


def fr(x):
    return Fraction(x)


def q(f):
    f = Fraction(f)
    return [f.numerator, f.denominator]


def cases(tier, rng):
    res = [Fraction(1, 4), Fraction(1, 2), Fraction(1), Fraction(2), Fraction(8)]
    n = 300 if tier == "quick" else 3000
    for _ in range(n):
        a = rng.choice(res) * rng.choice([1, -1])
        e = rng.choice(res) * rng.choice([1, -1, -1])
        c = Fraction(rng.randint(-40, 40), 8)
        f = Fraction(rng.randint(-40, 40), 8)
        if rng.random() < 0.25:
            # projected coordinates far from the origin with fine cells: exact in binary64, not in binary32 (round-4 seed)
            c = Fraction(rng.randint(400000 * 8, 700000 * 8), 8) + Fraction(1, 8)
            f = Fraction(rng.randint(5000000 * 8, 6000000 * 8), 8) + Fraction(3, 8)
        nr, nc = rng.randint(1, 6), rng.randint(1, 6)
        t = q(a) + q(c) + q(e) + q(f)
        api = rng.choice(["gis", "obj"]) if nr * nc > 1 else "gis"
        r, cc = rng.randint(0, nr - 1), rng.randint(0, nc - 1)
        yield {"k": 1701, "args": [t, [r], [cc]], "call": {"api": api, "nr": nr, "nc": nc}, "group": "xy"}
        # a point: inside a cell, on a border, or outside
        u = rng.choice([Fraction(0), Fraction(1, 4), Fraction(1, 2), Fraction(3, 4)])
        v = rng.choice([Fraction(0), Fraction(1, 4), Fraction(1, 2), Fraction(3, 4)])
        rr = rng.randint(-1, nr)
        c2 = rng.randint(-1, nc)
        x = c + a * (c2 + u)
        y = f + e * (rr + v)
        yield {"k": 1702, "args": [t, [nr], [nc], q(x) + q(y)], "call": {"api": api}, "group": "coords_to_idx"}
        yield {"k": 1703, "args": [t, [nr], [nc], [rng.randint(-2, nr * nc + 1)]], "call": {"api": api}, "group": "idx_to_coords"}
        yield {"k": 1704, "args": [t, [nr], [nc]], "call": {"api": api}, "group": "bounds"}
    for i in range(60 if tier == "quick" else 600):
        yield {"k": 1700, "args": [[i]], "call": {"what": ["dist_proj", "dist_geo", "area", "selfcheck", "distnc"][i % 5], "seed": rng.randrange(10**9)}, "group": "formulas"}


def _affine(t):
    from affine import Affine
    a, c, e, f = [Fraction(t[2 * i], t[2 * i + 1]) for i in range(4)]
    return Affine(float(a), 0.0, float(c), 0.0, float(e), float(f))


def _fq(x):
    return q(Fraction(float(x)))


def impl(case):
    from common import call_impl
    import pyflwdir
    from pyflwdir import gis_utils as g
    k, a = case["k"], case["args"]
    call = case["call"]
    if k == 1700:
        return _formulas(call)
    tr = _affine(a[0])
    obj = None
    if call["api"] == "obj":
        nr, nc = (call["nr"], call["nc"]) if k == 1701 else (a[1][0], a[2][0])
        if nr * nc > 1:
            obj = pyflwdir.from_array(np.zeros((nr, nc), dtype=np.uint8), ftype="d8", transform=tr)
    if k == 1701:
        if obj is not None:
            st, v = call_impl(obj.xy, np.array([a[1][0] * call["nc"] + a[2][0]]))
            # the xy= interface of the methods looks the returned centres up again: one, two and three points (round-5
            # seed: exactly two points were read as one transposed pair); every cell of this raster is a pit
            i0, nn = a[1][0] * call["nc"] + a[2][0], call["nr"] * call["nc"]
            for cells in ([i0], [i0, (i0 * 3 + 1) % nn], [(i0 * 3 + 1) % nn, i0, (i0 + 2) % nn]):
                if st != "ok":
                    break
                st1, pts = call_impl(obj.xy, np.array(cells))
                st2, sn = call_impl(obj.snap, xy=pts) if st1 == "ok" else (st1, None)
                if st2 != "ok" or [int(x) for x in sn[0]] != cells:
                    return [[-2], [f"snap(xy=xy({cells})) -> {st2} {None if st2 != 'ok' else [int(x) for x in sn[0]]}"]]
        else:
            st, v = call_impl(g.xy, tr, np.array([a[1][0]]), np.array([a[2][0]]))
        return [_fq(v[0][0]) + _fq(v[1][0])] if st == "ok" else [[-2], [st]]
    if k == 1702:
        x = float(Fraction(a[3][0], a[3][1])); y = float(Fraction(a[3][2], a[3][3]))
        if obj is not None:
            st, v = call_impl(obj.index, np.array([x]), np.array([y]))
        else:
            st, v = call_impl(g.coords_to_idxs, np.array([x]), np.array([y]), tr, (a[1][0], a[2][0]))
        if st == "IndexError":
            return [[1]]
        return [[0, int(v[0])]] if st == "ok" else [[-2], [st]]
    if k == 1703:
        if obj is not None:
            st, v = call_impl(obj.xy, np.array([a[3][0]]))
        else:
            st, v = call_impl(g.idxs_to_coords, np.array([a[3][0]]), tr, (a[1][0], a[2][0]))
        if st == "IndexError":
            return [[1]]
        return [[0], _fq(v[0][0]) + _fq(v[1][0])] if st == "ok" else [[-2], [st]]
    if k == 1704:
        if obj is not None:
            st, v = call_impl(lambda: obj.bounds)
        else:
            st, v = call_impl(g.array_bounds, a[1][0], a[2][0], tr)
        return [sum((_fq(x) for x in v), [])] if st == "ok" else [[-2], [st]]
    raise ValueError(k)


def _close(a, b, rel=1e-12):
    return a == b or abs(a - b) <= rel * max(abs(a), abs(b))


def _formulas(call):
    """float formulas: implementation vs independent statement of the property (and vs the translator's
    python rendering of the generated Coq formulas).  returns [[0]] or [[1], <what failed>]"""
    import random
    from affine import Affine
    import pyflwdir
    from pyflwdir import gis_utils as g
    rng = random.Random(call["seed"])
    what = call["what"]
    bad = []
    if what == "dist_proj":
        xres = rng.choice([1, 2, 3, 30, -2, 0.5, 4]); yres = rng.choice([-1, -5, -4, 7, -30, -0.25, 3])
        nc = rng.randint(1, 6); nr = rng.randint(1, 6)
        tr = Affine(float(xres), 0.0, rng.uniform(-100, 100), 0.0, float(yres), rng.uniform(-100, 100))
        for i in range(nr * nc):
            r, c = divmod(i, nc)
            for dr in (-1, 0, 1):
                for dc in (-1, 0, 1):
                    if 0 <= r + dr < nr and 0 <= c + dc < nc and (dr or dc):
                        j = (r + dr) * nc + c + dc
                        d = g.distance(i, j, nc, False, tr)
                        exp = math.hypot(yres * dr, xres * dc)
                        if d != exp or d != g.distance(j, i, nc, False, tr):
                            bad.append(f"projected distance({i},{j}) ncol={nc} xres={xres} yres={yres}: {d} expected {exp}")
    elif what == "dist_geo":
        xres = rng.choice([1.0, 0.5, 0.25, 2.0]); yres = rng.choice([-1.0, -0.5, 1.0, 0.25, -2.0])
        nc = rng.randint(1, 5); nr = rng.randint(1, 6)
        north = rng.uniform(-80, 80)
        if not (-89 < north + nr * yres < 89):
            north = 10.0
        tr = Affine(xres, 0.0, rng.uniform(-170, 170), 0.0, yres, north)
        for i in range(nr * nc):
            r, c = divmod(i, nc)
            for dr in (-1, 0, 1):
                for dc in (-1, 0, 1):
                    if 0 <= r + dr < nr and 0 <= c + dc < nc and (dr or dc):
                        j = (r + dr) * nc + c + dc
                        d = g.distance(i, j, nc, True, tr)
                        lat = (north + (r + 0.5) * yres + north + (r + dr + 0.5) * yres) / 2.0
                        dy = abs(g.degree_metres_y(lat) * yres) * abs(dr)
                        dx = abs(g.degree_metres_x(lat) * xres) * abs(dc)
                        exp = math.hypot(dy, dx)
                        sph = math.hypot(math.radians(abs(yres)) * 6371e3 * abs(dr), math.radians(abs(xres)) * 6371e3 * math.cos(math.radians(lat)) * abs(dc))
                        if not _close(d, exp, 1e-9) or d != g.distance(j, i, nc, True, tr) or abs(d - sph) > 0.01 * sph:
                            bad.append(f"geographic distance({i},{j}) ncol={nc} tr={tuple(tr)[:6]}: {d} expected {exp} (sphere {sph})")
    elif what == "distnc":
        # path length to the outlet on the object = sum of the step lengths along the flow path, also on rasters of one
        # or two columns (where linear-index offsets are ambiguous) and on geographic grids (round-3 seed)
        import nets
        nr, nc = rng.choice([(1, 4), (4, 1), (3, 2), (5, 2), (2, 3), (4, 3), (6, 1)])
        flwv = nets.random_d8_raster(rng, nr, nc, p_nodata=rng.choice([0, 0.15]))
        ds = nets.d8_decode(flwv, nr, nc)
        if nets.pits(ds):
            ll = rng.random() < 0.4
            xres = rng.choice([3.0, 0.5, 2.0]); yres = rng.choice([-4.0, -0.25, 1.0])
            tr = Affine(xres, 0.0, 5.0, 0.0, yres, 30.0)
            obj = pyflwdir.from_array(np.array(flwv, dtype=np.uint8).reshape(nr, nc), ftype="d8", transform=tr, latlon=ll)
            got = np.asarray(obj.distnc).ravel()
            got2 = np.asarray(obj.stream_distance(unit="m")).ravel()
            for i in range(nr * nc):
                if ds[i] < 0:
                    continue
                d, j = 0.0, i
                while ds[j] != j:
                    d += float(g.distance(j, ds[j], nc, ll, tr))
                    j = ds[j]
                if not _close(float(got[i]), d, 1e-5) or not _close(float(got2[i]), d, 1e-5):
                    bad.append(f"distnc / stream_distance('m') of cell {i} on a {nr}x{nc} raster (latlon={ll}, res {xres} x {yres}): {got[i]} / {got2[i]}, the steps add up to {d}")
                    break
    elif what == "area":
        nr, nc = rng.choice([(1, 4), (4, 1), (3, 3), (2, 5), (1, 2)])
        xres = rng.choice([1.0, 2.0, 0.5, -2.0]); yres = rng.choice([-1.0, -5.0, 0.5, 3.0])
        tr = Affine(xres, 0.0, 3.0, 0.0, yres, 20.0)
        for unit, fac in (("m2", 1.0), ("ha", 1e4), ("km2", 1e6)):
            A = g.area_grid(tr, (nr, nc), False, unit)
            if A.shape != (nr, nc) or not np.all(A == np.float32(abs(xres * yres) / fac)):
                bad.append(f"projected area_grid {unit} {xres}x{yres}: {A.ravel()[:3]}")
        A = g.area_grid(tr, (nr, nc), True, "m2")
        for r in range(nr):
            lat = 20.0 + (r + 0.5) * yres
            exp = 6371e3 ** 2 * math.radians(abs(xres)) * (math.sin(math.radians(lat + abs(yres) / 2)) - math.sin(math.radians(lat - abs(yres) / 2)))
            if A.shape != (nr, nc) or not all(_close(float(v), exp, 1e-6) for v in A[r]):
                bad.append(f"geographic area_grid shape {(nr, nc)} row {r}: {A[r]} expected {exp}")
        flw = pyflwdir.from_array(np.zeros((nr, nc), dtype=np.uint8), ftype="d8", transform=tr, latlon=True)
        ua = flw.upstream_area("km2")
        if not np.all(np.isfinite(ua)) or not np.allclose(ua, np.asarray(A) / 1e6, rtol=1e-6):
            bad.append(f"upstream_area('km2') on all-pit {nr}x{nc} geographic raster: {ua.ravel()[:4]}")
        # unit conversions are not applied to the object's own cell areas: asking again gives the same, and the area
        # grid is still in m2
        ua2, uh = flw.upstream_area("km2"), flw.upstream_area("ha")
        if not np.array_equal(ua, ua2) or not np.allclose(uh, np.asarray(A) / 1e4, rtol=1e-6) or not np.array_equal(flw.area, A):
            bad.append(f"repeated upstream_area with units on a {nr}x{nc} geographic raster: {ua2.ravel()[:3]} {uh.ravel()[:3]} area {flw.area.ravel()[:3]}")
        # the object's areas / path lengths follow the CURRENT georeference, also after an earlier query on a memoising
        # object and a set_transform that changes only the latlon flag or only the affine (round-2 seed)
        if nr * nc > 1:
            obj = pyflwdir.from_array(np.zeros((nr, nc), dtype=np.uint8), ftype="d8", transform=tr, latlon=False)
            _ = (obj.area, obj.distnc)
            flip = rng.choice(["latlon", "affine", "both"])
            tr2 = tr if flip == "latlon" else Affine(xres * 2, 0.0, 3.0, 0.0, yres, 20.0)
            ll2 = flip != "affine"
            obj.set_transform(tr2, ll2)
            if not np.array_equal(obj.area, g.area_grid(tr2, (nr, nc), ll2, "m2")):
                bad.append(f"object area after set_transform({flip}) on a {nr}x{nc} raster is not area_grid of the new georeference: {obj.area.ravel()[:3]}")
            if not np.array_equal(obj.upstream_area("m2"), g.area_grid(tr2, (nr, nc), ll2, "m2").astype(obj.upstream_area("m2").dtype)):
                bad.append(f"upstream_area('m2') after set_transform({flip}) on an all-pit {nr}x{nc} raster: {obj.upstream_area('m2').ravel()[:3]}")
        if rng.random() < 0.3:
            res = rng.choice([10.0, 5.0, 30.0])
            trg = Affine(res, 0.0, -180.0, 0.0, -res, 90.0)
            G = g.area_grid(trg, (int(180 / res), int(360 / res)), True, "m2")
            tot = float(np.sum(G, dtype=np.float64))
            if not _close(tot, 4 * math.pi * 6371e3 ** 2, 1e-6):
                bad.append(f"global grid {res} deg: total area {tot} != sphere {4 * math.pi * 6371e3 ** 2}")
    else:
        from common import COQ
        gp = os.path.join(COQ, "generated")
        if gp not in sys.path:
            sys.path.insert(0, gp)
        import importlib
        import gen_formulas_py as G
        importlib.reload(G)
        for _ in range(30):
            lat = rng.uniform(-89, 89); xres = rng.uniform(-2, 2); yres = rng.uniform(-2, 2)
            if not _close(G.gen_cellarea(lat, xres, yres), float(g.cellarea(lat, xres, yres)), 1e-7):
                bad.append("translator: cellarea")
            if not _close(G.gen_degree_metres_x(lat), float(g.degree_metres_x(lat))) or not _close(G.gen_degree_metres_y(lat), float(g.degree_metres_y(lat))):
                bad.append("translator: degree_metres")
            nc = rng.randint(1, 7); i = rng.randint(0, 40); j = rng.randint(0, 40)
            tr = Affine(xres, 0.0, 1.0, 0.0, yres, rng.uniform(-60, 60))
            for ll in (False, True):
                if not _close(G.gen_distance(i, j, nc, ll, *tuple(tr)[:6]), float(g.distance(i, j, nc, ll, tr))):
                    bad.append(f"translator: distance({i},{j},{nc},{ll})")
            if not _close(G.gen_area_projected(*tuple(tr)[:6], 1e4), abs(xres * yres) / 1e4):
                bad.append("translator: area_projected")
        if G.CONSTS["_R"] != g._R:
            bad.append("translator: _R")
    return [[0]] if not bad else [[1], bad[:3]]


def oracle(case, out):
    k, a = case["k"], case["args"]
    if out and out[0] == [-2]:
        return ("geo:unexpected-exception", f"{out}")
    if k == 1700:
        return None if out == [[0]] else (f"geo:{case['call']['what']}", f"{out[1]}")
    t = a[0]
    A, C, E, F = [Fraction(t[2 * i], t[2 * i + 1]) for i in range(4)]
    if k == 1701:
        exp = q(C + A * (a[2][0] + Fraction(1, 2))) + q(F + E * (a[1][0] + Fraction(1, 2)))
        return None if out == [exp] else ("geo:xy", f"expected centre {exp} got {out}")
    if k == 1702:
        x = Fraction(a[3][0], a[3][1]); y = Fraction(a[3][2], a[3][3])
        col = math.floor((x - C) / A); row = math.floor((y - F) / E)
        nr, nc = a[1][0], a[2][0]
        exp = [[0, row * nc + col]] if (0 <= row < nr and 0 <= col < nc) else [[1]]
        return None if out == exp else ("geo:index", f"expected {exp} got {out}")
    if k == 1703:
        nr, nc, idx = a[1][0], a[2][0], a[3][0]
        if not (0 <= idx < nr * nc):
            return None if out == [[1]] else ("geo:idx-outside", f"{out}")
        r, c = divmod(idx, nc)
        exp = [[0], q(C + A * (c + Fraction(1, 2))) + q(F + E * (r + Fraction(1, 2)))]
        return None if out == exp else ("geo:idx_to_coords", f"expected {exp} got {out}")
    if k == 1704:
        h, w = a[1][0], a[2][0]
        exp = [q(C) + q(F + E * h) + q(C + A * w) + q(F)]
        return None if out == exp else ("geo:bounds", f"expected {exp} got {out}")
    return None


def nontrivial(case, out):
    return True
