"""C13 — operations terminate, stay in bounds and never modify their inputs."""
import numpy as np
import nets

PID = "C13"
THEOREMS = ["path_bound", "trace_terminates", "trace_in_bounds", "err_walk_terminates", "rank_total",
            "eam_walk_terminates", "out_walk_terminates", "dmm_walk_terminates",
            "tracem_bound", "adjust_terminates", "segment_paths_terminates", "segment_paths_short", "streams_terminates",
            "up_eam_plus_terminates", "ihu_walk_none_iff", "climb_fuel", "subbasins_pfafstetter_terminates", "idxs_seq_fuel",
            "rank_fuel_terminates", "flood_iterations", "fill_depressions_terminates", "spread_iterations",
            "spread2d_terminates", "spread_negative_friction_refuted"]
RULE = ("every public FlwdirRaster / Flwdir method and the module-level functions (from_array, from_dem, "
        "dem.fill_depressions / slope, gis_utils.spread2d, regions.*) with documented option values INCLUDING boundary "
        "values (max_depth = 0 and > 0, connectivity 4 / 8, outlets edge / min / user, scale factor 1, window 0, "
        "max_length 0, empty and full masks, min_sto beyond the maximum, depth 1..2, single-row and single-column "
        "rasters, nodata-dominated rasters) on random loop-free D8 networks 1x2..9x9: each call runs under a time limit "
        "(10 s for <= 81 cells), must return or raise ValueError / IndexError (anything else, e.g. TypeError, "
        "AttributeError, ZeroDivisionError, numba errors, is a violation), must leave every argument array byte-identical "
        "and, unless it is a documented mutator, the object's network and its memoised arrays (area, distnc, rank, order, pits) "
        "unchanged; a quarter of the rasters contain loops and get the operations whose domain includes them (rank, isvalid, "
        "ordering, repair_loops, sweeps over the ordered cells); non-trivial = at least 30 operations returned")
ASSUMPTIONS = ["termination and in-bounds are THEOREMS only for the modelled kernels (walks along idxs_ds: path_bound; the "
               "other properties' models are total functions whose fuel is proved sufficient); for the rest of the API this "
               "check is exploration with time limits, not proof",
               "out-of-bounds reads in interpreted mode wrap silently: they are caught indirectly, by the other properties' "
               "exact correspondence with models in which an out-of-range read returns a default value",
               "compiled (JIT) execution is out of scope (C07 not applicable); NUMBA_BOUNDSCHECK is therefore not used"]
MUST_OK = {"basins_empty_list", "add_pits_empty_list", "vector_class_starts", "pfafstetter_upa_min_none", "region_bounds_ids", "basin_bounds_ids", "index_top_left", "add_pits_dup_use", "add_pits_dup_xy_use", "from_array_ldd_out", "from_array_d8_out", "from_array_d8", "from_array_nextxy", "from_array_infer"}       # valid arguments: any exception is a failure
# arguments outside the documented domain: the documented ValueError / IndexError is the only acceptable outcome (points
# exactly on the right / bottom edge of the raster lie outside its half-open cells: round-5 seed)
MUST_RAISE = {"bad_strord_type", "bad_shape", "bad_index", "bad_unit", "bad_direction", "index_right_edge", "index_bottom_edge", "path_xy_right_edge", "basins_xy_bottom_edge"}
MUTATORS = {"add_pits", "repair_loops", "order_cells", "set_transform"}
# operations whose documented domain includes networks with loops (everything that walks a path needs a loop-free one)
LOOP_OK = {"order_walk", "order_sort", "rank", "isvalid", "idxs_pit", "nnodes", "n_upstream", "idxs_us_main", "ncells", "idxs_seq", "area",
           "distnc", "mask", "strahler", "classic", "uparea_cell", "uparea_km2", "accuflux", "accuflux_down", "basins", "basin_outlets",
           "fill_up", "fill_down", "downstream", "upstream_sum", "stream_distance", "hand", "to_array_d8", "to_array_ldd", "to_array_nextxy",
           "inflow", "outflow", "repair_loops", "add_pits", "dump_load", "from_array_d8", "from_array_nextxy", "from_array_infer", "from_array_ldd_out", "from_array_d8_out"}


def cases(tier, rng):
    n = 60 if tier == "quick" else 600
    for t in range(n):
        style = rng.random()
        if style < 0.15:
            nr, nc = (1, rng.randint(2, 9)) if rng.random() < 0.5 else (rng.randint(2, 9), 1)
        else:
            nr, nc = rng.randint(2, 9), rng.randint(2, 9)
        loops = rng.random() < 0.25
        flw = nets.random_d8_raster(rng, nr, nc, p_nodata=rng.choice([0, 0, 0.1, 0.3, 0.7]), loopfree=not loops)
        ds = nets.d8_decode(flw, nr, nc)
        if not nets.pits(ds):
            continue
        loops = loops and not nets.is_loopfree(ds)
        yield {"k": 1300, "args": [[t]], "call": {"nr": nr, "nc": nc, "flw": flw, "seed": rng.randrange(10**9), "loops": int(loops)},
               "group": "raster-with-loops" if loops else f"raster-{'row' if nr == 1 else 'col' if nc == 1 else 'grid'}"}


def _build_ops(nr, nc, ds, rng):
    """returns (ops, inputs): ops = list of (name, fn(flw)); inputs = {name: array} handed to the operations"""
    import pyflwdir
    from pyflwdir import dem, gis_utils, regions
    from pyflwdir.flwdir import Flwdir
    n = nr * nc
    R = lambda a: np.asarray(a).reshape(nr, nc)
    valid = [i for i in range(n) if ds[i] >= 0]
    I = {}
    I["elv"] = R([rng.randint(0, 9) for _ in range(n)]).astype(np.float32)
    I["elv_nodata"] = R([(-9999 if ds[i] < 0 else rng.randint(0, 9)) for i in range(n)]).astype(np.float32)
    I["data"] = R([(-9999 if rng.random() < 0.2 else rng.randint(0, 9)) for _ in range(n)]).astype(np.float64)
    I["full"] = R([rng.randint(1, 9) for _ in range(n)]).astype(np.float64)
    I["mask"] = R([rng.random() < 0.3 for _ in range(n)])
    I["mask_empty"] = R([False] * n)
    I["mask_full"] = R([True] * n)
    I["starts"] = np.array(rng.sample(valid, min(3, len(valid))))
    I["outl"] = np.array(rng.sample(valid, min(3, len(valid))))
    I["ids"] = np.arange(5, 5 + I["outl"].size, dtype=np.uint32)
    I["upa0"] = R([rng.randint(0, 2) for _ in range(n)]).astype(np.float64)
    I["obs"] = R([(rng.randint(1, 5) if rng.random() < 0.2 else 0) for _ in range(n)]).astype(np.int32)
    I["frc"] = R([rng.randint(1, 3) for _ in range(n)]).astype(np.float32)
    I["depths"] = np.array([1.0, 5.0], dtype=np.float32)
    I["regions"] = R([1 + (i // nc * 2 // max(nr, 1)) * 2 + (i % nc * 2 // max(nc, 1)) for i in range(n)]).astype(np.int32)
    # river slopes with zeros, nodata and values below the minimum slope (they are limited, not overwritten)
    I["slp"] = R([rng.choice([0.0, -9999.0, 1e-7, 1e-3, 5e-3]) for _ in range(n)]).astype(np.float64)
    # legal rasters of every format whose edge cells point out of the raster (= outlets)
    I["ldd_out"] = R([rng.choice([2, 1, 3, 6]) for _ in range(n)]).astype(np.uint8)          # S, SW, SE, E
    I["d8_out"] = R([rng.choice([4, 2, 8, 1]) for _ in range(n)]).astype(np.uint8)           # S, SE, SW, E
    I["xs"] = np.array([0.5 + (i % nc) for i in I["starts"]], dtype=np.float64)
    I["ys"] = np.array([-0.5 - (i // nc) for i in I["starts"]], dtype=np.float64)
    cs = rng.choice([1, 2, 3])
    ops = [
        ("order_walk", lambda f: f.order_cells("walk")), ("order_sort", lambda f: f.order_cells("sort")),
        ("rank", lambda f: f.rank), ("isvalid", lambda f: f.isvalid), ("idxs_pit", lambda f: f.idxs_pit), ("nnodes", lambda f: f.nnodes),
        ("n_upstream", lambda f: f.n_upstream), ("idxs_us_main", lambda f: f.idxs_us_main), ("ncells", lambda f: f.ncells), ("idxs_seq", lambda f: f.idxs_seq),
        ("area", lambda f: f.area), ("distnc", lambda f: f.distnc), ("mask", lambda f: f.mask), ("bounds", lambda f: f.bounds), ("extent", lambda f: f.extent),
        ("xy", lambda f: f.xy(I["starts"])), ("index", lambda f: f.index(I["xs"], I["ys"])),
        ("main_upstream_user", lambda f: f.main_upstream(uparea=I["upa0"])),
        ("strahler", lambda f: f.stream_order()), ("classic", lambda f: f.stream_order(type="classic")),
        ("strahler_empty_mask", lambda f: f.stream_order(mask=I["mask_empty"])), ("classic_mask", lambda f: f.stream_order(type="classic", mask=I["mask"])),
        ("uparea_cell", lambda f: f.upstream_area()), ("uparea_km2", lambda f: f.upstream_area("km2")),
        ("accuflux", lambda f: f.accuflux(I["full"])), ("accuflux_down", lambda f: f.accuflux(I["data"], nodata=-9999, direction="down")),
        ("basins", lambda f: f.basins()), ("basins_idxs", lambda f: f.basins(idxs=I["outl"], ids=I["ids"])),
        ("basins_xy", lambda f: f.basins(xy=(I["xs"], I["ys"]))), ("basin_outlets", lambda f: f.basin_outlets(f.basins())),
        ("basin_bounds", lambda f: f.basin_bounds()),
        ("subbasins_streamorder", lambda f: f.subbasins_streamorder(min_sto=1)), ("subbasins_streamorder_hi", lambda f: f.subbasins_streamorder(min_sto=99)),
        ("subbasins_area", lambda f: f.subbasins_area(3)), ("subbasins_area_big", lambda f: f.subbasins_area(10**6)),
        # upa_min=None is a value the method itself tests for ("if upa_min is not None"): no minimum area (defect fixed after 2739d00)
        ("pfafstetter_upa_min_none", lambda f: f.subbasins_pfafstetter(depth=1, upa_min=None)),
        ("subbasins_pfafstetter", lambda f: f.subbasins_pfafstetter(depth=1)), ("subbasins_pfafstetter2", lambda f: f.subbasins_pfafstetter(depth=2, upa_min=0)),
        ("path_down", lambda f: f.path(idxs=I["starts"])), ("path_up", lambda f: f.path(idxs=I["starts"], direction="up")),
        ("path_len0", lambda f: f.path(idxs=I["starts"], max_length=0)), ("path_m", lambda f: f.path(idxs=I["starts"], max_length=50.0, unit="m")),
        ("path_xy", lambda f: f.path(xy=(I["xs"], I["ys"]), mask=I["mask"])),
        ("snap_mask", lambda f: f.snap(idxs=I["starts"], mask=I["mask"])), ("snap_empty", lambda f: f.snap(idxs=I["starts"], mask=I["mask_empty"])),
        ("snap_up", lambda f: f.snap(idxs=I["starts"], mask=I["mask"], direction="up")), ("snap_maxlen", lambda f: f.snap(idxs=I["starts"], max_length=2)),
        ("fill_up", lambda f: f.fillnodata(I["data"], -9999, direction="up")), ("fill_down", lambda f: f.fillnodata(I["data"], -9999, direction="down", how="min")),
        ("downstream", lambda f: f.downstream(I["full"])), ("upstream_sum", lambda f: f.upstream_sum(I["full"])),
        ("moving_average0", lambda f: f.moving_average(I["data"], 0)), ("moving_average2", lambda f: f.moving_average(I["data"], 2, weights=I["full"])),
        ("moving_median", lambda f: f.moving_median(I["data"], 1, restrict_strord=True)),
        ("smooth_rivlen", lambda f: f.smooth_rivlen(I["full"], 3.0)), ("smooth_rivlen_small", lambda f: f.smooth_rivlen(I["full"], 1.0, max_window=1)),
        ("stream_distance", lambda f: f.stream_distance()), ("stream_distance_m", lambda f: f.stream_distance(mask=I["mask"], unit="m")),
        ("stream_distance_empty", lambda f: f.stream_distance(mask=I["mask_empty"])),
        ("hand", lambda f: f.hand(I["mask"], I["elv"])), ("hand_empty", lambda f: f.hand(I["mask_empty"], I["elv"])),
        ("floodplains", lambda f: f.floodplains(I["elv"], upa_min=3, b=1.0)), ("floodplains_user", lambda f: f.floodplains(I["elv"], uparea=I["full"], upa_min=0.5)),
        ("dem_adjust", lambda f: f.dem_adjust(I["elv"])), ("dem_dig_d4", lambda f: f.dem_dig_d4(I["elv_nodata"], rivmsk=I["mask"])),
        ("streams", lambda f: len(f.streams(min_sto=1))), ("streams_maxlen", lambda f: len(f.streams(max_len=1))), ("streams_mask", lambda f: len(f.streams(mask=I["mask"], uparea=I["full"]))),
        ("vectorize", lambda f: len(f.vectorize())), ("vectorize_mask", lambda f: len(f.vectorize(mask=I["mask"]))),
        ("geofeatures", lambda f: len(f.geofeatures([I["starts"]]))),
        ("ucat_outlets", lambda f: f.ucat_outlets(cs)), ("ucat_outlets_dmm", lambda f: f.ucat_outlets(cs, method="dmm")),
        ("ucat_area", lambda f: f.ucat_area(f.ucat_outlets(cs))), ("ucat_volume", lambda f: f.ucat_volume(f.ucat_outlets(cs), I["elv"], depths=I["depths"])),
        ("subgrid_rivlen", lambda f: f.subgrid_rivlen(f.ucat_outlets(cs))), ("subgrid_rivlen_mask", lambda f: f.subgrid_rivlen(f.ucat_outlets(cs), mask=I["mask"], direction="down")),
        ("subgrid_rivslp", lambda f: f.subgrid_rivslp(f.ucat_outlets(cs), I["elv"])), ("subgrid_rivslp_min", lambda f: f.subgrid_rivslp(f.ucat_outlets(cs), I["elv"], length=1, direction="up", method="min")),
        ("river_depth", lambda f: f.river_depth(I["full"] * 20, I["full"] * 10, rivslp=I["full"] * 1e-3, min_rivdph=0.5)),
        ("river_depth_slp", lambda f: f.river_depth(I["full"] * 20, I["full"] * 10, rivslp=I["slp"], min_rivdph=0.5)),
        ("river_depth_zs", lambda f: f.river_depth(I["full"] * 20, I["full"] * 10, zs=I["elv"], rivdst=f.distnc * 1000.0)),
        ("river_depth_gvf", lambda f: f.river_depth(I["full"] * 20, I["full"] * 10, zs=10.0 + f.distnc * 1.0, rivdst=f.distnc * 1000.0, method="gvf")),
        ("subgrid_rivavg", lambda f: f.subgrid_rivavg(f.ucat_outlets(cs), I["elv"])), ("subgrid_rivmed", lambda f: f.subgrid_rivmed(f.ucat_outlets(cs), I["elv"])),
        ("upscale_ihu", lambda f: f.upscale(cs, method="ihu")), ("upscale_eam_plus", lambda f: f.upscale(cs, method="eam_plus")),
        ("upscale_eam", lambda f: f.upscale(cs, method="eam")), ("upscale_dmm", lambda f: f.upscale(max(cs, 2), method="dmm")),
        ("upscale_user", lambda f: f.upscale(2, uparea=I["full"] + 100)), ("upscale_unknown", lambda f: f.upscale(2, method="nope")),
        ("upscale_error", lambda f: (lambda r: f.upscale_error(r[0], r[1]))(f.upscale(cs))),
        ("to_array_d8", lambda f: f.to_array("d8")), ("to_array_ldd", lambda f: f.to_array("ldd")), ("to_array_nextxy", lambda f: f.to_array("nextxy")),
        ("inflow", lambda f: f.inflow_idxs(I["mask"])), ("outflow", lambda f: f.outflow_idxs(I["mask"])), ("inflow_full", lambda f: f.inflow_idxs(I["mask_full"])),
        ("interbasin", lambda f: f.interbasin_mask(I["mask"])), ("interbasin_empty", lambda f: f.interbasin_mask(I["mask_empty"])),
        ("classify_estuaries", lambda f: f.classify_estuaries(I["elv"], I["full"])),
        # round-2 seeds: unit conversions on a memoising object; a mutator called with repeated locations must leave a usable object
        ("ucat_area_ha", lambda f: f.ucat_area(f.ucat_outlets(cs), unit="ha")), ("ucat_area_km2", lambda f: f.ucat_area(f.ucat_outlets(cs), unit="km2")),
        ("uparea_ha", lambda f: f.upstream_area("ha")), ("uparea_km2_memo", lambda f: f.upstream_area("km2")),
        ("subgrid_rivlen_m", lambda f: f.subgrid_rivlen(f.ucat_outlets(cs), unit="m")),
        # documented option combinations of the iterative upscaling (round-4 seed: a local only set on one of them)
        ("upscale_ihu_no_rivlen", lambda f: f.upscale(cs + 1, method="ihu", opt_rivlen=False)),
        ("upscale_ihu_no_minerr", lambda f: f.upscale(cs + 1, method="ihu", min_error=False)),
        ("upscale_ihu_neither", lambda f: f.upscale(cs + 1, method="ihu", opt_rivlen=False, min_error=False)),
        ("upscale_ihu_niter1", lambda f: f.upscale(cs + 1, method="ihu", niter=1)),
        ("rivavg_mask_up", lambda f: f.subgrid_rivavg(f.ucat_outlets(cs), I["elv"], mask=I["mask_full"], direction="up")),
        ("add_pits_dup_use", lambda f: (f.add_pits(idxs=np.array([I["outl"][0], I["outl"][0]])), f.upstream_area(), f.basins(), f.rank, f.stream_order())),
        ("add_pits_dup_xy_use", lambda f: (f.add_pits(xy=(np.array([I["xs"][0], I["xs"][0]]), np.array([I["ys"][0], I["ys"][0]]))), f.upstream_area(), f.basins())),
        ("add_pits", lambda f: f.add_pits(idxs=I["outl"][:1])), ("add_pits_xy", lambda f: f.add_pits(xy=(I["xs"][:1], I["ys"][:1]))),
        ("repair_loops", lambda f: f.repair_loops()),
        ("set_transform", lambda f: f.set_transform(f.transform, latlon=True)),
        ("dump_load", lambda f: _dump_load(f)),
        ("vector_class", lambda f: _vector(Flwdir, f, I)),
        ("vector_class_starts", lambda f: _vector_starts(Flwdir, f, I)),
        ("from_array_d8", lambda f: pyflwdir.from_array(f.to_array("d8"))), ("from_array_nextxy", lambda f: pyflwdir.from_array(f.to_array("nextxy"), ftype="nextxy")),
        ("from_array_ldd_out", lambda f: pyflwdir.from_array(I["ldd_out"], ftype="ldd")), ("from_array_d8_out", lambda f: pyflwdir.from_array(I["d8_out"], ftype="d8")),
        ("from_array_infer", lambda f: pyflwdir.from_array(f.to_array("ldd"), ftype="infer")),
        ("from_dem", lambda f: pyflwdir.from_dem(I["elv_nodata"], nodata=-9999)), ("from_dem_min", lambda f: pyflwdir.from_dem(I["elv_nodata"], nodata=-9999, outlets="min")),
        ("fill_default", lambda f: dem.fill_depressions(I["elv_nodata"], nodata=-9999)),
        ("fill_depth0", lambda f: dem.fill_depressions(I["elv_nodata"], nodata=-9999, max_depth=0)),
        ("fill_depth2_c4", lambda f: dem.fill_depressions(I["elv_nodata"], nodata=-9999, max_depth=2, connectivity=4)),
        ("fill_idxs_pit", lambda f: dem.fill_depressions(I["elv_nodata"], nodata=-9999, idxs_pit=I["outl"])),
        ("fill_elv_max", lambda f: dem.fill_depressions(I["elv_nodata"], nodata=-9999, elv_max=4.0)),
        ("fill_conn5", lambda f: dem.fill_depressions(I["elv_nodata"], nodata=-9999, connectivity=5)),
        ("slope", lambda f: dem.slope(I["elv_nodata"], nodata=-9999)), ("slope_latlon", lambda f: dem.slope(I["elv_nodata"], nodata=-9999, latlon=True)),
        ("spread2d", lambda f: gis_utils.spread2d(I["obs"], I["mask_full"], 0, I["frc"])), ("spread2d_latlon", lambda f: gis_utils.spread2d(I["obs"], None, 0, None, True, f.transform)),
        # bounding boxes of label maps whose ids are not 1..n (round-6 seed: a list compacted over the labels indexed by label - 1)
        ("region_bounds_ids", lambda f: _bounds_check(regions, f, I["regions"] * 3 + 4)),
        ("basin_bounds_ids", lambda f: _bounds_check(regions, f, f.basins(idxs=I["outl"], ids=np.array([3, 7, 8, 20, 21, 40][:len(I["outl"])], dtype=np.uint32)), api=True)),
        ("region_bounds", lambda f: regions.region_bounds(I["regions"])), ("region_slices", lambda f: regions.region_slices(I["regions"])),
        ("region_sum", lambda f: regions.region_sum(I["full"], I["regions"])), ("region_area", lambda f: regions.region_area(I["regions"])),
        ("region_outlets", lambda f: regions.region_outlets(I["regions"], f.idxs_ds, f.idxs_seq)),
        ("region_dissolve", lambda f: regions.region_dissolve(I["regions"], labels=np.array([1]))),
        ("idxs_to_coords", lambda f: gis_utils.idxs_to_coords(I["starts"], f.transform, f.shape)),
        ("coords_to_idxs", lambda f: gis_utils.coords_to_idxs(I["xs"], I["ys"], f.transform, f.shape)),
        ("reggrid_area", lambda f: gis_utils.reggrid_area(np.array([10.0, 11.0]), np.array([3.0, 4.0, 5.0]))),
        ("index_right_edge", lambda f: f.index(np.array([float(nc)]), np.array([-0.5]))),
        ("index_bottom_edge", lambda f: f.index(np.array([0.5]), np.array([-float(nr)]))),
        ("index_top_left", lambda f: f.index(np.array([0.0]), np.array([0.0]))),
        ("path_xy_right_edge", lambda f: f.path(xy=(np.array([float(nc)]), np.array([-0.5])))),
        ("basins_xy_bottom_edge", lambda f: f.basins(xy=(np.array([0.5, 0.5]), np.array([-0.5, -float(nr)])))),
        ("bad_shape", lambda f: f.accuflux(np.zeros((nr + 1, nc)))), ("bad_index", lambda f: f.path(idxs=np.array([n + 7]))),
        ("bad_strord_type", lambda f: f.stream_order(type="shreve")),
        ("basins_empty_list", lambda f: f.basins(idxs=[])), ("add_pits_empty_list", lambda f: (f.add_pits(idxs=[]), f.idxs_pit)),
        ("bad_unit", lambda f: f.upstream_area("furlong")), ("bad_direction", lambda f: f.fillnodata(I["data"], -9999, direction="sideways")),
    ]
    return ops, I


def _bounds_check(regions, f, lab, api=False):
    """bounding boxes per label against a brute-force scan (identity-like transform x = col, y = -row)"""
    lab = np.asarray(lab)
    lbs, bboxs, total = f.basin_bounds(basins=lab) if api else regions.region_bounds(lab, transform=f.transform)
    want = {}
    for r in range(lab.shape[0]):
        for c in range(lab.shape[1]):
            v = int(lab[r, c])
            if v > 0:
                b = want.setdefault(v, [c, -(r + 1), c + 1, -r])
                b[0], b[1], b[2], b[3] = min(b[0], c), min(b[1], -(r + 1)), max(b[2], c + 1), max(b[3], -r)
    got = {int(l): [float(x) for x in bb] for l, bb in zip(lbs, bboxs)}
    if got != {k: [float(x) for x in v] for k, v in want.items()}:
        raise AssertionError(f"bounding boxes {got} expected {want}")
    return lbs


def _dump_load(f):
    import os
    from common import CACHE
    import pyflwdir
    d = os.path.join(CACHE, "c13")
    os.makedirs(d, exist_ok=True)
    fn = os.path.join(d, f"obj_{os.getpid()}.pkl")
    f.dump(fn)
    g = pyflwdir.FlwdirRaster.load(fn)
    os.remove(fn)
    return g.rank


def _vector(Flwdir, f, I):
    v = Flwdir(f.idxs_ds.copy(), area=I["full"].ravel().astype(np.float32))
    return (v.rank, v.upstream_area(), v.stream_order(), v.path(idxs=v.idxs_pit[:1], direction="up"), v.moving_average(I["data"].ravel(), 1),
            v.accuflux(I["full"].ravel()), v.dem_adjust(I["elv"].ravel()), v.fillnodata(I["data"].ravel(), -9999), v.smooth_rivlen(I["full"].ravel(), 3.0))


def _vector_starts(Flwdir, f, I):
    """start nodes of the 1-D vector class given as array_like (a list, an int), and pits snapped to stream nodes"""
    v = Flwdir(f.idxs_ds.copy())
    p0 = int(v.idxs_pit[0])
    r = (v.path(idxs=[p0], direction="up"), v.path(idxs=p0), v.path(idxs=np.array([p0])))
    start = int(v.idxs_seq[-1])
    v.add_pits(idxs=[start], streams=I["mask"].ravel())
    return r, v.idxs_pit


def impl(case):
    import random, time, warnings
    from common import call_impl
    import pyflwdir
    from affine import Affine
    call = case["call"]
    nr, nc = call["nr"], call["nc"]
    n = nr * nc
    ds = nets.d8_decode(call["flw"], nr, nc)
    tr = Affine(1.0, 0.0, 0.0, 0.0, -1.0, 0.0)
    opsl, I = _build_ops(nr, nc, ds, random.Random(call["seed"]))
    before = {k: (v.copy(), v.dtype, v.shape) for k, v in I.items()}
    bad = []
    nok = 0
    limit = 10
    for name, fn in opsl:
        if call.get("loops") and name not in LOOP_OK:
            continue
        arr = np.array([-1 if x < 0 else x for x in ds], dtype=np.int32)
        flw = pyflwdir.FlwdirRaster(idxs_ds=arr.copy(), shape=(nr, nc), ftype="d8", transform=tr)
        # memoised quantities of the object: a non-mutator may add entries but not change existing ones
        memo = {}
        if name not in ("order_walk", "order_sort") and not call.get("loops"):
            st0, _ = call_impl(lambda f: (f.area, f.distnc, f.rank, f.idxs_seq, f.idxs_pit), flw, timeout=limit)
            memo = {k: np.array(v, copy=True) for k, v in list(flw._cached.items()) if isinstance(v, np.ndarray)}
            memo["_seq"] = np.array(flw._seq, copy=True) if flw._seq is not None else None
            memo["_pit"] = np.array(flw._pit, copy=True) if flw._pit is not None else None
        t0 = time.time()
        with warnings.catch_warnings():
            warnings.simplefilter("ignore")
            st, v = call_impl(fn, flw, timeout=limit)
        dt = time.time() - t0
        if st == "ok" and name in MUST_RAISE:
            bad.append((f"{name}:accepted", f"{name} returned {str(v)[:80]} for arguments outside the documented domain instead of raising ValueError / IndexError"))
        elif st == "ok":
            nok += 1
        elif st in ("ValueError", "IndexError") and name not in MUST_OK:
            pass
        elif st == "timeout":
            bad.append((f"{name}:timeout", f"{name} did not return within {limit} s on a {nr}x{nc} raster"))
        else:
            bad.append((f"{name}:{st.replace('other:', '')}", f"{name} raised {st}: {str(v)[:150]}"))
        for k, (cp, dtp, shp) in before.items():
            a = I[k]
            if a.dtype != dtp or a.shape != shp or not np.array_equal(a, cp, equal_nan=(a.dtype.kind == "f")):
                bad.append((f"{name}:mutates-{k}", f"{name} modified its argument '{k}'"))
                I[k] = cp.copy()
        if not name.startswith(("add_pits", "repair_loops", "order_", "set_transform")):
            for k, cp in memo.items():
                cur = flw._cached.get(k) if not k.startswith("_") else getattr(flw, k)
                if cp is not None and cur is not None and not np.array_equal(np.asarray(cur), cp):
                    bad.append((f"{name}:mutates-memo-{k.strip('_')}", f"{name} changed the object's memoised '{k}'"))
            if not np.array_equal(np.asarray(flw.idxs_ds), arr):
                bad.append((f"{name}:mutates-network", f"{name} changed the object's downstream indices"))
    if not bad:
        return [[0], [nok]]
    sigs = sorted(set(b[0] for b in bad))
    return [[1], sigs, [b[1] for b in bad][:6], [nok]]


def compare(case, i, m):
    return m == [[0]]


def oracle(case, out):
    if out and out[0] == [0]:
        return None
    c = case["call"]
    ctx = f"raster {c['nr']}x{c['nc']} d8={c['flw']} seed={c['seed']}"
    return (out[1][0], f"{out[2][0]} (all: {out[1]}); {ctx}")


def nontrivial(case, out):
    try:
        return out[-1][0] >= 30
    except Exception:
        return False
