#!/usr/bin/env python3
"""Fail-closed translator: declarative parts of /repo/pyflwdir  ->  coq/generated/*.v

Pure `ast` walking (the package is never imported or executed here).  Any construct
outside the small grammar understood below raises GenError with file/line; the caller
reports that as a broken tie between model and code.

Generated files (rewritten only when their content changes, so `make` stays incremental):
  GenTables.v    _ds/_us/_mv/_pv/_all of core_d8 / core_ldd / core_nextxy, core._mv
  GenDrdc.v      core_d8.drdc, core_ldd.drdc as Gallina functions Z -> Z*Z
  GenConv.v      the two remap constructions of core_conversion
  GenDtype.v     index dtype selection thresholds of pyflwdir.from_array
  GenFormulas.v  integer index formulas + unit factors + projected distance/area formulas
  GenCodec.v     from_array / to_array of core_d8 / core_ldd / core_nextxy (tools/gen_codec.py)
  GenUpscale.v   the non-iterative upscaling kernels of upscale.py (tools/gen_upscale.py)
  GenIhu.v       next_outlet, outlet_pix, upscale_check, new_outlet, ihu_optimize_rivlen, ihu_minimize_error, ihu (driver), core._d8_idx / _upstream_d8_idx (tools/gen_ihu.py)
  GenCore.v      rank, loop_indices, upstream_matrix, idxs_seq, _trace, path, snap, _window of core.py (tools/gen_core.py)
  GenHeap.v      dem.fill_depressions (max_depth = -1, no elv_max), gis_utils.spread2d (projected grids), gis_utils.get_edge (tools/gen_heap.py)
  GenSeg.v       streams.streams, subgrid.segment_* / ucat_volume, basins._tributaries / subbasins_pfafstetter (tools/gen_seg.py)
  GenFingerprints.v is not generated; fingerprints go to generated/fingerprints.json
"""
import ast, hashlib, json, os, sys

REPO = os.environ.get("PYFLWDIR_REPO", "/repo")
PKG = os.path.join(REPO, "pyflwdir")
OUT = os.path.join(os.path.dirname(os.path.abspath(__file__)), "..", "coq", "generated")


class GenError(Exception):
    pass


def fail(node, fn, msg):
    raise GenError(f"{fn}:{getattr(node, 'lineno', '?')}: {msg}")


def parse(fn):
    path = os.path.join(PKG, fn)
    with open(path) as f:
        return ast.parse(f.read(), filename=path)


def find_assign(tree, name, fn):
    for node in tree.body:
        if isinstance(node, ast.Assign) and len(node.targets) == 1:
            t = node.targets[0]
            if isinstance(t, ast.Name) and t.id == name:
                return node.value
    raise GenError(f"{fn}: top-level assignment to {name} not found")


def find_def(tree, name, fn):
    for node in tree.body:
        if isinstance(node, ast.FunctionDef) and node.name == name:
            return node
    raise GenError(f"{fn}: def {name} not found")


def is_np_call(node, names):
    return (
        isinstance(node, ast.Call)
        and isinstance(node.func, ast.Attribute)
        and isinstance(node.func.value, ast.Name)
        and node.func.value.id == "np"
        and node.func.attr in names
    )


def const_int(node, fn):
    """integer literal, possibly negated, possibly wrapped in np.<inttype>(...)"""
    if is_np_call(node, ("uint8", "int8", "int32", "intp", "int64", "uint32", "uint64")):
        if len(node.args) != 1:
            fail(node, fn, "cast with !=1 args")
        return const_int(node.args[0], fn)
    if isinstance(node, ast.UnaryOp) and isinstance(node.op, ast.USub):
        return -const_int(node.operand, fn)
    if isinstance(node, ast.Constant) and isinstance(node.value, int) and not isinstance(node.value, bool):
        return node.value
    fail(node, fn, f"expected integer literal, got {ast.dump(node)[:80]}")


def const_array(node, fn):
    """np.array([[...]...], dtype=...) -> nested python lists of ints"""
    if not is_np_call(node, ("array",)):
        fail(node, fn, "expected np.array(...)")
    def lst(n):
        if isinstance(n, ast.List):
            return [lst(e) for e in n.elts]
        return const_int(n, fn)
    return lst(node.args[0])


def zlit(v):
    return f"({v})%Z" if v < 0 else f"{v}%Z"


def coq_list(xs):
    if xs and isinstance(xs[0], list):
        return "[" + "; ".join(coq_list(x) for x in xs) + "]"
    return "[" + "; ".join(zlit(x) for x in xs) + "]"


HEADER = "(* GENERATED from /repo/pyflwdir by tools/gen.py -- do not edit *)\nFrom Coq Require Import ZArith List.\nImport ListNotations.\nOpen Scope Z_scope.\n\n"


# ---------------------------------------------------------------- tables
def gen_tables():
    out = [HEADER]
    d8 = parse("core_d8.py")
    ldd = parse("core_ldd.py")
    nxy = parse("core_nextxy.py")
    core = parse("core.py")
    for pre, tree, fn in (("d8", d8, "core_d8.py"), ("ldd", ldd, "core_ldd.py")):
        ds = const_array(find_assign(tree, "_ds", fn), fn)
        us = const_array(find_assign(tree, "_us", fn), fn)
        mv = const_int(find_assign(tree, "_mv", fn), fn)
        pvn = find_assign(tree, "_pv", fn)
        pv = const_array(pvn, fn) if is_np_call(pvn, ("array",)) else [const_int(pvn, fn)]
        al = const_array(find_assign(tree, "_all", fn), fn)
        for t in (ds, us):
            if len(t) != 3 or any(len(r) != 3 for r in t):
                raise GenError(f"{fn}: _ds/_us is not 3x3")
        out.append(f"Definition {pre}_ds : list (list Z) := {coq_list(ds)}.\n")
        out.append(f"Definition {pre}_us : list (list Z) := {coq_list(us)}.\n")
        out.append(f"Definition {pre}_mv : Z := {zlit(mv)}.\n")
        out.append(f"Definition {pre}_pv : list Z := {coq_list(pv)}.\n")
        out.append(f"Definition {pre}_all : list Z := {coq_list(al)}.\n\n")
    mv = const_int(find_assign(nxy, "_mv", "core_nextxy.py"), "core_nextxy.py")
    pv = const_array(find_assign(nxy, "_pv", "core_nextxy.py"), "core_nextxy.py")
    out.append(f"Definition nextxy_mv : Z := {zlit(mv)}.\n")
    out.append(f"Definition nextxy_pv : list Z := {coq_list(pv)}.\n")
    cmv = const_int(find_assign(core, "_mv", "core.py"), "core.py")
    out.append(f"Definition core_mv : Z := {zlit(cmv)}.\n")
    return "".join(out)


# ---------------------------------------------------------------- drdc
class ExprZ:
    """translate a small integer expression language to Gallina over Z"""

    def __init__(self, fn, env):
        self.fn = fn
        self.env = env  # python name -> coq name

    def expr(self, n):
        if isinstance(n, ast.Constant) and isinstance(n.value, int) and not isinstance(n.value, bool):
            return zlit(n.value)
        if isinstance(n, ast.Name):
            if n.id not in self.env:
                fail(n, self.fn, f"unknown name {n.id}")
            return self.env[n.id]
        if isinstance(n, ast.UnaryOp) and isinstance(n.op, ast.USub):
            return f"(- {self.expr(n.operand)})"
        if is_np_call(n, ("uint8", "int8", "int32", "intp", "int64")) or (
            isinstance(n, ast.Call) and isinstance(n.func, ast.Name) and n.func.id == "int"
        ):
            # casts are the identity on the legal value range (stated in DESIGN.md: the
            # drdc lemmas are about the legal codes, which fit every type involved)
            if len(n.args) != 1:
                fail(n, self.fn, "cast arity")
            return self.expr(n.args[0])
        if is_np_call(n, ("log2",)):
            return f"(Z.log2 {self.expr(n.args[0])})"
        if isinstance(n, ast.Call) and isinstance(n.func, ast.Name) and n.func.id == "abs":
            return f"(Z.abs {self.expr(n.args[0])})"
        if isinstance(n, ast.BinOp):
            ops = {ast.Add: "+", ast.Sub: "-", ast.Mult: "*", ast.FloorDiv: "/", ast.Mod: "mod"}
            for k, v in ops.items():
                if isinstance(n.op, k):
                    return f"({self.expr(n.left)} {v} {self.expr(n.right)})"
        fail(n, self.fn, f"unsupported expression {ast.dump(n)[:100]}")

    def cond(self, n):
        if isinstance(n, ast.Compare) and len(n.ops) == 1:
            ops = {ast.LtE: "<=?", ast.GtE: ">=?", ast.Lt: "<?", ast.Gt: ">?", ast.Eq: "=?"}
            for k, v in ops.items():
                if isinstance(n.ops[0], k):
                    return f"({self.expr(n.left)} {v} {self.expr(n.comparators[0])})"
            if isinstance(n.ops[0], ast.NotEq):
                return f"(negb ({self.expr(n.left)} =? {self.expr(n.comparators[0])}))"
        if isinstance(n, ast.BoolOp):
            op = "&&" if isinstance(n.op, ast.And) else "||"
            return "(" + f" {op} ".join(self.cond(v) for v in n.values) + ")%bool"
        fail(n, self.fn, f"unsupported condition {ast.dump(n)[:100]}")


def gen_drdc_one(pre, fn):
    tree = parse(fn)
    f = find_def(tree, "drdc", fn)
    if [a.arg for a in f.args.args] != ["dd"]:
        fail(f, fn, "drdc signature changed")
    ez = ExprZ(fn, {"dd": "dd", "dr": "dr", "dc": "dc"})

    def block(stmts):
        if not stmts:
            return "(dr, dc)"
        s, rest = stmts[0], stmts[1:]
        if isinstance(s, ast.Expr) and isinstance(s.value, ast.Constant) and isinstance(s.value.value, str):
            return block(rest)
        if isinstance(s, ast.Return):
            v = s.value
            if not (isinstance(v, ast.Tuple) and [getattr(e, "id", None) for e in v.elts] == ["dr", "dc"]):
                fail(s, fn, "drdc must return (dr, dc)")
            return "(dr, dc)"
        if isinstance(s, ast.Assign) and len(s.targets) == 1:
            t = s.targets[0]
            if isinstance(t, ast.Name) and t.id in ("dr", "dc"):
                return f"let {t.id} := {ez.expr(s.value)} in\n  {block(rest)}"
            if isinstance(t, ast.Tuple) and [getattr(e, "id", None) for e in t.elts] == ["dr", "dc"]:
                if not (isinstance(s.value, ast.Tuple) and len(s.value.elts) == 2):
                    fail(s, fn, "tuple assignment shape")
                a, b = s.value.elts
                return f"let '(dr, dc) := ({ez.expr(a)}, {ez.expr(b)}) in\n  {block(rest)}"
            fail(s, fn, "unsupported assignment target")
        if isinstance(s, ast.If):
            return (
                f"let '(dr, dc) := (if {ez.cond(s.test)} then ({block(s.body)}) else ({block(s.orelse)})) in\n  {block(rest)}"
            )
        fail(s, fn, f"unsupported statement {type(s).__name__}")

    return f"Definition {pre}_drdc (dd : Z) : Z * Z :=\n  {block(f.body)}.\n\n"


def gen_drdc():
    return HEADER + gen_drdc_one("d8", "core_d8.py") + gen_drdc_one("ldd", "core_ldd.py")


# ---------------------------------------------------------------- conversion
def gen_conv():
    fn = "core_conversion.py"
    tree = parse(fn)
    out = [HEADER, "From PFG Require Import GenTables.\n\n",
           "Definition zip_tables (a b : list (list Z)) : list (Z * Z) := combine (concat a) (concat b).\n",
           "Fixpoint assoc (k : Z) (l : list (Z * Z)) : option Z :=\n  match l with [] => None | (a, b) :: t => if a =? k then Some b else assoc k t end.\n",
           "(* dict semantics: later bindings win; `update` pairs are consulted first *)\n",
           "Definition remap_get (upd base : list (Z * Z)) (dflt k : Z) : Z :=\n  match assoc k upd with Some v => v | None =>\n  match assoc k (rev base) with Some v => v | None => dflt end end.\n\n"]

    def mod_attr(n, fn_):
        # core_d8._ds  or  core_d8._pv[1]
        if isinstance(n, ast.Subscript):
            base = mod_attr(n.value, fn_)
            idx = const_int(n.slice, fn_)
            return f"(nth {idx} {base} 0)"
        if isinstance(n, ast.Attribute) and isinstance(n.value, ast.Name) and n.value.id in ("core_d8", "core_ldd"):
            pre = "d8" if n.value.id == "core_d8" else "ldd"
            return f"{pre}{n.attr}"
        fail(n, fn_, "unsupported table reference")

    def scalar(n, fn_):
        s = mod_attr(n, fn_)
        # ldd _pv is a scalar in the source but a 1-list in GenTables
        if s == "ldd_pv":
            return "(nth 0 ldd_pv 0)"
        return s

    for name, src, dst in (("d8_to_ldd", "core_d8", "core_ldd"), ("ldd_to_d8", "core_ldd", "core_d8")):
        f = find_def(tree, name, fn)
        body = [s for s in f.body if not (isinstance(s, ast.Expr) and isinstance(s.value, ast.Constant))]
        if len(body) != 3:
            fail(f, fn, f"{name}: expected 3 statements")
        a0, upd, ret = body
        # remap = {k: v for (k, v) in zip(A._ds.flatten(), B._ds.flatten())}
        try:
            comp = a0.value
            z = comp.generators[0].iter
            assert isinstance(comp, ast.DictComp) and z.func.id == "zip"
            ta = z.args[0].func.value
            tb = z.args[1].func.value
            assert z.args[0].func.attr == "flatten" and z.args[1].func.attr == "flatten"
            A, B = mod_attr(ta, fn), mod_attr(tb, fn)
            assert isinstance(comp.key, ast.Name) and isinstance(comp.value, ast.Name)
            kt = [e.id for e in comp.generators[0].target.elts]
            assert kt == [comp.key.id, comp.value.id]
        except (AssertionError, AttributeError, IndexError):
            fail(a0, fn, f"{name}: remap construction not understood")
        # remap.update({k1: v1, k2: v2})
        try:
            call = upd.value
            assert call.func.attr == "update" and call.func.value.id == "remap"
            d = call.args[0]
            pairs = [(scalar(k, fn), scalar(v, fn)) for k, v in zip(d.keys, d.values)]
        except (AssertionError, AttributeError, IndexError):
            fail(upd, fn, f"{name}: remap.update not understood")
        # return np.vectorize(lambda x: remap.get(x, DEFAULT))(flwdir)
        try:
            lam = ret.value.func.args[0]
            get = lam.body
            assert get.func.attr == "get" and get.func.value.id == "remap"
            assert get.args[0].id == lam.args.args[0].arg
            dflt = scalar(get.args[1], fn)
        except (AssertionError, AttributeError, IndexError):
            fail(ret, fn, f"{name}: return expression not understood")
        # dict.update: later keys win -> consult in reverse order
        ps = "; ".join(f"({k}, {v})" for k, v in reversed(pairs))
        out.append(f"Definition {name}_base : list (Z * Z) := zip_tables {A} {B}.\n")
        out.append(f"Definition {name}_upd : list (Z * Z) := [{ps}].\n")
        out.append(f"Definition {name}_default : Z := {dflt}.\n")
        out.append(f"Definition {name} (x : Z) : Z := remap_get {name}_upd {name}_base {name}_default x.\n\n")
    return "".join(out)


# ---------------------------------------------------------------- dtype thresholds
def gen_dtype():
    fn = "pyflwdir.py"
    tree = parse(fn)
    f = find_def(tree, "from_array", fn)
    target = None
    for s in ast.walk(f):
        if isinstance(s, ast.Assign) and isinstance(s.targets[0], ast.Name) and s.targets[0].id == "dtype":
            target = s
    if target is None:
        raise GenError(f"{fn}: dtype selection not found in from_array")
    names = {"int32": 0, "uint32": 1, "uint64": 2, "int64": 3, "intp": 3}

    def tr(n):
        if isinstance(n, ast.IfExp):
            c = n.test
            if not (isinstance(c, ast.Compare) and isinstance(c.left, ast.Name) and c.left.id == "n"
                    and len(c.ops) == 1 and isinstance(c.ops[0], (ast.Lt, ast.LtE))):
                fail(n, fn, "dtype test not of the form n < K")
            k = const_int(c.comparators[0], fn)
            op = "<?" if isinstance(c.ops[0], ast.Lt) else "<=?"
            return f"(if n {op} {k} then {tr(n.body)} else {tr(n.orelse)})"
        if isinstance(n, ast.Attribute) and isinstance(n.value, ast.Name) and n.value.id == "np" and n.attr in names:
            return f"{names[n.attr]}"
        fail(n, fn, "dtype expression not understood")

    return (HEADER + "(* 0 = int32, 1 = uint32, 2 = uint64, 3 = int64 *)\n"
            + f"Definition select_dtype (n : Z) : Z :=\n  {tr(target.value)}.\n")


# ---------------------------------------------------------------- fingerprints
def fingerprints():
    fps = {}
    for fn in sorted(os.listdir(PKG)):
        if not fn.endswith(".py"):
            continue
        tree = parse(fn)
        for node in ast.walk(tree):
            if isinstance(node, ast.FunctionDef):
                # normalised: no docstrings, no positions
                body = [s for s in node.body if not (isinstance(s, ast.Expr) and isinstance(s.value, ast.Constant)
                                                      and isinstance(s.value.value, str))]
                dump = ast.dump(ast.Module(body=body, type_ignores=[]), include_attributes=False) + ast.dump(node.args)
                fps[f"{fn[:-3]}.{node.name}"] = hashlib.sha256(dump.encode()).hexdigest()[:16]
    return fps


GENERATORS = {
    "GenTables.v": gen_tables,
    "GenDrdc.v": gen_drdc,
    "GenConv.v": gen_conv,
    "GenDtype.v": gen_dtype,
}


def write_if_changed(path, text):
    if os.path.exists(path):
        with open(path) as f:
            if f.read() == text:
                return False
    tmp = path + ".tmp"
    with open(tmp, "w") as f:
        f.write(text)
    os.replace(tmp, path)
    return True


def main():
    os.makedirs(OUT, exist_ok=True)
    errors, changed = [], []
    for name, g in GENERATORS.items():
        try:
            if write_if_changed(os.path.join(OUT, name), g()):
                changed.append(name)
        except (GenError, SyntaxError) as e:
            errors.append(f"{name}: {e}")
    try:
        write_if_changed(os.path.join(OUT, "fingerprints.json"), json.dumps(fingerprints(), indent=1, sort_keys=True))
    except (GenError, SyntaxError) as e:
        errors.append(f"fingerprints: {e}")
    print(json.dumps({"changed": changed, "errors": errors}))
    return 1 if errors else 0


if __name__ == "__main__":
    sys.path.insert(0, os.path.dirname(os.path.abspath(__file__)))
    sys.modules.setdefault("gen", sys.modules["__main__"])
    import gen_more  # noqa: F401  (registers more generators)
    import gen_loops  # noqa: F401
    import gen_codec  # noqa: F401  (raster codecs -> GenCodec.v)
    import gen_upscale  # noqa: F401  (non-iterative upscaling kernels -> GenUpscale.v)
    import gen_ihu  # noqa: F401  (iterative stages of upscale.ihu -> GenIhu.v)
    import gen_core  # noqa: F401  (while-loop kernels of core.py -> GenCore.v)
    import gen_seg  # noqa: F401  (streams, segment_*, ucat_volume, Pfafstetter -> GenSeg.v)
    import gen_heap  # noqa: F401  (priority-queue kernels fill_depressions, spread2d, get_edge -> GenHeap.v)
    sys.exit(main())
