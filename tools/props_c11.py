"""C11 — path tracing and snapping."""
from fractions import Fraction
import numpy as np
import nets

PID = "C11"
THEOREMS = ["trace_spec", "stops_def", "trace_total", "trace_in_bounds", "upstream_follows_main", "gen__trace_eq", "gen_path_eq", "gen_snap_eq"]
RULE = ("closed loop-free graphs on n<=4 cells (n<=5 thorough) x every start cell x masks x max_length in "
        "{None,0,0.5,1,1.5,2,3} through core._trace/path/snap and Flwdir.path; rasters to 5x5 through "
        "FlwdirRaster.path/snap with unit 'cell' and unit 'm' on a 3-4-5 cell (all sums exact), both directions, "
        "starts given as indices and as coordinates; cyclic graphs with a mask or max_length; non-trivial = path "
        "has more than one cell")
ASSUMPTIONS = ["lengths are integers in the model; half-integer maximum lengths are scaled by 2 on both sides",
               "on a cyclic network without mask or max_length the real loop does not terminate: outside the domain"]
MAXLENS = [None, 0, 0.5, 1, 1.5, 2, 3]


def _scaled(ml):
    """(hasmax, scaled maxlen, unit step)"""
    if ml is None:
        return 0, 0, 1
    f = Fraction(ml)
    return (1, int(f * 2), 2) if f.denominator == 2 else (1, int(f), 1)


def cases(tier, rng):
    maxn = 4 if tier == "quick" else 5
    for n in range(2, maxn + 1):
        for ds in nets.all_graphs(n):
            if not (nets.is_wf(ds) and nets.pits(ds)):
                continue
            loopfree = nets.is_loopfree(ds)
            if n == 5 and rng.random() > 0.15:
                continue
            for start in range(n):
                if ds[start] < 0 and rng.random() < 0.7:
                    continue
                ml = rng.choice(MAXLENS)
                hm = rng.randrange(2)
                mask = [int(rng.random() < 0.35) for _ in range(n)] if hm else []
                if not loopfree and ml is None:
                    ml = rng.choice(MAXLENS[1:])
                has, sml, unit = _scaled(ml)
                api = rng.choice(["kernel", "kernel", "vec", "snap"])
                yield {"k": 1101, "args": [ds, [hm], mask, [has], [sml], [start], [0], [unit], [], []],
                       "call": {"api": api, "ml": ml}, "group": f"exh-n{n}-{'loopfree' if loopfree else 'cyclic'}-{api}"}
    for t in range(60 if tier == "quick" else 600):
        nr, nc = rng.randint(2, 6), rng.randint(1, 5)
        flw = nets.random_d8_raster(rng, nr, nc, p_nodata=rng.choice([0, 0.1]))
        if nets.pits(nets.d8_decode(flw, nr, nc)):
            yield {"k": 1100, "args": [[t]], "call": {"api": "geo", "nr": nr, "nc": nc, "flw": flw, "seed": rng.randrange(10**9), "ml": None}, "group": "geographic-m"}
            if t == 0:
                yield {"k": 1100, "args": [[200000]], "call": {"api": "geo", "startdtype": True, "nr": 1, "nc": 300, "flw": [], "seed": 1, "ml": None}, "group": "start-array-dtype"}
            if t % 2 == 0:
                # NEXTXY networks whose links skip cells, on projected grids: a step is as long as the distance between the two
                # cell centres (round-6 seed: far links measured as one cell)
                yield {"k": 1100, "args": [[100000 + t]], "call": {"api": "geo", "far": True, "nr": nr, "nc": nc, "flw": flw, "seed": rng.randrange(10**9), "ml": None}, "group": "projected-far-links-m"}
    nras = 600 if tier == "quick" else 4000
    for t in range(nras):
        nr, nc = rng.randint(1, 5), rng.randint(2, 5)
        flw = nets.random_d8_raster(rng, nr, nc, p_nodata=rng.choice([0, 0.15]))
        ds = nets.d8_decode(flw, nr, nc)
        valid = [i for i in range(nr * nc) if ds[i] >= 0]
        if not nets.pits(ds) or not valid:
            continue
        start = rng.choice(valid)
        hm = rng.randrange(2)
        mask = [int(rng.random() < 0.25) for _ in range(nr * nc)] if hm else []
        unit_m = rng.random() < 0.5
        direction = rng.choice(["down", "up"])
        xres, yres = rng.choice([(3, -4), (4, 3), (-3, -4)]) if unit_m else (1, -1)
        if unit_m:
            ml = rng.choice([None, 0, 3, 4, 5, 7, 8, 12, 20])
            has, sml, unit = (0, 0, 1) if ml is None else (1, ml, 1)
        else:
            ml = rng.choice(MAXLENS)
            has, sml, unit = _scaled(ml)
        k = 1101 if direction == "down" else 1102
        yield {"k": k, "args": [ds, [hm], mask, [has], [sml], [start], [1 if unit_m else 0], [unit], [nc, xres, yres, 5], nets.topo_order(ds)],
               "call": {"api": rng.choice(["ras-path", "ras-snap"]), "ml": ml, "nr": nr, "nc": nc, "flw": flw, "xy": rng.random() < 0.4,
                        "unit_m": unit_m, "direction": direction, "xres": xres, "yres": yres, "layout": rng.choice(["C", "C", "F", "T", "S"])},
               "group": f"raster-{direction}-{'m' if unit_m else 'cell'}"}


def _geo(call):
    """geographic grids: reported length = sum of the per-step centre-to-centre distances, path stops
    before the step that would exceed max_length; compared with gis_utils.distance step by step"""
    import random
    import pyflwdir
    from affine import Affine
    from pyflwdir import gis_utils as g
    rng = random.Random(call["seed"])
    nr, nc = call["nr"], call["nc"]
    if call.get("startdtype"):
        # the element type of the start-cell array must not matter (defect fixed after 0dcb6da: snap stored the end cell in an
        # array of the START array's type, so uint8 / int8 starts wrapped or overflowed beyond cell 255 / 127)
        ncols = 300
        codes = np.full((1, ncols), 1, dtype=np.uint8); codes[0, -1] = 0
        flwl = pyflwdir.from_array(codes, ftype="d8")
        bad = []
        for dt in (np.uint8, np.int8, np.uint16, np.int16, np.int64):
            for start in (5, 100):
                try:
                    p_, _ = flwl.path(idxs=np.array([start], dtype=dt))
                    s_, d_ = flwl.snap(idxs=np.array([start], dtype=dt))
                    if int(p_[0][-1]) != ncols - 1 or int(s_[0]) != ncols - 1 or float(d_[0]) != ncols - 1 - start:
                        bad.append(f"start cells of type {np.dtype(dt).name}: path ends in {int(p_[0][-1])}, snap gives {int(s_[0])} after {float(d_[0])}, expected {ncols - 1}")
                except Exception as e:       # noqa
                    bad.append(f"start cells of type {np.dtype(dt).name}: {type(e).__name__}: {str(e)[:80]}")
        return [[0]] if not bad else [[1], bad[:3]]
    if call.get("far"):
        import math
        n = nr * nc
        # every cell links to an arbitrary cell with a lower number (or is a pit): loop-free, links of any length
        ds = [(i if (i == 0 or rng.random() < 0.2) else rng.randrange(i)) for i in range(n)]
        nx = np.array([(-9 if ds[i] == i else ds[i] % nc + 1) for i in range(n)], dtype=np.int32).reshape(nr, nc)
        ny = np.array([(-9 if ds[i] == i else ds[i] // nc + 1) for i in range(n)], dtype=np.int32).reshape(nr, nc)
        xres, yres_ = rng.choice([(30.0, -30.0), (100.0, -50.0), (2.0, 3.0), (0.5, -0.25)])
        trp = Affine(xres, 0.0, rng.choice([0.0, 400000.0]), 0.0, yres_, rng.choice([0.0, 5200000.0]))
        flwp = pyflwdir.from_array(np.stack([nx, ny]), ftype="nextxy", transform=trp, latlon=False)
        badp = []
        for start in rng.sample(range(n), min(4, n)):
            for ml in (None, rng.uniform(1, 6) * abs(xres) * 3):
                paths, dists = flwp.path(idxs=np.array([start]), max_length=ml, unit="m")
                exp, d, cur = [start], 0.0, start
                while ds[cur] != cur:
                    j = ds[cur]
                    step = math.hypot((j // nc - cur // nc) * yres_, (j % nc - cur % nc) * xres)
                    if ml is not None and d + step > ml:
                        break
                    d += step
                    cur = j
                    exp.append(cur)
                p = [int(x) for x in paths[0]]
                if p != exp or not (abs(float(dists[0]) - d) <= 1e-9 * max(1.0, d)):
                    badp.append(f"projected path over far links from {start} max_length={ml}: {p} {float(dists[0])} expected {exp} {d}")
                s_idx, s_d = flwp.snap(idxs=np.array([start]), max_length=ml, unit="m")
                if int(s_idx[0]) != exp[-1] or not (abs(float(s_d[0]) - d) <= 1e-6 * max(1.0, d)):      # snap reports binary32 lengths
                    badp.append(f"projected snap over far links from {start}: {int(s_idx[0])} {float(s_d[0])} expected {exp[-1]} {d}")
        return [[0]] if not badp else [[1], badp[:3]]
    ds = nets.d8_decode(call["flw"], nr, nc)
    yres = rng.choice([-1.0, -0.5, 0.25, 1.0])
    north = rng.uniform(-60, 60)
    tr = Affine(rng.choice([1.0, 0.5]), 0.0, rng.uniform(-100, 100), 0.0, yres, north)
    flw = pyflwdir.from_array(np.array(call["flw"], dtype=np.uint8).reshape(nr, nc), ftype="d8", transform=tr, latlon=True)
    bad = []
    valid = [i for i in range(nr * nc) if ds[i] >= 0]
    for start in rng.sample(valid, min(4, len(valid))):
        for ml in (None, rng.uniform(5e4, 4e5)):
            paths, dists = flw.path(idxs=np.array([start]), max_length=ml, unit="m")
            p = [int(x) for x in paths[0]]
            exp, d, cur = [start], 0.0, start
            while ds[cur] != cur:
                step = g.distance(cur, ds[cur], nc, True, tr)
                if ml is not None and d + step > ml:
                    break
                d += step
                cur = ds[cur]
                exp.append(cur)
            if p != exp or float(dists[0]) != d:
                bad.append(f"geographic path from {start} max_length={ml}: {p} {float(dists[0])} expected {exp} {d}")
            s_idx, s_d = flw.snap(idxs=np.array([start]), max_length=ml, unit="m")
            if int(s_idx[0]) != exp[-1] or not (abs(float(s_d[0]) - d) <= 1e-6 * max(1.0, d)):
                bad.append(f"geographic snap from {start}: {int(s_idx[0])} {float(s_d[0])} expected {exp[-1]} {d}")
    return [[0]] if not bad else [[1], bad[:3]]


def impl(case):
    from common import call_impl
    if case["k"] == 1100:
        return _geo(case["call"])
    from implutil import ds_array, make_vector, idx_list
    from pyflwdir import core
    import pyflwdir
    from affine import Affine
    k, a = case["k"], case["args"]
    call = case["call"]
    ds = a[0]
    n = len(ds)
    mask = np.array(a[2], dtype=bool) if a[1][0] else None
    ml = call["ml"]
    unit = a[7][0]
    api = call["api"]

    def fin(st, path, dist):
        if st == "timeout":
            return [[2]]
        if st != "ok":
            return [[-2], [st]]
        d = float(dist) * unit
        if d != int(d):
            return [[-3], ["non-integer length"]]
        return [[0], idx_list(path), [int(d)]]
    if api == "kernel":
        st, v = call_impl(core._trace, a[5][0], ds_array(ds), mask=mask, max_length=ml, timeout=5)
        return fin(st, v[0] if st == "ok" else None, v[1] if st == "ok" else None)
    if api == "vec":
        flw = make_vector(ds)
        st, v = call_impl(flw.path, idxs=np.array([a[5][0]], dtype=np.int32), mask=mask, max_length=ml, timeout=5)
        return fin(st, v[0][0] if st == "ok" else None, v[1][0] if st == "ok" else None)
    if api == "snap":
        st, v = call_impl(core.snap, np.array([a[5][0]], dtype=np.int32), ds_array(ds), mask=mask, max_length=ml, timeout=5)
        if st != "ok":
            return fin(st, None, None)
        return [[0], idx_list(v[0]), [int(float(v[1][0]) * unit)]]
    start = a[5][0]
    # every other raster lies far from the origin (UTM-like coordinates: binary32 could not tell its cells apart, round-5 seed)
    x0, y0 = (10.0, 20.0) if (start + n) % 2 else (400000.0, 9000000.0)
    tr = Affine(float(call["xres"]), 0.0, x0, 0.0, float(call["yres"]), y0)
    flw = pyflwdir.from_array(np.array(call["flw"], dtype=np.uint8).reshape(call["nr"], call["nc"]), ftype="d8", transform=tr)
    from implutil import layout
    m2 = layout(mask.reshape(call["nr"], call["nc"]), call.get("layout")) if mask is not None else None
    kw = dict(mask=m2, max_length=ml, unit="m" if call["unit_m"] else "cell", direction=call["direction"])
    # several start cells in one call, not in ascending order and with a repeat: the i-th result belongs to the i-th start
    # (round-5 seed); the first one is compared with the model, the others with single-start calls
    others = [i for i in range(n) if ds[i] >= 0 and i != start]
    starts = [start] if (start + len(others)) % 3 == 0 or not others else [start, others[(start * 7) % len(others)], start]

    def where(cells):
        if call["xy"]:
            return {"xy": (np.array([x0 + call["xres"] * (i % call["nc"] + 0.25) for i in cells]),
                           np.array([y0 + call["yres"] * (i // call["nc"] + 0.75) for i in cells]))}
        return {"idxs": np.array(cells)}
    fn = flw.path if api == "ras-path" else flw.snap
    st, v = call_impl(fn, timeout=5, **kw, **where(starts))
    if st != "ok":
        return fin(st, None, None)
    if len(v[0]) != len(starts) or len(v[1]) != len(starts):
        return [[-3], [f"{len(v[0])} results for {len(starts)} start cells"]]
    one = (lambda j: ([int(x) for x in v[0][j]], float(v[1][j]))) if api == "ras-path" else (lambda j: (int(v[0][j]), float(v[1][j])))
    if len(starts) == 3:
        if one(0) != one(2):
            return [[-3], ["a repeated start cell gives two different results"]]
        st1, v1 = call_impl(fn, timeout=5, **kw, **where([starts[1]]))
        v_ = v
        if st1 != "ok":
            return [[-3], [f"second start cell alone: {st1}"]]
        v = v1
        single = one(0)
        v = v_
        if one(1) != single:
            return [[-3], [f"the result for the second of three start cells {one(1)} differs from the single-start call {single}"]]
    # snap is the end of the path for the same arguments, also for limits that binary32 cannot hold and that lie just below /
    # above a reachable length (round-6 seed: one of the two rounded the limit)
    if ml is not None and ml > 0:
        for lim in (ml - 1e-7, ml + 1e-7, ml * 1.0000001):
            kw2 = dict(kw, max_length=lim)
            sp, vp = call_impl(flw.path, timeout=5, **kw2, **where([start]))
            ss, vs = call_impl(flw.snap, timeout=5, **kw2, **where([start]))
            if sp != ss or (sp == "ok" and (int(vp[0][0][-1]) != int(vs[0][0]) or float(vp[1][0]) != float(vs[1][0]))):
                return [[-3], [f"snap and path disagree for max_length={lim!r}: path ends at {int(vp[0][0][-1]) if sp == 'ok' else sp} "
                               f"after {float(vp[1][0]) if sp == 'ok' else ''}, snap gives {int(vs[0][0]) if ss == 'ok' else ss} {float(vs[1][0]) if ss == 'ok' else ''}"]]
    if api == "ras-path":
        return fin(st, v[0][0], v[1][0])
    return [[0], idx_list(v[0][:1]), [int(float(v[1][0]) * unit)]]


def _expected(case):
    if case["k"] == 1100:
        return [[0]]
    a = case["args"]
    call = case["call"]
    ds = a[0]
    n = len(ds)
    mask = a[2] if a[1][0] else [0] * n
    has, M, start = a[3][0], a[4][0], a[5][0]
    unit = a[7][0]
    if case["k"] == 1102:
        from props_c08 import _uparea, _main
        nxt = _main(ds, _uparea(ds), 0)
    else:
        nxt = ds

    def step(i, j):
        if a[6][0] == 0:
            return unit
        nc, xres, yres, hyp = a[8]
        dr, dc = abs(j // nc - i // nc), abs(j % nc - i % nc)
        return abs(xres) if dr == 0 else abs(yres) if dc == 0 else hyp
    path, dist, cur = [start], 0, start
    for _ in range(4 * n + 4):
        if mask[cur]:
            break
        nx = nxt[cur]
        if nx == cur or nx < 0:
            break
        d = step(cur, nx)
        if has and dist + d > M:
            break
        dist += d
        cur = nx
        path.append(cur)
    else:
        return [[2]]
    return [[0], path, [dist]]


def compare(case, i, m):
    if case["call"]["api"] in ("snap", "ras-snap") and m and m[0] == [0] and i and i[0] == [0]:
        return i == [[0], [m[1][-1]], m[2]]
    return i == m


def oracle(case, out):
    if case["k"] == 1100:
        return None if out == [[0]] else ("trace:geographic-length", f"{out[1]}")
    if out and out[0] in ([-2], [-3]):
        return ("trace:unexpected-outcome", f"{out}")
    exp = _expected(case)
    if case["call"]["api"] in ("snap", "ras-snap") and exp[0] == [0]:
        exp = [[0], [exp[1][-1]], exp[2]]
    return None if out == exp else (f"trace:{case['call']['api']}", f"expected {exp} got {out}")


def nontrivial(case, out):
    if case["k"] == 1100:
        return True
    return len(out) > 1 and (len(out[1]) > 1 or case["call"]["api"].endswith("snap"))
