"""Shared machinery of every check: build, proof-obligation check, correspondence run,
decision rule, evidence and replay files.  See DESIGN.md sections 2, 3 and 9."""
import fcntl, hashlib, json, os, random, re, signal, subprocess, sys, time, traceback

VERIF = os.path.abspath(os.path.join(os.path.dirname(os.path.abspath(__file__)), ".."))
REPO = os.environ.get("PYFLWDIR_REPO", "/repo")
COQ = os.path.join(VERIF, "coq")
OCAML = os.path.join(VERIF, "ocaml")
CACHE = os.path.join(VERIF, ".cache")
EVID = os.path.join(VERIF, "evidence")
REPLAYS = os.path.join(VERIF, "replays")

AXIOM_WHITELIST = {
    # stdlib Reals (C17 formulas over R)
    "ClassicalDedekindReals.sig_forall_dec",
    "ClassicalDedekindReals.sig_not_dec",
    "FunctionalExtensionality.functional_extensionality_dep",
    "Classical_Prop.classic",
}

TRUSTED_BASE = [
    "Coq 8.16.1 kernel (coqc, full .vo build; vm_compute for finite table lemmas; no native_compute)",
    "tools/gen.py + gen_more.py + gen_loops.py + gen_codec.py + gen_upscale.py + gen_core.py + gen_seg.py + gen_heap.py + gen_ihu.py: fail-closed ast translators of tables/constants/formulas, of 21 loop kernels (accuflux, accuflux_ds, main_upstream, upstream_count, upstream_sum, fillnodata_upstream, fillnodata_downstream, stream_order, strahler_order, height_above_nearest_drain, stream_distance, ucat_area, subbasins_area, subbasins_streamorder, floodplains, pit_indices, flwdir_tuples, inflow_idxs, outflow_idxs, headwater_indices, confluence_indices) of the six raster codecs (from_array / to_array of D8, LDD, NEXTXY; gen_codec.py) of the ten non-iterative upscaling kernels (gen_upscale.py) and of eight while-loop kernels of core.py (rank, loop_indices, upstream_matrix, idxs_seq, _trace, path, snap, _window; gen_core.py), of streams / segment_* / ucat_volume / Pfafstetter (gen_seg.py) and of fill_depressions / spread2d / get_edge (gen_heap.py) and of the iterative stages of upscale.ihu (gen_ihu.py) into coq/generated; the regenerated definitions are proved equal to the hand models (Gen*Eq.v); narrow integer element types are rendered as Z (wrap-around not modelled)",
    "extraction (ExtrOcamlBasic only, no Extract Constant of our own) + ocaml/driver.ml integer conversion",
    "tools/*.py correspondence harness: calls the implementation and canonicalises outputs",
    "all other kernel loop bodies are modelled by hand and tied by correspondence, not translated from source",
]


def log(*a):
    print(*a, file=sys.stderr, flush=True)


# ------------------------------------------------------------------ build
class BuildLock:
    def __enter__(self):
        os.makedirs(CACHE, exist_ok=True)
        self.f = open(os.path.join(CACHE, "build.lock"), "w")
        fcntl.flock(self.f, fcntl.LOCK_EX)
        return self

    def __exit__(self, *a):
        fcntl.flock(self.f, fcntl.LOCK_UN)
        self.f.close()


def sh(cmd, cwd=None, timeout=1800, env=None):
    p = subprocess.run(cmd, shell=True, cwd=cwd, stdout=subprocess.PIPE, stderr=subprocess.STDOUT,
                       timeout=timeout, text=True, env=env)
    return p.returncode, p.stdout


def lint_sources():
    """no Admitted/admit/Axiom/Parameter/... anywhere in the development"""
    bad = []
    pat = re.compile(r"\b(Admitted|admit|Axiom|Axioms|Parameter|Parameters|Conjecture|Abort All|bypass_check)\b|Unset Guard|Unset Positivity|Unset Universe|Admit Obligations|type-in-type")
    for root in ("theories", "props", "generated", "findings", "extract"):
        d = os.path.join(COQ, root)
        if not os.path.isdir(d):
            continue
        for fn in sorted(os.listdir(d)):
            if fn.endswith(".v"):
                txt = open(os.path.join(d, fn)).read()
                txt = re.sub(r"\(\*.*?\*\)", "", txt, flags=re.S)
                for m in pat.finditer(txt):
                    bad.append(f"{root}/{fn}: {m.group(0)}")
                # Variable / Hypothesis / Context outside a Section would declare an axiom
                depth = 0
                for sent in re.split(r"\.\s", txt):
                    t = sent.strip()
                    if re.match(r"(Section|Module)\b", t) and ":=" not in t:
                        depth += 1
                    elif re.match(r"End\b", t):
                        depth = max(0, depth - 1)
                    elif depth == 0 and re.match(r"(Local\s+|Global\s+)?(Variable|Variables|Hypothesis|Hypotheses|Context)\b", t):
                        bad.append(f"{root}/{fn}: {t[:40]} outside a section")
    for extra in ("_CoqProject",):
        txt = open(os.path.join(COQ, extra)).read()
        if "impredicative-set" in txt or "type-in-type" in txt:
            bad.append(f"{extra}: forbidden flag")
    return bad


def generate():
    rc, out = sh(f"python3 {VERIF}/tools/gen.py", timeout=120)
    try:
        info = json.loads(out.strip().splitlines()[-1])
    except Exception:
        info = {"changed": [], "errors": [f"generator crashed: {out[-400:]}"]}
    return info


def build_all(jobs=16, pid=None):
    """regenerate, make (everything, or only what props/<pid>.v and the executable model
    depend on), extract and build the driver.  Returns (ok, log, geninfo)."""
    targets = "" if pid is None else f"props/{pid}.vo theories/Dispatch.vo"
    with BuildLock():
        gi = generate()
        if gi["errors"]:
            # a generator that no longer understands ITS source files breaks the tie of the properties that use its output,
            # not of the others: fail only if props/<pid>.v or the executable model depends on the file it could not write
            broken = [e for e in gi["errors"] if pid is None or _depends_on_generated(pid, e.split(":")[0].strip())]
            if broken:
                return False, "translator: " + "; ".join(broken), gi
            gi["ignored_errors"] = gi["errors"]
        rc, out = sh("test -f Makefile -a Makefile -nt _CoqProject || coq_makefile -f _CoqProject -o Makefile >/dev/null 2>&1; "
                     f"timeout 1700 make -j{jobs} {targets} > ../.cache/make.log 2>&1; rc=$?; grep -v '^COQ' ../.cache/make.log | tail -40; exit $rc", cwd=COQ)
        if rc != 0:
            return False, out, gi
        ok, out2 = build_driver()
        return ok, out + out2, gi


def _imports_of(path):
    import re
    try:
        txt = open(path).read()
    except OSError:
        return set()
    txt = re.sub(r"\(\*.*?\*\)", " ", txt, flags=re.S)
    names = set()
    for m in re.finditer(r"(?:From\s+\w+\s+)?Require\s+(?:Import|Export)?\s*([^.]*)\.", txt):
        names.update(m.group(1).split())
    return names


def _depends_on_generated(pid, genfile):
    """does props/<pid>.v or theories/Dispatch.v (the executable model) import, transitively, the generated file?
    Unknown names (fingerprints, a crash of the whole generator) count as a dependency."""
    if not genfile.endswith(".v"):
        return True
    target = genfile[:-2]
    where = {}
    for root in ("theories", "generated", "props"):
        d = os.path.join(COQ, root)
        for fn in os.listdir(d):
            if fn.endswith(".v"):
                where[fn[:-2]] = os.path.join(d, fn)
    seen, todo = set(), [f"{pid}", "Dispatch"]
    while todo:
        n = todo.pop()
        if n in seen or n not in where:
            continue
        seen.add(n)
        if n == target:
            return True
        todo.extend(_imports_of(where[n]))
    return target in seen


def build_driver():
    """re-extract when any .vo is newer than the driver binary"""
    drv = os.path.join(OCAML, "driver")
    newest = 0
    for root in ("theories", "generated"):
        d = os.path.join(COQ, root)
        for fn in os.listdir(d):
            if fn.endswith(".vo"):
                newest = max(newest, os.path.getmtime(os.path.join(d, fn)))
    src_m = max(os.path.getmtime(os.path.join(OCAML, "driver.ml")),
                os.path.getmtime(os.path.join(COQ, "extract", "Extract.v")))
    if os.path.exists(drv) and os.path.getmtime(drv) >= max(newest, src_m):
        return True, ""
    rc, out = sh("timeout 600 coqc -Q ../theories PF -Q ../generated PFG Extract.v 2>&1 | grep -v 'Warning\\|unknown-option\\|Extraction Output' ; "
                 "test -f model.ml", cwd=os.path.join(COQ, "extract"))
    if rc != 0:
        return False, "extraction failed: " + out
    rc, out = sh(f"cp {COQ}/extract/model.ml {COQ}/extract/model.mli . && "
                 "timeout 600 ocamlfind ocamlopt -w -a model.mli model.ml driver.ml -o driver.tmp && mv driver.tmp driver", cwd=OCAML)
    if rc != 0:
        return False, "driver build failed: " + out
    return True, ""


def check_props(pid, theorems):
    """compile props/<pid>.v, return dict with obligations, discharged, axioms, log"""
    path = os.path.join(COQ, "props", f"{pid}.v")
    res = {"obligations": len(theorems), "discharged": 0, "axioms": [], "bad_axioms": [], "missing": [], "log": ""}
    if not os.path.exists(path):
        res["log"] = "props file missing"
        res["missing"] = list(theorems)
        return res
    src = open(path).read()
    with BuildLock():
        rc, out = sh(f"timeout 900 coqc -Q theories PF -Q generated PFG -Q props PFP props/{pid}.v 2>&1", cwd=COQ)
    res["log"] = out[-3000:]
    if rc != 0:
        res["missing"] = list(theorems)
        return res
    # every listed theorem must be stated in the props file and followed by Print Assumptions
    for t in theorems:
        if not re.search(r"\b(Theorem|Lemma|Corollary)\s+" + re.escape(t) + r"\b", src) or \
           not re.search(r"Print Assumptions\s+" + re.escape(t) + r"\s*\.", src):
            res["missing"].append(t)
    # parse Print Assumptions output: names listed (at column 0) under "Axioms:" headers
    ax = set()
    mode = None
    for line in out.splitlines():
        if line.startswith("Axioms:"):
            mode = "ax"
            continue
        if line.startswith("Section Variables:") or line.startswith("Closed under"):
            mode = None
            continue
        if mode == "ax":
            m = re.match(r"^([A-Za-z_][\w.']*)\s*(?::|$)", line)
            if m:
                ax.add(m.group(1))
    res["axioms"] = sorted(ax)
    res["bad_axioms"] = sorted(a for a in ax if a not in AXIOM_WHITELIST)
    res["discharged"] = len(theorems) - len(res["missing"]) if not res["bad_axioms"] else 0
    return res


# ------------------------------------------------------------------ model side
class Model:
    """the extracted model behind a pipe"""

    def __init__(self):
        self.p = subprocess.Popen([os.path.join(OCAML, "driver")], stdin=subprocess.PIPE, stdout=subprocess.PIPE,
                                  text=True, bufsize=1 << 20,
                                  preexec_fn=lambda: __import__("resource").setrlimit(
                                      __import__("resource").RLIMIT_STACK, (-1, -1)) if False else None)

    @staticmethod
    def line(k, args):
        return str(k) + "|" + "|".join(" ".join(str(int(v)) for v in a) for a in args)

    @staticmethod
    def parse(s):
        s = s.rstrip("\n")
        if s.startswith("ERR"):
            return ("ERR", s)
        if s == "":
            return []
        return [[int(t) for t in part.split()] for part in s.split("|")]

    def run_batch(self, lines):
        """lines: list of 'k|..|..' strings -> list of parsed results"""
        if not lines:
            return []
        out, err = subprocess.Popen([os.path.join(OCAML, "driver")], stdin=subprocess.PIPE, stdout=subprocess.PIPE,
                                    text=True).communicate("\n".join(lines) + "\n")
        res = [self.parse(l) for l in out.splitlines()]
        if len(res) != len(lines):
            raise RuntimeError(f"driver returned {len(res)} lines for {len(lines)} cases")
        return res

    def close(self):
        try:
            self.p.stdin.close()
            self.p.wait(timeout=5)
        except Exception:
            self.p.kill()


def run_model(lines, shards=8):
    """run the extracted model on many case lines, in parallel processes"""
    if not lines:
        return []
    shards = max(1, min(shards, len(lines) // 50 + 1))
    chunks = [lines[i::shards] for i in range(shards)]
    procs = []
    for ch in chunks:
        p = subprocess.Popen(["bash", "-c", "ulimit -s unlimited 2>/dev/null; exec " + os.path.join(OCAML, "driver")],
                             stdin=subprocess.PIPE, stdout=subprocess.PIPE, text=True)
        procs.append((p, ch))
    import threading
    outs = [None] * shards

    def feed(i, p, ch):
        o, _ = p.communicate("\n".join(ch) + "\n")
        outs[i] = o.splitlines()

    ths = [threading.Thread(target=feed, args=(i, p, ch)) for i, (p, ch) in enumerate(procs)]
    [t.start() for t in ths]
    [t.join() for t in ths]
    res = [None] * len(lines)
    for i, ch in enumerate(chunks):
        if len(outs[i]) != len(ch):
            raise RuntimeError(f"driver shard {i} returned {len(outs[i])} lines for {len(ch)} cases")
        for j, l in enumerate(outs[i]):
            res[i + j * shards] = Model.parse(l)
    return res


def vm_crosscheck(pid, lines, results, limit=200):
    """evaluate a sample of the same cases inside Coq (vm_compute) and require the same
    results as the extracted binary: keeps extraction out of the trusted base for the
    sample and detects a stale binary."""
    idx = list(range(len(lines)))
    rnd = random.Random(12345)
    rnd.shuffle(idx)
    idx = [i for i in idx if results[i] and results[i][0] != "ERR" and sum(len(x) for x in results[i]) < 400][:limit]
    if not idx:
        return True, 0, ""

    def zl(l):
        return "[" + "; ".join(f"({v})" for v in l) + "]"

    def zll(ll):
        return "[" + "; ".join(zl(l) for l in ll) + "]"

    body = ["From Coq Require Import ZArith List. Import ListNotations. From PF Require Import Dispatch. Open Scope Z_scope."]
    for n, i in enumerate(idx):
        k, *args = lines[i].split("|")
        a = [[int(t) for t in part.split()] for part in args]
        body.append(f"Goal run ({k}) {zll(a)} = {zll(results[i])}. Proof. vm_compute. reflexivity. Qed.")
    d = os.path.join(CACHE, "vm")
    os.makedirs(d, exist_ok=True)
    fn = os.path.join(d, f"cases_{pid}.v")
    open(fn, "w").write("\n".join(body) + "\n")
    with BuildLock():
        rc, out = sh(f"timeout 900 coqc -Q {COQ}/theories PF -Q {COQ}/generated PFG {fn} 2>&1", cwd=d)
    return rc == 0, len(idx), out[-1500:]


# ------------------------------------------------------------------ implementation side
class Timeout(Exception):
    pass


def _alarm(signum, frame):
    raise Timeout()


_TIMEOUTS = 0


def call_impl(fn, *a, timeout=20, **kw):
    """run one implementation call; map the outcome to ('ok', value) | ('ValueError', msg) |
    ('IndexError', msg) | ('timeout', '') | ('other:<type>', msg)"""
    global _TIMEOUTS
    # after a few calls that ran into the limit, further calls in this worker get one second: a change that makes
    # a kernel loop forever must not stall the whole check
    if _TIMEOUTS >= 3:
        timeout = 1
    # the limit counts CPU time of this process (ITIMER_PROF), so a loaded machine cannot turn a slow call into a
    # reported non-termination; a wall-clock alarm ten times as long is the backstop for a call that blocks
    old = signal.signal(signal.SIGALRM, _alarm)
    oldp = signal.signal(signal.SIGPROF, _alarm)
    signal.setitimer(signal.ITIMER_PROF, timeout)
    signal.alarm(timeout * 10)
    try:
        v = fn(*a, **kw)
        return ("ok", v)
    except Timeout:
        _TIMEOUTS += 1
        return ("timeout", "")
    except ValueError as e:
        return ("ValueError", str(e)[:200])
    except IndexError as e:
        return ("IndexError", str(e)[:200])
    except Exception as e:  # noqa
        return (f"other:{type(e).__name__}", str(e)[:200])
    finally:
        signal.setitimer(signal.ITIMER_PROF, 0)
        signal.alarm(0)
        signal.signal(signal.SIGALRM, old)
        signal.signal(signal.SIGPROF, oldp)


def import_impl():
    """import the implementation from /repo's working tree (reference mode: JIT off)"""
    os.environ.setdefault("NUMBA_DISABLE_JIT", "1")
    os.environ.setdefault("NUMBA_CACHE_DIR", os.path.join(CACHE, "numba"))
    os.environ["PYFLWDIR_VERIF"] = "1"
    sys.dont_write_bytecode = True
    if REPO not in sys.path:
        sys.path.insert(0, REPO)
    import importlib
    import pyflwdir  # noqa
    assert os.path.abspath(pyflwdir.__file__).startswith(os.path.abspath(REPO)), pyflwdir.__file__
    if not os.environ.get("VERIF_NOFUZZ"):
        import apifuzz          # memory layouts of 2-D arguments and harmless earlier queries, see apifuzz.py
        apifuzz.install()
    return pyflwdir


# ------------------------------------------------------------------ known findings
def load_known():
    p = os.path.join(VERIF, "known_findings.json")
    if os.path.exists(p):
        return json.load(open(p))
    return {"findings": [], "fixed": []}


# ------------------------------------------------------------------ evidence / decision
def write_json(path, obj):
    os.makedirs(os.path.dirname(path), exist_ok=True)
    tmp = path + ".tmp"
    with open(tmp, "w") as f:
        json.dump(obj, f, indent=1, default=str)
    os.replace(tmp, path)


def write_replay(pid, name, obj):
    path = os.path.join(REPLAYS, pid, name)
    write_json(path, obj)
    return path


def canon(v):
    """canonical nested-int-list form of numpy / python values"""
    import numpy as np
    if isinstance(v, np.ndarray):
        return [int(x) for x in v.ravel().tolist()]
    if isinstance(v, (list, tuple)):
        return [int(x) for x in v]
    return [int(v)]


def net_canon(idxs_ds, mv=None):
    """downstream index array -> list of ints with the sentinel mapped to -1"""
    import numpy as np
    a = np.asarray(idxs_ds)
    n = a.size
    out = []
    for x in a.ravel().tolist():
        x = int(x)
        if x < 0 or x >= n:
            out.append(-1)
        else:
            out.append(x)
    return out
