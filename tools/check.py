import os, sys
sys.path.insert(0, os.path.dirname(os.path.abspath(__file__)))


def main():
    import faulthandler
    faulthandler.dump_traceback_later(int(os.environ.get('VERIF_MAXTIME', '3300')), exit=True)   # never hang forever
    a = sys.argv[1:]
    if not a:
        print(__doc__ or "usage: check <Cxx> quick|thorough | <Cxx> --replay f | setup")
        return 2
    if a[0] == "setup":
        from common import build_all, lint_sources
        lint = lint_sources()
        ok, log, gi = build_all()
        print(log[-3000:])
        if lint:
            print("lint:", lint)
        print("setup", "ok" if ok and not lint else "FAILED")
        return 0 if ok and not lint else 1
    pid = a[0].upper()
    seed = int(os.environ.get("VERIF_SEED", "20261001"))
    import runner
    if len(a) >= 3 and a[1] == "--replay":
        return runner.main(pid, "quick", seed, replay=a[2])
    tier = a[1] if len(a) > 1 else os.environ.get("VERIF_TIER", "quick")
    return runner.main(pid, tier, seed)


if __name__ == "__main__":
    sys.exit(main())
