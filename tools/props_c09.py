"""C09 — upscaling yields a valid coarse D8 network anchored on fine-grid outlet pixels."""
import math
import numpy as np
import nets

PID = "C09"
THEOREMS = ["coarse_shape_covers", "repcell_spec", "valid_iff_outlet_dmm", "valid_iff_outlet_eam", "valid_iff_outlet_eam_plus",
            "outlet_pixel_spec", "rep_pixels_distinct", "outlet_pixels_distinct", "d8_idx_spec", "upstream_d8_idx_spec", "eam_plus_answers", "up_eam_plus_no_err", "eam_plus_answers_needs_d8", "up_ihu_links_d8", "up_ihu_outlets_valid_topo", "up_ihu_outlets_distinct", "up_ihu_valid_iff_outlet", "up_ihu_outlet_cell_valid", "up_ihu_outlet_cell_valid_refuted", "up_ihu_no_marker", "up_ihu_valid_iff_outlet_total", "up_ihu_scale1", "up_ihu_scale1_net", "up_ihu_loop_refuted", "up_ihu_loop_refuted_minimize_error", "up_ihu_cycle_through_unflagged", "gen_up_subidx_2_idx_eq", "gen_up_in_d8_eq", "gen_up_cell_edge_eq", "gen_up_dmm_exitcell_eq", "gen_up_eam_repcell_eq", "gen_up_dmm_nextidx_eq", "gen_up_eam_nextidx_eq", "gen_up_ihu_outlets_eq", "gen_up_ihu_nextidx_eq", "gen_up_upscale_error_eq", "gen_up_upscale_error_assert", "gen_ihu_upscale_check_eq", "gen_ihu_optimize_rivlen_eq", "gen_ihu_minimize_error_eq", "gen_ihu_ihu_up_ihu", "gen_ihu_relocate_outlets_pf_eq", "gen_ihu_ihu_closed_pf", "gen_ihu_ihu_closed_noerr", "eam_plus_link_partial", "upscale_error_spec", "first_outlet_downstream", "outlet_map_spec", "eam_scale1", "eam_plus_scale1", "eam_link_increases", "eam_loopfree", "eam_plus_loopfree", "eam_links_d8", "eam_plus_links_d8", "dmm_links_d8", "dmm_loopfree"]
RULE = ("random loop-free fine D8 networks 2x2..12x12 (ragged w.r.t. the scale factor, nodata regions, many small basins, "
        "single rows / columns) x methods dmm, eam, eam_plus, ihu x scale factors 1..5 x default and user upstream area "
        "(accumulations of positive integer weights), larger rasters to 15x15 for ihu / eam_plus, constructed rasters (corpus); "
        "FlwdirRaster.upscale + upscale_error; ALL FOUR methods are compared exactly (coarse links, outlet pixels, shape) with "
        "their models run on the same effective-area map -- ihu (model theories/Ihu.v, kernel 916) against a second run of the "
        "implementation with a stable np.argsort, integer areas only; core._d8_idx on every coarse cell (kernel 915); "
        "upscale_error is compared with the model for all four methods; the oracle checks the property's clauses on "
        "the implementation's output (success, shape, loop-free, 8-neighbour links, valid iff outlet, outlet pixels "
        "distinct / valid / in a cell with valid pixels / in their own cell for non-iterative methods, scale 1 = input, "
        "connection flags against an independent walk); non-trivial = the coarse network has a link")
ASSUMPTIONS = ["the effective-area map is an input of the model (taken from upscale.map_effare; its float formula is not modelled)",
               "ihu: upscale.py sorts cells by upstream area with NumPy's default (unstable, CPU-dependent) argsort; the model uses a "
               "stable sort and is compared with a run of the implementation in which np.argsort is stable; the property's clauses are "
               "decided on the unmodified run",
               "the hypotheses of the ihu / eam_plus theorems (fine links join 8-neighbours, the effective-area map contains the cell "
               "crosses) are evaluated on every input by the proved-sound boolean checks of kernel 914",
               "upstream areas are integers in the model"]
METHODS = ["dmm", "eam", "eam_plus", "ihu"]


def corpus():
    # the two faces of known finding F9 (dmm with scale factor 1), so that they are re-observed on every run
    a = {"nr": 2, "nc": 9, "ds": [1, 2, 11, 12, 13, 4, 15, 7, 7, 0, 2, 11, 11, 13, 6, 7, 6, 8], "s": 1, "method": "dmm", "w": None}
    b = {"nr": 11, "nc": 5, "ds": [0, 0, 8, -1, 4, 10, 6, 7, 13, 4, 6, 5, 12, 7, 19, 16, 16, 13, -1, 19, -1, -1, 23, 28, 28, 31, 30, 32, 28, 29, 30, 35, 31, 39, 39, 30, 35, 32, -1, 39, 40, 36, 42, -1, 39, 45, -1, -1, 49, 49, 45, 45, 53, 49, 49], "s": 1, "method": "dmm", "w": None}
    return [{"k": 900, "args": [[-1]], "call": a, "group": "corpus-F9"}, {"k": 900, "args": [[-2]], "call": b, "group": "corpus-F9"}]


def _punch(rng, flw, nr, nc):
    """nodata holes away from the last row and column (cells draining into a hole become pits): outlet-less coarse
    cells at positions other than the top-left corner"""
    if nr < 4 or nc < 4 or rng.random() < 0.5:
        return flw
    for _ in range(rng.randint(1, 2)):
        h, w = rng.randint(2, max(2, nr // 2)), rng.randint(2, max(2, nc // 2))
        r0, c0 = rng.randint(0, nr - 2), rng.randint(0, nc - 2)
        for r in range(r0, min(nr - 1, r0 + h)):
            for c in range(c0, min(nc - 1, c0 + w)):
                flw[r * nc + c] = 247
    return flw


def _stem_raster(rng, nr, nc):
    """every cell drains towards the bottom-right corner (E / SE / S at random), so long stems run along the last
    row and column and through the last pixel; optional nodata block in the top-left corner"""
    br, bc = (rng.randint(0, nr // 2), rng.randint(0, nc // 2)) if rng.random() < 0.7 else (0, 0)
    flw = []
    if rng.random() < 0.5 and nr >= 2 and nc >= 2:
        # east along the rows, south down the last column, west along the last row to a pit: the stem passes THROUGH
        # the last pixel of the raster
        p = rng.randint(0, nc - 2)
        for r in range(nr):
            for c in range(nc):
                if r < br and c < bc:
                    flw.append(247)
                elif r == nr - 1:
                    flw.append(0 if c == p else (16 if c > p else 1))
                elif c == nc - 1:
                    flw.append(4)
                else:
                    flw.append(rng.choice([1, 1, 2]) if c < nc - 1 else 4)
        return _punch(rng, flw, nr, nc)
    for r in range(nr):
        for c in range(nc):
            if r < br and c < bc:
                flw.append(247)
            elif r == nr - 1 and c == nc - 1:
                flw.append(0)
            elif r == nr - 1:
                flw.append(1)
            elif c == nc - 1:
                flw.append(4)
            else:
                flw.append(rng.choice([1, 2, 4]))
    return _punch(rng, flw, nr, nc)


def cases(tier, rng):
    # the iterative method on larger rasters with nodata: its later stages (river-length optimisation, error
    # minimisation) only act when the coarse grid has room (round-2 seeds)
    for t in range(6000 if tier == "quick" else 12000):
        nr, nc = rng.randint(7, 15), rng.randint(7, 15)
        s = rng.choice([2, 3, 3, 4])
        if rng.random() < 0.3:
            flw = _stem_raster(rng, nr, nc)
        else:
            flw = nets.random_d8_raster(rng, nr, nc, p_nodata=rng.choice([0.05, 0.15, 0.3, 0.45]))
        if rng.random() < 0.6:      # whole coarse cells without data next to the network
            for _ in range(rng.randint(1, 3)):
                h, w_ = rng.randint(s, 2 * s), rng.randint(s, 2 * s)
                r0, c0 = rng.randrange(nr), rng.randrange(nc)
                if rng.random() < 0.6:
                    r0, c0 = r0 - r0 % s, c0 - c0 % s
                for r in range(r0, min(nr, r0 + h)):
                    for c in range(c0, min(nc, c0 + w_)):
                        flw[r * nc + c] = 247
        ds = nets.d8_decode(flw, nr, nc)
        if not nets.pits(ds):
            continue
        user = rng.random() < 0.2
        w = [rng.randint(1, 4) for _ in range(nr * nc)] if user else None
        # a third of these through eam_plus (the exactly modelled first stage of ihu: any difference shows) -- round-3 seed
        mth = "eam_plus" if rng.random() < (0.06 if tier == "quick" else 0.3) else "ihu"     # (the exact model is slow on large rasters)
        yield {"k": 900, "args": [[100000 + t]], "call": {"nr": nr, "nc": nc, "ds": ds, "s": s, "method": mth, "w": w, "scale": 1,
                                                          "outside": rng.choice([0, 7]) if user else 0}, "group": f"{mth}-large-s{s}"}
    n = 1200 if tier == "quick" else 10000
    for t in range(n):
        style = rng.random()
        if style < 0.12:
            nr, nc = (1, rng.randint(2, 12)) if rng.random() < 0.5 else (rng.randint(2, 12), 1)
        else:
            nr, nc = rng.randint(2, 12), rng.randint(2, 12)
        if 0.12 <= style < 0.4:
            flw = _stem_raster(rng, nr, nc)
        else:
            flw = nets.random_d8_raster(rng, nr, nc, p_nodata=rng.choice([0, 0, 0.1, 0.3, 0.6]))
        ds = nets.d8_decode(flw, nr, nc)
        if not nets.pits(ds):
            continue
        s = rng.choice([1, 2, 2, 3, 3, 4, 5])
        if math.ceil(nr / s) * math.ceil(nc / s) < 2:
            continue
        method = rng.choice(METHODS)
        user = rng.random() < 0.3
        w = [rng.randint(1, 4) for _ in range(nr * nc)] if user else None
        # user areas also in fractional units (km2-like): the order of the values is what the kernels use
        scale = rng.choice([1, 0.25, 0.0081]) if user else 1
        # a user area grid may carry (large) positive values on cells outside the network, e.g. a full-domain grid with a
        # clipped basin (defect repaired by 1728f96)
        outside = rng.choice([0, 0, 3, 50]) if user else 0
        yield {"k": 900, "args": [[t]], "call": {"nr": nr, "nc": nc, "ds": ds, "s": s, "method": method, "w": w, "scale": scale, "outside": outside},
               "group": f"{method}-s{s}" + ("-user" if user else "") + ("-outside" if outside else "")}


def _acc(ds, w):
    n = len(ds)
    acc = [0] * n
    for i in reversed(nets.topo_order(ds)):
        acc[i] += w[i]
        if ds[i] != i:
            acc[ds[i]] += acc[i]
    return acc


def impl(case):
    import warnings
    from common import call_impl
    from implutil import make_raster, idx_list
    from pyflwdir import upscale as U
    c = case["call"]
    nr, nc, ds, s, method = c["nr"], c["nc"], c["ds"], c["s"], c["method"]
    n = nr * nc
    flw = make_raster(ds, shape=(nr, nc))
    fine_before = np.asarray(flw.idxs_ds).copy()
    if c["w"] is None:
        upa = None
        upa_used = [int(x) if x > 0 else 0 for x in np.asarray(flw.upstream_area()).ravel().tolist()]
    else:
        acc = _acc(ds, c["w"])
        if c.get("outside"):
            acc = [(a if ds[i] >= 0 else c["outside"]) for i, a in enumerate(acc)]
        upa = (np.array(acc, dtype=np.float64) * c.get("scale", 1)).reshape(nr, nc)
        upa_used = [int(a) if ds[i] >= 0 else 0 for i, a in enumerate(acc)]
    upa_before = None if upa is None else upa.copy()
    with warnings.catch_warnings():
        warnings.simplefilter("ignore")
        st, v = call_impl(flw.upscale, s, method, upa, timeout=30)
    if st != "ok":
        if method == "ihu" and st == "ValueError" and "network is invalid" in str(v) and (c["w"] is None or c.get("scale", 1) == 1):
            # KNOWN FINDING F9c: ihu can return a coarse network with a cycle, which upscale() refuses.  To tell that defect from any
            # other failure the raw kernel is run (stable argsort, as for kernel 916) and handed to the model: [-5] = refused,
            # with the kernel's arrays for the comparison with the model and the cycle test of the oracle
            orig_argsort = np.argsort
            try:
                np.argsort = lambda a_, *x_, **k_: orig_argsort(a_, *x_, **dict(k_, kind="stable"))
                upk = np.asarray(flw.upstream_area()).ravel() if upa is None else upa.ravel()
                stk, vk = call_impl(U.ihu, np.asarray(flw.idxs_ds), upk, (nr, nc), s, mv=flw._mv, timeout=30)
            finally:
                np.argsort = orig_argsort
            if stk == "ok":
                ea = [int(x == 1) for x in U.map_effare(np.asarray(flw.idxs_ds), (nr, nc), s, mv=flw._mv).tolist()]
                return [[-5], idx_list(vk[0]), idx_list(vk[1]), [int(x) for x in vk[2]], ea, upa_used, [st, str(v)[:200]]]
        return [[-2], [st, str(v)[:200]]]
    flw1, outs = v
    if not np.array_equal(fine_before, np.asarray(flw.idxs_ds)) or (upa is not None and not np.array_equal(upa, upa_before)):
        return [[-4], ["input mutated"]]
    shape1 = [int(x) for x in flw1.shape]
    cds = idx_list(flw1.idxs_ds)
    out = idx_list(outs)
    st2, err = call_impl(flw.upscale_error, flw1, outs)
    if st2 != "ok":
        return [[-3], [st2, str(err)[:200]]]
    err = [int(x) for x in np.asarray(err).ravel().tolist()]
    ea = [int(x == 1) for x in U.map_effare(np.asarray(flw.idxs_ds), (nr, nc), s, mv=flw._mv).tolist()]
    exportable = 1
    try:
        flw1.to_array("d8")
    except ValueError:
        exportable = 0
    # the iterative method is compared with its model (kernel 916) on a second run in which np.argsort is stable: upscale.py
    # sorts cells by upstream area with the default (unstable, CPU-dependent) sort, the model with a stable one; the
    # property's own clauses are always decided on the unmodified run above
    ihu_stable = []
    if method == "ihu" and n <= 400:
        orig_argsort = np.argsort
        try:
            np.argsort = lambda a_, *x_, **k_: orig_argsort(a_, *x_, **dict(k_, kind="stable"))
            with warnings.catch_warnings():
                warnings.simplefilter("ignore")
                st3, v3 = call_impl(make_raster(ds, shape=(nr, nc)).upscale, s, method, None if upa is None else upa.copy(), timeout=30)
        finally:
            np.argsort = orig_argsort
        if st3 == "ok":
            ihu_stable = [idx_list(v3[0].idxs_ds), idx_list(v3[1]), [int(x) for x in v3[0].shape]]
        else:
            ihu_stable = [[-2], [-2], [0, 0]]
    # the 8-neighbour helper of the iterative method, on every cell of the coarse raster (kernel 915)
    from pyflwdir import core
    d8flat, upflat = [], []
    cda = np.asarray(flw1.idxs_ds)
    for i0 in range(min(len(cds), 40)):
        l1 = [int(x) for x in core._d8_idx(i0, tuple(shape1))]
        l2 = [int(x) for x in core._upstream_d8_idx(i0, cda, tuple(shape1))]
        d8flat += [i0, len(l1)] + l1
        upflat += [i0, len(l2)] + l2
    return [[0], cds, out, shape1, ea, upa_used, err, [exportable], d8flat, upflat] + ([ihu_stable] if ihu_stable else [])


def compare(case, i, m):
    return m == [[0]] and bool(i) and i[0] == [0]


def post_checks(case, i):
    c = case["call"]
    if i and i[0] == [-5]:
        # the refused result of the raw ihu kernel must still be the model's (otherwise this is not the known defect)
        yield ("ihu:differs-from-model", 916, [c["ds"], i[5], [c["nr"]], [c["nc"]], [c["s"]], i[4], i[1], i[2], i[3]])
        return
    if not i or i[0] != [0]:
        return
    cds, out, shape1, ea, upa, err = i[1:7]
    base = [c["ds"], upa, [c["nr"]], [c["nc"]], [c["s"]], ea]
    k = {"dmm": 911, "eam": 912, "eam_plus": 913}.get(c["method"])
    if k:
        yield (f"{c['method']}:differs-from-model", k, base + [cds, out, shape1])
    yield ("upscale_error:differs-from-model", 905, [c["ds"], out, cds, err])
    # the hypotheses of eam_links_d8 on THIS input: the implementation's effective-area map contains the middle rows and
    # columns of every coarse cell, and the fine links join 8-neighbouring pixels
    yield ("effective-area:no-cross-or-fine-links-not-d8", 914, base)
    if len(i) > 9:
        yield ("d8-neighbour-helper:differs-from-model", 915, [cds, [shape1[0]], [shape1[1]], i[8], i[9]])
    if len(i) > 10 and c["method"] == "ihu" and (c["w"] is None or c.get("scale", 1) == 1):      # (the model takes integer areas; ihu compares them with cs^2 / 4)
        yield ("ihu:differs-from-model", 916, base + i[10])


def oracle(case, out):
    c = case["call"]
    nr, nc, ds, s, method = c["nr"], c["nc"], c["ds"], c["s"], c["method"]
    tag = f"{method}"
    ctx = f"method={method} s={s} shape={nr}x{nc} ds={ds}" + (f" w={c['w']}" if c["w"] else "")
    if not out:
        return ("shape", "no output")
    if out[0] == [-5]:
        # upscale(method='ihu') refused its own result: the known finding F9c iff the raw kernel's coarse network (which the
        # post-check compares with the model) really contains a cycle; anything else is a new violation
        cdsk = out[1]
        def _cyc(i):
            seen, j = set(), i
            while 0 <= j < len(cdsk) and cdsk[j] != j and cdsk[j] >= 0:
                if j in seen:
                    return True
                seen.add(j); j = cdsk[j]
            return False
        if any(_cyc(i) for i in range(len(cdsk))):
            return ("ihu:known-loop", f"upscale raised {out[6]}: the coarse network of ihu has a cycle, links {cdsk}; {ctx}")
        return (f"{tag}:raised", f"upscale raised {out[6]} although the kernel's network {cdsk} has no cycle; {ctx}")
    if out[0] == [-2]:
        return (f"{tag}:raised", f"upscale raised {out[1]}; {ctx}")
    if out[0] == [-3]:
        return (f"{tag}:upscale_error-raised", f"{out[1]}; {ctx}")
    if out[0] == [-4]:
        return (f"{tag}:input-mutated", ctx)
    cds, outp, shape1, ea, upa, err, exportable = out[1:8]
    R, C = math.ceil(nr / s), math.ceil(nc / s)
    if shape1 != [R, C]:
        return (f"{tag}:shape", f"coarse shape {shape1} != {[R, C]}; {ctx}")
    N = R * C
    if len(cds) != N or len(outp) != N:
        return (f"{tag}:size", ctx)
    sig_s1 = ":scale1" if s == 1 else ""
    for i in range(N):
        if (cds[i] >= 0) != (outp[i] >= 0):
            return (f"{tag}:valid-iff-outlet", f"coarse cell {i}: ds {cds[i]} outlet {outp[i]}; {ctx}")
    valid_out = [o for o in outp if o >= 0]
    if len(set(valid_out)) != len(valid_out):
        return (f"{tag}:outlets-not-distinct", f"{outp}; {ctx}")
    for i, o in enumerate(outp):
        if o < 0:
            continue
        if not (0 <= o < nr * nc) or ds[o] < 0:
            return (f"{tag}:outlet-not-valid-fine-cell", f"cell {i} outlet {o}; {ctx}")
        own = (o // nc // s) * C + (o % nc) // s
        has_valid = any(ds[(r * nc + cc)] >= 0 for r in range((i // C) * s, min(nr, (i // C + 1) * s)) for cc in range((i % C) * s, min(nc, (i % C + 1) * s)))
        if not has_valid:
            return (f"{tag}:outlet-cell-without-valid-pixels", f"cell {i} outlet {o}; {ctx}")
        if method != "ihu" and own != i:
            return (f"{tag}:outlet-outside-own-cell", f"cell {i} outlet {o} lies in cell {own}; {ctx}")
    for i, d in enumerate(cds):
        if d >= 0 and cds[d] < 0:
            return (f"{tag}:open-link", f"coarse cell {i} drains into coarse cell {d}, which has no data / no outlet pixel; {ctx} cds={cds}")
    if not nets.is_loopfree(cds):
        return (f"{tag}:loop", f"coarse network has a loop {cds}; {ctx}")
    for i, d in enumerate(cds):
        if d >= 0 and (abs(d // C - i // C) > 1 or abs(d % C - i % C) > 1):
            return (f"{tag}:not-d8{sig_s1}", f"coarse cell {i} links to {d} (not an 8-neighbour) in {R}x{C}; {ctx}")
    if not exportable[0]:
        return (f"{tag}:not-exportable{sig_s1}", ctx)
    if s == 1 and cds != [d if d >= 0 else -1 for d in ds]:
        return (f"{tag}:scale1-not-identity", f"scale factor 1 gives {cds}; {ctx}")
    # connection flags: independent walk
    isout = set(valid_out)
    for i in range(N):
        if cds[i] < 0 or outp[i] < 0:
            exp = 255
        else:
            p = outp[i]
            while True:
                q = ds[p]
                if q in isout or q == p:
                    break
                p = q
            exp = 1 if q == outp[cds[i]] else 0
        if err[i] != exp:
            return (f"{tag}:error-flag", f"cell {i}: flag {err[i]}, expected {exp}; {ctx} cds={cds} out={outp}")
    return None


def nontrivial(case, out):
    try:
        return any(d >= 0 and d != i for i, d in enumerate(out[1]))
    except Exception:
        return False
