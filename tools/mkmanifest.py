#!/usr/bin/env python3
"""Regenerate MANIFEST.json from tools/manifest_data.py (keeps it valid at all times)."""
import json, os, sys
sys.path.insert(0, os.path.dirname(os.path.abspath(__file__)))
from manifest_data import CHECKS, NOT_APPLICABLE

ALL = [f"C{i:02d}" for i in range(1, 21)]
checks = []
for pid, c in sorted(CHECKS.items()):
    checks.append({
        "property_id": pid,
        "quick_cmd": f"./check {pid} quick",
        "thorough_cmd": f"./check {pid} thorough",
        "evidence_file": f"/verif/evidence/{pid}.json",
        "replay_cmd_template": f"./check {pid} --replay {{path}}",
        "engine": "coq-model+correspondence",
        "level_claimed": {"category": "proof", "text": c["text"], "design_ref": c.get("design_ref", f"DESIGN.md section 10.2 (level reached; section 5, {pid} is the plan as written before the build)")},
        "level_note": c["note"],
        "technique": c.get("technique", "machine-checked proof in Coq 8.16 about an executable Gallina model, tied to the code by a regenerating translator and a correspondence check"),
    })
na = [{"property_id": p, "reason": NOT_APPLICABLE.get(p, "check not built yet in this session (see DESIGN.md section 5 for the plan)")}
      for p in ALL if p not in CHECKS]
m = {
    "version": 1,
    "setup_cmd": "./check setup",
    "hooks": {"guard": "PYFLWDIR_VERIF", "enable": "no source hooks are needed: the harness reads private attributes; checks export PYFLWDIR_VERIF=1 (unused by the source)",
              "baseline_off_cmd": "cd /repo && /venv/bin/python -m pytest -ra -q -p no:cacheprovider --timeout=900 --continue-on-collection-errors",
              "source_commits": [], "add_only": True},
    "engines": [{"name": "coq-model+correspondence", "path": "/verif/coq + /verif/tools + /verif/ocaml",
                 "serves_properties": sorted(CHECKS), "kind_free_text": "Coq 8.16.1 development (theories, generated, props) + extracted OCaml model + Python differential harness"}],
    "checks": checks,
    "not_applicable": na,
    "notes": "See DESIGN.md. fix: commits in /repo are listed in known_findings.json.",
}
json.dump(m, open(os.path.join(os.path.dirname(os.path.abspath(__file__)), "..", "MANIFEST.json"), "w"), indent=1)
print("claimed", sorted(CHECKS), "n/a", [x["property_id"] for x in na])
