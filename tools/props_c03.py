"""C03 — ordering, rank, loop detection, repair."""
import numpy as np
import nets

PID = "C03"
THEOREMS = ["walk_topo", "sort_topo", "order_sort_topo", "rank_spec", "nnodes_spec", "loops_exact", "isvalid_iff",
            "repair_spec", "check_topo_sound", "check_complete_sound", "gen_inflow_idxs_eq", "gen_outflow_idxs_eq", "gen_headwater_indices_eq", "gen_confluence_indices_eq", "gen_rank_eq", "gen_loop_indices_eq", "gen_idxs_seq_eq"]
RULE = ("all closed functional graphs with nodata on n<=4 cells (n<=5 thorough; cycles of every length, trees on cycles) "
        "through core.rank / idxs_seq / loop_indices / upstream_count and through Flwdir and FlwdirRaster objects with "
        "both order_cells methods, isvalid, nnodes, repair_loops; random graphs to 60 cells; orders are compared as "
        "permutation + precedence (any topological order is accepted, checked by the proved check_topo); non-trivial = "
        "graph has a link or a loop")
ASSUMPTIONS = ["wf: links of valid cells point at valid cells (guaranteed by every from_array; for the 1-D Flwdir class "
               "it is the constructor's unstated precondition)"]


def cases(tier, rng):
    maxn = 4 if tier == "quick" else 5
    for n in range(2, maxn + 1):
        for ds in nets.all_graphs(n):
            if not nets.is_wf(ds) or all(d < 0 for d in ds):
                continue
            yield {"k": 301, "args": [ds], "group": f"exh-n{n}-rank"}
            yield {"k": 302, "args": [ds, nets.pits(ds)], "group": f"exh-n{n}-walk"}
            if n <= 3 or rng.random() < 0.3:
                yield {"k": 304, "args": [ds], "group": f"exh-n{n}-loops"}
                msk = rng.random() < 0.5
                yield {"k": 307, "args": [ds, [int(msk)], [rng.randint(0, 1) for _ in range(n)] if msk else []], "group": f"exh-n{n}-upcount"}
            if nets.pits(ds) and len([d for d in ds if d >= 0]) >= 1:
                for api in (["vec-sort", "ras-walk", "ras-sort", "vec-walk"] if n <= 3 else [rng.choice(["vec-sort", "ras-walk", "ras-sort", "vec-walk"])]):
                    yield {"k": 303 if "sort" in api else 302, "args": [ds, nets.pits(ds)], "call": {"api": api}, "group": f"exh-n{n}-{api}"}
                if n <= 3 or rng.random() < 0.4:
                    yield {"k": 305, "args": [ds], "call": {"api": rng.choice(["vec", "ras"])}, "group": f"exh-n{n}-isvalid"}
                    yield {"k": 306, "args": [ds], "call": {"api": rng.choice(["vec", "ras"])}, "group": f"exh-n{n}-repair"}
                    yield {"k": 306, "args": [ds], "call": {"api": rng.choice(["vec", "ras"]), "pre": rng.choice(["sort", "walk"])}, "group": f"exh-n{n}-repair-after-order"}
    # very wide confluences (vector class; walk order sizes a matrix by the largest number of upstream nodes) -- the
    # upstream counter must not be narrower than the number of nodes (fixed e180a55)
    for ntrib in ([127, 128, 129, 200, 257] if tier == "quick" else list(range(125, 132)) + [200, 255, 256, 257, 300, 513]):
        for tail in (0, 1):
            hub = 1 if tail else 0
            ds = ([0, 0] if tail else [0]) + [hub] * ntrib
            for api in ("vec-walk", "vec-sort"):
                yield {"k": 303 if "sort" in api else 302, "args": [ds, nets.pits(ds)], "call": {"api": api}, "group": "wide-star"}
            yield {"k": 307, "args": [ds, [0], []], "group": "wide-star-upcount"}
    nrand = 250 if tier == "quick" else 2500
    for t in range(nrand):
        n = rng.randint(2, 60 if t % 3 else 9)
        ds = nets.random_graph(rng, n, rng.choice([0, 0.1, 0.3])) if t % 2 else nets.random_forest(rng, n)
        if not nets.pits(ds):
            yield {"k": 301, "args": [ds], "group": "rand-rank"}
            continue
        api = rng.choice(["vec-sort", "ras-walk", "ras-sort", "vec-walk"])
        yield {"k": 301, "args": [ds], "group": "rand-rank"}
        yield {"k": 303 if "sort" in api else 302, "args": [ds, nets.pits(ds)], "call": {"api": api}, "group": f"rand-{api}"}
        yield {"k": 305, "args": [ds], "call": {"api": "ras"}, "group": "rand-isvalid"}
        if nets.is_loopfree(ds):
            # small structural helpers of core.py (kernels 310-313; their source is regenerated and proved equal to the models)
            region = [int(rng.random() < 0.5) for _ in range(n)]
            sqh = nets.topo_order(ds, rng)
            yield {"k": rng.choice([310, 311]), "args": [ds, sqh, region], "group": "rand-inflow-outflow"}
            hm = rng.randrange(2)
            yield {"k": rng.choice([312, 313]), "args": [ds, [hm], [int(rng.random() < 0.6) for _ in range(n)] if hm else []], "group": "rand-headwater-confluence"}
        yield {"k": 306, "args": [ds], "call": {"api": rng.choice(["vec", "ras"]), "pre": rng.choice([None, "sort", "walk"])}, "group": "rand-repair"}
        # objects parsed from D8 / LDD rasters whose streams also leave the raster or end at missing cells: those outlets are
        # pits like the explicit ones, and every cell draining to them is ordered (round-5 seed)
        if t % 2 == 0:
            nr_, nc_ = rng.randint(1, 6), rng.randint(2, 6)
            codes = nets.random_d8_raster(rng, nr_, nc_, p_nodata=rng.choice([0, 0.15]), loopfree=True)
            for i in range(nr_ * nc_):          # redirect some border cells off the raster
                r_, c_ = divmod(i, nc_)
                if codes[i] != 247 and rng.random() < 0.3:
                    off = [cd for (dr, dc), cd in nets.D8.items() if not (0 <= r_ + dr < nr_ and 0 <= c_ + dc < nc_)]
                    if off:
                        codes[i] = rng.choice(off)
            dsr = nets.d8_decode(codes, nr_, nc_)
            if nets.pits(dsr):
                apir = rng.choice(["ras-walk", "ras-sort"])
                yield {"k": 303 if "sort" in apir else 302, "args": [dsr, nets.pits(dsr)],
                       "call": {"api": apir, "raster": {"nr": nr_, "nc": nc_, "codes": codes, "ftype": rng.choice(["d8", "ldd"])}}, "group": f"rand-parsed-{apir}"}
        # pits added through the API (with repeated / already-pit locations) before ordering: the model gets the new network
        nonpit = [i for i in range(n) if ds[i] >= 0]
        if nonpit:
            chosen = [rng.choice(nonpit) for _ in range(rng.randint(1, 3))]
            chosen = chosen + [rng.choice(chosen)]          # at least one duplicate
            ds2 = list(ds)
            for i in chosen:
                ds2[i] = i
            api2 = rng.choice(["vec-sort", "ras-walk", "ras-sort", "vec-walk"])
            yield {"k": 303 if "sort" in api2 else 302, "args": [ds2, nets.pits(ds2)],
                   "call": {"api": api2, "from": ds, "addpits": chosen, "pre": rng.choice([None, "walk", "sort"])}, "group": f"rand-addpits-{api2}"}


def impl(case):
    from common import call_impl
    from implutil import ds_array, make_raster, make_vector, idx_list
    from pyflwdir import core
    k, a = case["k"], case["args"]
    ds = a[0]
    call = case.get("call")
    arr = ds_array(ds)
    if call is None:
        if k == 301:
            st, v = call_impl(core.rank, arr)
            return [[int(x) for x in v[0]], [int(v[1])]] if st == "ok" else [[-2], [st]]
        if k == 302:
            st, v = call_impl(core.idxs_seq, arr, np.array(a[1], dtype=np.int32))
            return [idx_list(v)] if st == "ok" else [[-2], [st]]
        if k == 304:
            st, v = call_impl(core.loop_indices, arr)
            return [idx_list(v)] if st == "ok" else [[-2], [st]]
        if k == 307:
            mask = np.array(a[2], dtype=bool) if a[1][0] else None
            st, v = call_impl(core.upstream_count, arr, mask=mask)
            return [[int(x) for x in v]] if st == "ok" else [[-2], [st]]
        if k in (310, 311):
            fn = core.inflow_idxs if k == 310 else core.outflow_idxs
            st, v = call_impl(fn, arr, np.array(a[1], dtype=np.int32), np.array(a[2], dtype=bool))
            return [idx_list(v)] if st == "ok" else [[-2], [st]]
        if k in (312, 313):
            fn = core.headwater_indices if k == 312 else core.confluence_indices
            mask = np.array(a[2], dtype=bool) if a[1][0] else None
            st, v = call_impl(fn, arr, mask=mask)
            return [idx_list(v)] if st == "ok" else [[-2], [st]]
    api = call["api"]
    mk = make_vector if api.startswith("vec") else make_raster
    if call.get("raster"):
        import pyflwdir
        rs = call["raster"]
        codes = rs["codes"]
        if rs["ftype"] == "ldd":
            codes = [{1: 6, 2: 3, 4: 2, 8: 1, 16: 4, 32: 7, 64: 8, 128: 9, 0: 5, 255: 5, 247: 255}[c] for c in codes]
        st, flw = call_impl(pyflwdir.from_array, np.array(codes, dtype=np.uint8).reshape(rs["nr"], rs["nc"]), ftype=rs["ftype"])
    else:
        st, flw = call_impl(mk, call.get("from", ds))
    if st != "ok":
        return [[-2], [st]]
    if call.get("addpits"):
        if call.get("pre"):
            call_impl(flw.order_cells, call["pre"])
        st, _ = call_impl(flw.add_pits, idxs=np.array(call["addpits"]))
        if st != "ok":
            return [[-2], [st]]
    if k in (302, 303):
        st, _ = call_impl(flw.order_cells, "sort" if k == 303 else "walk")
        if st != "ok":
            return [[-2], [st]]
        return [idx_list(flw.idxs_seq), [int(flw.nnodes)]]
    if k == 305:
        # the node count is read first, from an object that has memoised nothing yet (round-3 seed: counting the
        # valid cells instead of the cells that reach a pit)
        st0, nn = call_impl(lambda: int(flw.nnodes))
        st, v = call_impl(lambda: bool(flw.isvalid))
        return [[int(v)], [nn]] if st == "ok" and st0 == "ok" else [[-2], [st0, st]]
    if k == 306:
        pre = call.get("pre")
        if pre:   # a previous ordering (and whatever it memoised) must not survive the repair
            call_impl(flw.order_cells, pre)
        st, _ = call_impl(flw.repair_loops)
        if st == "ok" and pre:
            st, _ = call_impl(flw.order_cells, pre)
        if st != "ok":
            return [[-2], [st]]
        from common import net_canon
        return [net_canon(flw.idxs_ds), idx_list(flw.idxs_pit), [int(bool(flw.isvalid))], idx_list(flw.idxs_seq), [int(flw.nnodes)]]
    raise ValueError(k)


def _is_topo(ds, sq):
    seen = set()
    for i in sq:
        if not (0 <= i < len(ds)) or ds[i] < 0 or i in seen:
            return False
        if ds[i] != i and ds[i] not in seen:
            return False
        seen.add(i)
    return True


def compare(case, i, m):
    k = case["k"]
    if k in (302, 303) and (not i or i[0] != [-2]):
        # any topological order of the same cell set is the same answer
        return sorted(i[0] if i else []) == sorted(m[0] if m else [])
    if k == 306 and i and i[0] != [-2]:
        return i[:2] == m[:2]
    return i == m


def oracle(case, out):
    k, a = case["k"], case["args"]
    ds = a[0]
    n = len(ds)
    if out and out[0] == [-2]:
        return ("order:unexpected-exception", f"{out}")
    rk = nets.rank(ds)
    if k == 301:
        exp = [-9999 if r is None else r for r in rk]
        cnt = sum(1 for r in rk if r is not None and r >= 0)
        return None if out == [exp, [cnt]] else ("rank", f"expected {[exp, [cnt]]} got {out}")
    if k in (302, 303):
        sq = out[0]
        drain = sorted(i for i in range(n) if rk[i] is not None and rk[i] >= 0)
        if sorted(sq) != drain or not _is_topo(ds, sq):
            return ("seq:not-topological", f"seq {sq} is not a topological order of {drain}")
        if len(out) > 1 and out[1] != [len(drain)]:
            return ("seq:nnodes", f"nnodes {out[1]} != {len(drain)}")
        return None
    if k == 304:
        exp = [i for i in range(n) if rk[i] == -1]
        return None if out == [exp] else ("loops", f"expected {exp} got {out}")
    if k == 305:
        exp = int(all(r != -1 for r in rk))
        nn = sum(1 for r in rk if r is not None and r >= 0)
        return None if out == [[exp], [nn]] else ("isvalid", f"expected {[[exp], [nn]]} got {out}")
    if k == 306:
        exp = [i if rk[i] == -1 else ds[i] for i in range(n)]
        pits = [i for i in range(n) if exp[i] == i]
        valid = sorted(i for i in range(n) if ds[i] >= 0)
        if out[0] != exp or out[1] != pits or out[2] != [1]:
            return ("repair", f"expected {exp} {pits} valid, got {out}")
        if sorted(out[3]) != valid or not _is_topo(exp, out[3]) or out[4] != [len(valid)]:
            return ("repair:stale-order", f"after repair seq={out[3]} nnodes={out[4]} for network {exp}")
        return None
    if k == 307:
        m = a[2] if a[1][0] else [1] * n
        exp = [(-9 if ds[j] < 0 else sum(1 for c in range(n) if ds[c] == j and c != j and m[c])) for j in range(n)]
        return None if out == [exp] else ("upstream_count", f"expected {exp} got {out}")
    if k in (312, 313):
        m = a[2] if a[1][0] else [1] * n
        nup = [sum(1 for c in range(n) if ds[c] == j and c != j and m[c]) for j in range(n)]
        exp = [j for j in range(n) if ds[j] >= 0 and (nup[j] == 0 if k == 312 else nup[j] > 1)]
        return None if out == [exp] else ("headwater/confluence", f"expected {exp} got {out}")
    if k in (310, 311):
        region = a[2]
        got = out[0]
        if len(set(got)) != len(got):
            return ("inflow/outflow:duplicate", f"{got}")
        for i in got:
            if k == 310 and not (ds[i] >= 0 and ds[i] != i and not region[i] and region[ds[i]]):
                return ("inflow:not-an-inflow-cell", f"cell {i}: region {region} ds {ds}")
            if k == 311 and not (ds[i] >= 0 and region[i] and (ds[i] == i or not region[ds[i]])):
                return ("outflow:not-an-outflow-cell", f"cell {i}: region {region} ds {ds}")
        return None
    return None


def post_checks(case, out):
    k, a = case["k"], case["args"]
    if k in (302, 303) and out and out[0] != [-2]:
        yield ("seq:check_topo", 309, [a[0], out[0]])


def nontrivial(case, out):
    ds = case["args"][0]
    return any(d >= 0 and d != i for i, d in enumerate(ds))
