"""C12 — results never depend on the history of earlier calls on the same object."""
import os
import numpy as np
import nets

os.environ["VERIF_NOFUZZ"] = "1"      # this check drives its own histories and compares memo occupancy with the model

PID = "C12"
THEOREMS = ["Inv_init", "step_correct", "history_independent", "reachable_inv", "mutators_take_effect"]
RULE = ("random histories of 1..12 public queries and mutators (rank, isvalid, idxs_pit, idxs_seq, nnodes, idxs_us_main, "
        "main_upstream(user area), stream_order(strahler/classic, with/without mask), distnc, area, upstream_area, "
        "accuflux, basins, exports, stream_distance(mask, m), path up/down, add_pits (also with a repeated location), repair_loops, set_transform, order_cells(sort|walk), dump+load) on "
        "raster and vector objects with cache on and off, networks with and without loops; after every step (i) the "
        "occupancy of the eight memo slots and the cache flag are compared with the model state machine and (ii) the "
        "returned value is compared with the same query on a freshly constructed object holding the current network, "
        "transform and settings; plus the four repaired patterns as a fixed corpus; non-trivial = history contains a "
        "mutator or a user-argument query followed by a query")
ASSUMPTIONS = ["kernels are abstract in the model (values are tags of what they were computed from); that each kernel's "
               "result does not depend on WHICH topological order is memoised is C03/C04/C05/C08's order-independence",
               "orders (idxs_seq) are compared as sets; float results to 2e-6 relative (a memoised order may differ from a fresh object's, which changes the summation order)"]

OPS_RASTER = list(range(0, 22))       # 21: stream_distance(mask, unit='m'), raster only
OPS_VECTOR = [0, 1, 2, 3, 4, 5, 6, 7, 8, 12, 13, 14, 15, 16, 17, 19, 20, 11]
CORPUS = [
    [(7, 3), (7, 0)], [(7, 0), (7, 3)],                      # Strahler memo vs mask
    [(6, 5), (5, 0)], [(6, 5), (8, 0)], [(6, 5), (14, 0)],    # main_upstream(user) vs default
    [(0, 0), (16, 5), (0, 0)], [(0, 0), (16, 5), (4, 0)], [(7, 0), (16, 5), (7, 0)], [(5, 0), (16, 1), (8, 0)],
    [(9, 0), (16, 5), (9, 0)], [(0, 0), (17, 1), (0, 0)],     # mutators vs network memos
    [(10, 0), (18, 0), (10, 0)], [(9, 0), (18, 0), (9, 0)], [(11, 1), (18, 0), (11, 1)],   # set_transform
    [(10, 0), (18, 1), (10, 0)], [(9, 0), (18, 1), (9, 0)], [(11, 1), (18, 1), (11, 1)], [(10, 0), (18, 2), (11, 1)],
    [(0, 0), (20, 0), (16, 5), (0, 0)], [(7, 2), (20, 0), (7, 0)],
    [(13, 1), (16, 5), (13, 1)], [(13, 2), (16, 5), (13, 2)], [(13, 1), (17, 1), (13, 1)],      # exports after mutators
    [(13, 4), (13, 3)], [(13, 1), (13, 3)], [(13, 3), (13, 4), (13, 3)], [(13, 4), (20, 0), (13, 3)],   # default export after an export to another format
    [(13, 5), (3, 0)], [(13, 5), (12, 1)], [(3, 0), (13, 5), (11, 0)],            # basins(idxs=view of idxs_seq, streams=...) then the order / accumulation
    [(0, 0), (21, 3)], [(4, 0), (21, 3)], [(20, 0), (21, 3)], [(21, 3), (0, 0), (21, 3)],   # stream distance in cells after rank-computing queries
    [(8, 0), (7, 0)], [(7, 0), (8, 0)], [(8, 0), (7, 0), (8, 0)],                                # classic vs Strahler memo
    [(11, 1), (11, 1)], [(11, 1), (10, 0)], [(11, 1), (11, 0), (11, 1)],                         # repeated unit conversions
    [(21, 1), (21, 0)], [(21, 1), (9, 0)], [(9, 0), (21, 2), (21, 0)], [(21, 0), (18, 1), (21, 0)], [(21, 2), (18, 0), (9, 0)],   # stream distance vs distnc memo
    [(16, 5), (11, 0), (13, 0)], [(16, 4), (3, 0), (12, 1)], [(13, 0), (16, 5), (13, 0)], [(13, 0), (17, 1), (13, 0)],   # basins before / after mutators                                     # add_pits (odd position: repeated index) then accumulate
]


def corpus():
    out = []
    ds = [0, 0, 1, 1, 2, 2, 3, 4]
    dsl = [0, 0, 1, 4, 3, 1]      # 3 <-> 4 loop
    for ops in CORPUS:
        for raster in (1, 0):
            if not raster and any(c in (9, 10, 13, 18, 21) or (c == 11 and a) for c, a in ops):
                continue
            for cache in (1, 0):
                net = dsl if any(c == 17 or (c, a) == (21, 3) for c, a in ops) else ds   # a network with a loop
                ops2 = [(c, (1 if c == 17 else a)) for c, a in ops]
                for hasarea in ((0, 1) if not raster else (0,)):
                    out.append({"k": 1201, "args": [[raster, cache, hasarea], [x for p in ops2 for x in p]],
                                "call": {"ds": net, "seed": 7}, "group": "corpus"})
    # the node areas of a 1-D network object survive dump / load (repaired; this case probes it directly, every history with
    # a load compares with a reference object built WITH the areas)
    out.append({"k": 1201, "args": [[0, 1, 1], [20, 0]], "call": {"ds": ds, "seed": 7, "probe_dumpload": 1}, "group": "corpus-dumpload-area"})
    return out


def cases(tier, rng):
    n = 600 if tier == "quick" else 4000
    for t in range(n):
        raster = rng.randrange(2)
        cache = 1 if rng.random() < 0.7 else 0
        nn = rng.randint(3, 14)
        ds = nets.random_graph(rng, nn, 0.1) if rng.random() < 0.3 else nets.random_forest(rng, nn)
        d8row = None
        if raster and rng.random() < 0.3:
            # a one-row D8 raster parsed with from_array: streams also leave the raster or end at missing cells, so the pits
            # are more than the cells with a pit code (round-5 seed: a save/load round trip that kept only the latter)
            d8row = [rng.choice([1, 1, 16, 16, 0, 247]) for _ in range(nn)]
            ds = nets.d8_decode(d8row, 1, nn)
        if not nets.pits(ds):
            continue
        cur = list(ds)
        ops = []
        for _ in range(rng.randint(1, 12)):
            c = rng.choice(OPS_RASTER if raster else OPS_VECTOR)
            a = 0
            if c in (14, 15) and any(r == -1 for r in nets.rank(cur)):
                c = 0        # tracing on a network with loops does not terminate: outside the domain
            if c in (6, 7, 8, 12):
                a = rng.choice([0, 0, 1, 2, 3]) if c != 6 else rng.choice([0, 1, 2, 3])
                if c == 12:
                    a = rng.randint(1, 3)
            elif c == 11:
                a = rng.randrange(2) if raster else 0
            elif c == 13:
                a = rng.randrange(6) if raster else 0
            elif c == 21:
                a = rng.choice([0, 0, 1, 2, 3, 3])       # 3: unit='cell' without a mask
            elif c == 19:
                a = rng.randrange(2)
            elif c == 18:
                a = rng.randrange(3)
            elif c == 17:
                rk = nets.rank(cur)
                a = int(any(r == -1 for r in rk))
                if a:
                    cur = [i if rk[i] == -1 else cur[i] for i in range(nn)]
            elif c == 16:
                nonpit = [i for i in range(nn) if cur[i] >= 0 and cur[i] != i]
                a = rng.choice(nonpit) if nonpit else nets.pits(cur)[0]
                cur[a] = a
            if not raster and c == 13:
                c = 2          # the vector class has no basins(): query the pits instead
            ops.append((c, a))
        hasarea = int((not raster) and rng.random() < 0.5)       # vector objects built with user node areas
        if d8row and rng.random() < 0.6:
            ops = [(20, 0)] + ops          # saved and loaded before anything was computed
        yield {"k": 1201, "args": [[raster, cache, hasarea], [x for p in ops for x in p]],
               "call": dict({"ds": ds, "seed": rng.randrange(10**6)}, **({"d8row": d8row} if d8row else {})),
               "group": f"rand-{'raster' if raster else 'vector'}-cache{cache}" + ("-area" if hasarea else "") + ("-parsed" if d8row else "")}


def _arr(kind, k, n):
    r = np.random.RandomState(1000 * k + n + (7 if kind == "mask" else 0))
    if kind == "uparea":
        return r.randint(1, 50, size=n).astype(np.float64)
    if kind == "mask":
        return r.rand(n) < 0.6
    return r.randint(0, 9, size=n).astype(np.int64)


def _same(a, b):
    """equal; floats up to rounding (a memoised order may differ from the fresh object's default order,
    which changes the summation order of float accumulations)"""
    if isinstance(a, list) and isinstance(b, list):
        return len(a) == len(b) and all(_same(x, y) for x, y in zip(a, b))
    if isinstance(a, float) or isinstance(b, float):
        return a == b or abs(a - b) <= 2e-6 * max(abs(a), abs(b))     # float32 accumulations in a different order
    return a == b


def impl(case):
    import random, tempfile
    from common import call_impl, CACHE
    from implutil import ds_array
    import pyflwdir
    from pyflwdir.flwdir import Flwdir
    from affine import Affine
    a = case["args"]
    raster, cache = a[0][0], a[0][1]
    hasarea = a[0][2] if len(a[0]) > 2 else 0
    codes = a[1]
    ops = list(zip(codes[0::2], codes[1::2]))
    ds0 = case["call"]["ds"]
    n = len(ds0)
    rng = random.Random(case["call"]["seed"])
    shape = (1, n)

    user_area = (np.random.RandomState(n + 17).randint(1, 40, size=n) / 4.0).astype(np.float32)
    area_on = [bool(hasarea)]        # a dumped and re-loaded vector object keeps its node areas (reference objects are built with them)

    def build(idxs_ds, transform, latlon, cacheflag):
        arr = np.array(idxs_ds, dtype=np.int32).copy()
        if raster:
            return pyflwdir.FlwdirRaster(idxs_ds=arr, shape=shape, ftype="d8", transform=transform, latlon=latlon, cache=bool(cacheflag))
        return Flwdir(idxs_ds=arr, area=user_area.copy() if area_on[0] else None, cache=bool(cacheflag))
    tr = Affine(0.5, 0.0, 100.0, 0.0, -0.5, 40.0)
    latlon = False
    obj = build(ds_array(ds0), tr, latlon, cache)
    if raster and case["call"].get("d8row"):
        obj = pyflwdir.from_array(np.array(case["call"]["d8row"], dtype=np.uint8).reshape(shape), ftype="d8", transform=tr, latlon=latlon, cache=bool(cache))
    tcount = 0
    out = []

    def occ(o):
        c = o._cached
        return [int(o._pit is not None), int(o._seq is not None), int(o._nnodes is not None), int("rank" in c),
                int("idxs_us_main" in c), int("strord" in c), int("distnc" in c), int("area" in c), int(bool(o.cache))]

    def query(o, c, arg):
        R = (lambda x: x.reshape(shape)) if raster else (lambda x: x)
        if c == 0:
            return np.asarray(o.rank).ravel().tolist()
        if c == 1:
            return bool(o.isvalid)
        if c == 2:
            return sorted(int(x) for x in o.idxs_pit)
        if c == 3:
            return sorted(int(x) for x in o.idxs_seq)
        if c == 4:
            return int(o.nnodes)
        if c == 5:
            return np.asarray(o.idxs_us_main).ravel().tolist()
        if c == 6:
            return np.asarray(o.main_upstream(None if arg == 0 else R(_arr("uparea", arg, n)))).ravel().tolist()
        if c in (7, 8):
            m = None if arg == 0 else R(_arr("mask", arg, n))
            return np.asarray(o.stream_order(type="strahler" if c == 7 else "classic", mask=m)).ravel().tolist()
        if c == 9:
            return np.asarray(o.distnc).ravel().tolist()
        if c == 10:
            return np.asarray(o.area).ravel().tolist()
        if c == 11:
            return np.asarray(o.upstream_area("km2" if arg else "cell") if raster else o.upstream_area()).ravel().tolist()
        if c == 12:
            return np.asarray(o.accuflux(R(_arr("data", arg, n)))).ravel().tolist()
        if c == 13:
            if raster and arg == 5:
                # outlets handed over as a VIEW of the object's own cell order, moved onto a stream mask first: a query
                # must not write through its arguments into the object (round-5 seed)
                # (all ordered cells are outlets and only WHICH cells get a label is returned: that does not depend on the
                # order the object happens to hold, which legitimately differs from a fresh object's after order_cells)
                return (np.asarray(o.basins(idxs=o.idxs_seq, streams=R(_arr("mask", 1, n)))).ravel() > 0).tolist()
            if raster and arg:
                # exports must describe the CURRENT network (nextxy always succeeds; d8 may raise on far links)
                # arg 3: the default export (the object's own format) must not depend on earlier exports (round-5 seed)
                v = o.to_array() if arg == 3 else o.to_array({1: "nextxy", 2: "d8", 4: "ldd"}[arg])
                return [np.asarray(x).ravel().tolist() for x in (v if arg == 1 else [v])]
            return np.asarray(o.basins()).ravel().tolist() if raster else sorted(int(x) for x in o.idxs_pit)
        if c == 21:
            if arg == 3:      # counted in cells: -9999 (not the rank's -1) on cells that reach no pit, whatever ran before
                return np.asarray(o.stream_distance(unit="cell")).ravel().tolist()
            return np.asarray(o.stream_distance(mask=None if arg == 0 else R(_arr("mask", arg, n)), unit="m")).ravel().tolist()
        if c in (14, 15):
            start = np.array([n - 1])
            p, d = o.path(idxs=start, direction="up" if c == 14 else "down")
            return [[int(x) for x in p[0]], float(d[0])]
        raise ValueError(c)
    for c, arg in ops:
        flag = 1
        if c <= 15 or c == 21:
            st, v = call_impl(query, obj, c, arg, timeout=5)
            # the reference object always caches: a result may depend neither on the history nor on the cache setting
            fresh = build(np.asarray(obj.idxs_ds).copy(), obj.transform if raster else None, getattr(obj, "latlon", False), True)
            st2, v2 = call_impl(query, fresh, c, arg, timeout=5)
            if st != st2 or (st == "ok" and not _same(v, v2)):
                flag = 0
                out.append(occ(obj) + [flag])
                return out + [[-5, c, arg]]
        elif c == 16:
            obj.add_pits(idxs=np.array([arg, arg] if (arg + len(out)) % 2 else [arg]))      # also with a repeated location
        elif c == 17:
            obj.repair_loops()
        elif c == 18:
            # arg 0: new affine; 1: same affine, latlon flipped; 2: both
            if arg in (0, 2):
                tcount += 1
                tr = Affine(0.5 + 0.125 * tcount, 0.0, 100.0, 0.0, -0.5 - 0.25 * tcount, 40.0)
            if arg in (1, 2):
                latlon = not latlon
            obj.set_transform(tr, latlon)
        elif c == 19:
            obj.order_cells("sort" if arg == 0 else "walk")
        elif c == 20:
            d = os.path.join(CACHE, "c12")
            os.makedirs(d, exist_ok=True)
            fn = os.path.join(d, f"obj_{os.getpid()}.pkl")
            probe = case["call"].get("probe_dumpload") and not raster and area_on[0]
            obj.dump(fn)
            obj = (pyflwdir.FlwdirRaster if raster else Flwdir).load(fn)
            if probe:      # on second objects, so that the probe leaves no trace in the memo of the object under test
                upa0 = np.asarray(build(np.asarray(obj.idxs_ds).copy(), None, False, True).upstream_area())
                upa1 = np.asarray(Flwdir.load(fn).upstream_area())
            os.remove(fn)
            if probe and not np.array_equal(upa0, upa1):
                return out + [[-7]]
        out.append(occ(obj) + [flag])
    return out


def oracle(case, out):
    if out and out[-1] == [-7]:
        return ("dumpload:vector-area-lost", f"Flwdir(idxs_ds={case['call']['ds']}, area=a): upstream_area() before dump differs from "
                "upstream_area() of the loaded object (the node areas are not part of the dumped state)")
    if out and out[-1] and out[-1][0] == -5:
        c, arg = out[-1][1], out[-1][2]
        codes = case["args"][1]
        return (f"history:stale-op{c}", f"after the history {list(zip(codes[0::2], codes[1::2]))} on {case['call']['ds']} "
                f"(raster={case['args'][0][0]}, cache={case['args'][0][1]}) query op {c} arg {arg} differs from a fresh object")
    return None


def compare(case, i, m):
    return i == m


def nontrivial(case, out):
    codes = case["args"][1][0::2]
    return len(codes) >= 2 and any(c >= 16 or c in (6, 7, 8) for c in codes[:-1])
