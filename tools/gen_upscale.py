"""Fail-closed translator for the NON-ITERATIVE upscaling kernels of upscale.py (subidx_2_idx, in_d8, cell_edge, dmm_exitcell,
dmm_nextidx, eam_repcell, eam_nextidx, ihu_outlets, ihu_nextidx, upscale_error):  Python `ast`  ->  Gallina
(coq/generated/GenUpscale.v).  Registered into gen.GENERATORS on import, like gen_loops.py and gen_codec.py.

Every statement of a translated function is translated or GenError is raised: nothing is guessed and nothing is skipped.
Each generated definition is proved equal to the hand-written model of theories/Upscale.v (and, for the second result of
ihu_nextidx, of theories/Ihu.v) in theories/GenUpscale*Eq.v, so a change of the source changes the generated text and breaks a
proof.

Shapes of functions understood (anything else raises GenError):
  plain function   docstring? ; straight-line bindings with if / else, every path ends in `return <expr>`
  loop function    docstring? ; a sequence of  bindings | array initialisations | `assert A.size == B.size` | for loops ; return
    bindings       a, b = <shape parameter> | name = <scalar expression> (evaluated once: they may only use parameters and
                   earlier bindings, and are repeated at the head of every generated definition)
    arrays         x = np.full(<size>, mv, dtype=...) (element kind declared in FUNCS) | np.full(<size>, <int>, <dtype>)
                   | np.zeros(<size>, dtype=...) | np.array([bool(0) for _ in range(<size>)]) | [] | list()
    for loops      for v in range(<size>):  |  for v in <index array>:     the arrays / lists it updates are its state
    loop body      name = expr | arr[i] = expr | lst.append(i) | if / elif / else | continue | `while True:` loops (below)
    return         <array> | np.array(<list>, dtype=...) | a tuple of those
  exprs            names, integer constants, arr[i], shape[k], + - * // %, abs, int(.) and np.<int type>(.) casts, == != < <= > >=,
                   and / or / not, calls of functions translated earlier in this module, comparison with the missing value mv,
                   the half-integer float forms listed below

Conventions (those of the hand models Upscale.v / Ihu.v and of gen_codec.py):
  * integers are Z (Python floor division and modulo are Z./ and Z.modulo; a division by zero, an exception in Python, is 0 / the
    dividend as in the models); int(.) and np.<int type>(.) are the identity (no overflow modelling: property C16); dtype=
    arguments are not modelled: upstream areas are integers, as in the models.
  * cell numbers (loop counters over cells, elements of index arrays) are `nat`; they enter integer arithmetic through Z.of_nat;
    an integer used as an index or stored into an index array goes through Z.to_nat.  Every cell number has a KIND: F = pixel of
    the fine raster, C = cell of the coarse raster.  Arrays are typed (kind of their length, kind of their elements); an index
    must have the kind of the array's length, a stored element the kind of the array's elements, two compared cell numbers the
    same kind (anything else raises GenError).  A name has ONE type in a function; a name that is assigned both a cell number and
    an integer is an integer (the cell number is injected by Z.of_nat).
  * the missing value mv of index arrays is, as in the models, the number of cells of the kind of the ELEMENTS: NSUB := length of
    the fine network for pixels, NC := nrow * ncol (upscale_error: the length of idxs_ds) for coarse cells;  `x == mv` is
    `N <=? x`; reads are `nth i a N` (`nth i a 0` / `false` for integer / boolean arrays).
  * a local scalar that is assigned `mv` is an OPTIONAL cell number (option nat, None = mv; `x == mv` is true for None and for
    Some v with N <= v).  The missing value has no cell: a call of a translated function with an optional argument is the error
    value of the kind of its result when the argument is None (Python computes a dtype-dependent garbage index there; the
    source says `# assert subidx_ds != mv`).
  * `effective_area(x, subncol, cellsize, r_ratio)` (float square roots) is the abstract parameter `ea : nat -> bool` applied to x;
    the other arguments must be the kernel's own invariant subncol / cellsize / r_ratio.  cell_edge is translated and called.
  * `while True: ... break` is a Fixpoint over explicit fuel; the loop body is the step: `break` returns the state arrays that the
    loop updates and the variables that are read after the loop, the end of the body is the recursive call with the variables
    that were bound before the loop and are assigned in it.  The caller passes the fuel S NSUB (as the models do: a walk along
    a loop-free fine network takes at most NSUB steps).  Python has no counterpart of running out of fuel (the loop would not
    terminate); the generated function mirrors the models there (FUNCS[...]["exhaust"]):
      "after"  the loop is left with the state arrays as they are and every variable read after the loop set to the ERROR VALUE of its
               type: S NSUB for a pixel, S NC for a coarse cell, None for an optional cell number;
      "break"  (the loop has one `break`, the last statement of an `if` of the loop body) the break is taken, the statements
               before it in that branch are executed, with the variables bound earlier in the body set to their error values.
  * floats of dmm_nextidx.  Every float quantity there is an integer or a half-integer, hence exact in binary64 below 2^52; a
    half-integer q is represented by the integer 2q (type Z2):   a / 2  (a integer)  is Z2 a;   x // q  (x integer, q : Z2) is the
    integer (2x) / q, an integer-valued float that is treated as an integer;   e -+ c  (e integer, c a literal with 2c
    integer) is Z2 (2e -+ 2c);  integer - Z2 / Z2 - integer / Z2 +- Z2  double the integer;  abs of a Z2 is Z.abs;  a comparison
    of Z2 with Z2 or integer compares the doubled values.  Any other float form raises GenError.
  * module constant _mv: the default `mv=_mv` is accepted only if the module binds `_mv = core._mv` exactly once."""
import ast

import gen
from gen import GenError, fail, parse, find_def, is_np_call, zlit, const_int
from gen_codec import strip_doc, is_cast, global_const, INT_CASTS

FN = "upscale.py"
Z0 = ("Z", None)
FA = ("arr", "F", "F")      # fine network: fine length, pixels
REP = ("arr", "C", "F")     # one pixel per coarse cell
# parameter types: Z | shape | mv | skip | ("arr", <kind of the length>, <element: F, C, Z, B>)
FUNCS = [
    dict(name="subidx_2_idx", params={"subidx": "Z", "subncol": "Z", "cellsize": "Z", "ncol": "Z"}, ret=("Z", "C")),
    dict(name="in_d8", params={"idx0": "Z", "idx_ds": "Z", "ncol": "Z"}, ret="bool"),
    dict(name="cell_edge", params={"subidx": "Z", "subncol": "Z", "cellsize": "Z"}, ret="bool"),
    dict(name="dmm_exitcell", params={"subidxs_ds": FA, "subuparea": ("arr", "F", "Z"), "subshape": "shape", "shape": "shape",
                                      "cellsize": "Z", "mv": "mv"}, nsub="subidxs_ds", nc="shape", locals={"subidxs_rep": "F"}),
    dict(name="dmm_nextidx", params={"subidxs_rep": REP, "subidxs_ds": FA, "subshape": "shape", "shape": "shape", "cellsize": "Z",
                                     "mv": "mv"}, nsub="subidxs_ds", nc="shape", locals={"idxs_ds": "C"}),
    dict(name="eam_repcell", params={"subidxs_ds": FA, "subuparea": ("arr", "F", "Z"), "subshape": "shape", "shape": "shape",
                                     "cellsize": "Z", "r_ratio": "skip", "mv": "mv"}, nsub="subidxs_ds", nc="shape",
         locals={"subidxs_rep": "F"}, abstract={"effective_area": "ea"}),
    dict(name="eam_nextidx", params={"subidxs_rep": REP, "subidxs_ds": FA, "subshape": "shape", "shape": "shape", "cellsize": "Z",
                                     "r_ratio": "skip", "mv": "mv"}, nsub="subidxs_ds", nc="shape", locals={"idxs_ds": "C"},
         abstract={"effective_area": "ea"}),
    dict(name="ihu_outlets", params={"subidxs_rep": REP, "subidxs_ds": FA, "subuparea": ("arr", "F", "Z"), "subshape": "shape",
                                     "shape": "shape", "cellsize": "Z", "mv": "mv"}, nsub="subidxs_ds", nc="shape",
         locals={"subidxs_out": "F"}),
    dict(name="ihu_nextidx", params={"subidxs_out": REP, "subidxs_ds": FA, "subshape": "shape", "shape": "shape", "cellsize": "Z",
                                     "r_ratio": "skip", "mv": "mv"}, nsub="subidxs_ds", nc="shape", locals={"idxs_ds": "C"},
         abstract={"effective_area": "ea"}),
    dict(name="upscale_error", params={"subidxs_out": REP, "idxs_ds": ("arr", "C", "C"), "subidxs_ds": FA, "mv": "mv"},
         nsub="subidxs_ds", nc="idxs_ds", exhaust="break"),
]
# the signature that an abstracted callee must have in the source, and the caller's arguments that must be passed as they are
ABSTRACT_SIG = {"effective_area": (["subidx", "subncol", "cellsize", "r_ratio"], ["subncol", "cellsize", "r_ratio"])}
RESERVED = {"st", "NSUB", "NC", "ea", "fuel", "v_", "S", "O", "fun", "let", "in", "if", "then", "else", "match", "with",
            "end", "as", "return", "forall", "exists", "fix", "cofix", "Type", "Prop", "Set", "at", "using", "where", "for", "fst",
            "snd", "nth", "upd", "seq", "length", "repeat", "fold_left", "Some", "None", "true", "false", "negb", "nil", "Z", "nat",
            "option"}
BUILTINS = ("np", "int", "abs", "core", "range", "bool", "list", "_mv")
ELEM_DEFAULT = {"F": "NSUB", "C": "NC", "Z": "0%Z", "B": "false"}
ELEM_COQ = {"F": "list nat", "C": "list nat", "Z": "list Z", "B": "list bool"}


def isZ(t):
    return isinstance(t, tuple) and t[0] == "Z"


def isnat(t):
    return isinstance(t, tuple) and t[0] == "nat"


def isopt(t):
    return isinstance(t, tuple) and t[0] == "opt"


def isarr(t):
    return isinstance(t, tuple) and t[0] == "arr"


def islist(t):
    return isinstance(t, tuple) and t[0] == "list"


def coqty(t):
    if isZ(t) or t == "Z2":
        return "Z"
    if isnat(t) or (isinstance(t, tuple) and t[0] == "len"):
        return "nat"
    if t == "bool":
        return "bool"
    if isopt(t):
        return "option nat"
    if isarr(t):
        return ELEM_COQ[t[2]]
    if islist(t):
        return "list nat"
    if t == "shape":
        return "Z * Z"
    raise GenError(f"{FN}: no Gallina type for {t}")


def errval(t, node):
    """the value of a variable of type t when a while loop runs out of fuel"""
    if isnat(t) and t[1] in ("F", "C"):
        return "(S NSUB)" if t[1] == "F" else "(S NC)"
    if isZ(t) and t[1] in ("F", "C"):
        return "(Z.of_nat (S NSUB))" if t[1] == "F" else "(Z.of_nat (S NC))"
    if isopt(t):
        return "None"
    fail(node, FN, f"a value of type {t} has no error value")


def join(ts, name, node):
    ts = set(ts)
    if len(ts) == 1:
        return next(iter(ts))
    nats = [t for t in ts if isnat(t)]
    if all(isnat(t) or isZ(t) for t in ts) and len({t[1] for t in ts}) == 1:
        return ("Z", nats[0][1])
    if "mv" in ts and len(ts) == 2 and len(nats) == 1:
        return ("opt", nats[0][1])
    if "mv" in ts and len(ts) == 2 and any(isopt(t) for t in ts):
        return next(t for t in ts if isopt(t))
    fail(node, FN, f"{name} is assigned values of incompatible types {sorted(map(str, ts))}")


def names_loaded(stmts):
    return {n.id for s in stmts for n in ast.walk(s) if isinstance(n, ast.Name) and isinstance(n.ctx, ast.Load)}


def names_stored(stmts):
    out = []
    for s in stmts:
        for n in ast.walk(s):
            if isinstance(n, ast.Name) and isinstance(n.ctx, ast.Store) and n.id not in out:
                out.append(n.id)
    return out


def modified(stmts):
    """arrays stored into / lists appended to"""
    out = set()
    for s in stmts:
        for n in ast.walk(s):
            if isinstance(n, ast.Subscript) and isinstance(n.ctx, ast.Store) and isinstance(n.value, ast.Name):
                out.add(n.value.id)
            if (isinstance(n, ast.Call) and isinstance(n.func, ast.Attribute) and n.func.attr == "append"
                    and isinstance(n.func.value, ast.Name)):
                out.add(n.func.value.id)
            if isinstance(n, ast.AugAssign):
                for m in ast.walk(n.target):
                    if isinstance(m, ast.Name):
                        out.add(m.id)
    return out


class K:
    """what the end of a block / a break means"""

    def __init__(self, mode, end=None, brk=None):
        self.mode, self.end, self.brk = mode, end, brk


class Fn:
    """translation context of one function"""

    def __init__(self, spec, tree, reg, forced):
        self.spec, self.tree, self.reg, self.forced = spec, tree, reg, forced
        self.fd = find_def(tree, spec["name"], FN)
        self.coqname = f"gen_up_{spec['name']}"
        self.env = {}            # python name -> (coq text, type, scope: global / ctx / local)
        self.raw = {}            # python name -> set of the types assigned to it (before coercion)
        self.dirty = False       # a name was used at two types in this pass
        self.state = []          # arrays / lists updated by the current for loop
        self.glets = []          # header and prologue bindings, repeated in every definition
        self.aux = []            # Fixpoints and step definitions, in order
        self.ctxb = []           # binders of the context arrays of the current for loop
        self.pre = []            # preconditions (assert)
        self.ret = spec.get("ret")
        self.nwalk = 0
        self.walks = {}          # id of a While node -> generated text
        self.assigned = set(names_stored([self.fd]))
        for n in ast.walk(self.fd):
            if isinstance(n, (ast.Lambda, ast.FunctionDef, ast.DictComp, ast.SetComp, ast.GeneratorExp, ast.Global, ast.Nonlocal,
                              ast.Try, ast.With, ast.NamedExpr, ast.Starred, ast.Yield, ast.Await, ast.Raise, ast.Delete,
                              ast.AsyncFor, ast.ClassDef, ast.Import, ast.ImportFrom)) and n is not self.fd:
                fail(n, FN, f"unsupported construct {type(n).__name__}")
        for n in ast.walk(self.fd):
            nm = n.id if isinstance(n, ast.Name) else n.arg if isinstance(n, ast.arg) else None
            if nm is not None and (nm in RESERVED or nm.startswith("gen_up_") or "'" in nm):
                fail(n, FN, f"name {nm} clashes with a name of the generated text")
        for nm in BUILTINS + tuple(spec.get("abstract", {})) + tuple(f["name"] for f in FUNCS):
            if nm in self.assigned or nm in spec["params"]:
                fail(self.fd, FN, f"{nm} is rebound inside the function")
        # `x = mv`: x is an optional cell number
        for n in ast.walk(self.fd):
            if (isinstance(n, ast.Assign) and len(n.targets) == 1 and isinstance(n.targets[0], ast.Name)
                    and isinstance(n.value, ast.Name) and spec["params"].get(n.value.id) == "mv"):
                self.raw.setdefault(n.targets[0].id, set()).add("mv")

    # ---------------------------------------------------------------- header
    def header(self):
        a = self.fd.args
        if a.vararg or a.kwarg or a.kwonlyargs or a.posonlyargs:
            fail(self.fd, FN, "unsupported parameter kind")
        names = [x.arg for x in a.args]
        if names != list(self.spec["params"]):
            fail(self.fd, FN, f"signature of {self.fd.name} changed: {names}")
        defaults = dict(zip(names[len(names) - len(a.defaults):], a.defaults))
        self.binders, self.args = [], []
        for p, t in self.spec["params"].items():
            d = defaults.get(p)
            if t == "mv":
                if not (isinstance(d, ast.Name) and d.id == "_mv"):
                    fail(self.fd, FN, f"default of {p} is not the module constant _mv")
                global_const(self.tree, "_mv", FN)
                v = gen.find_assign(self.tree, "_mv", FN)
                if not (isinstance(v, ast.Attribute) and isinstance(v.value, ast.Name) and v.value.id == "core" and v.attr == "_mv"):
                    fail(v, FN, "_mv is not core._mv")
                self.env[p] = ("", "mv", "global")
                continue
            if t == "skip":
                if not (isinstance(d, ast.Constant) and isinstance(d.value, float)):
                    fail(self.fd, FN, f"parameter {p}: a float default is expected")
                self.env[p] = ("", "skip", "global")
                continue
            if d is not None:
                fail(self.fd, FN, f"unexpected default of {p}")
            ty = Z0 if t == "Z" else t
            self.binders.append(f"({p} : {coqty(ty)})")
            self.args.append(p)
            self.env[p] = (p, ty, "global")
        for callee, par in self.spec.get("abstract", {}).items():
            sig, _ = ABSTRACT_SIG[callee]
            if sum(isinstance(n, ast.FunctionDef) and n.name == callee for n in self.tree.body) != 1:
                fail(self.fd, FN, f"{callee} is not defined exactly once in the module")
            if [x.arg for x in find_def(self.tree, callee, FN).args.args] != sig:
                fail(self.fd, FN, f"signature of {callee} changed")
            self.binders.append(f"({par} : nat -> bool)")
            self.args.append(par)
        if "nsub" in self.spec:
            self.glets.append(f"let NSUB := length {self.spec['nsub']} in")
        if self.spec.get("nc") not in (None, "shape"):
            self.glets.append(f"let NC := length {self.spec['nc']} in")

    def have(self, what, node):
        if not any(l.startswith(f"let {what} :=") for l in self.glets):
            fail(node, FN, f"{what} is used before it is defined")

    # ---------------------------------------------------------------- expressions
    def lookup(self, e):
        if e.id in self.env:
            c, t, _ = self.env[e.id]
            if t == "skip":
                fail(e, FN, f"parameter {e.id} is not modelled")
            return c, t
        fail(e, FN, f"unknown name {e.id}")

    def toZ(self, c, t, node):
        if isZ(t):
            return c
        if isnat(t):
            return f"(Z.of_nat {c})"
        fail(node, FN, f"integer expected, got {t}")

    def exZ(self, e):
        c, t = self.ex(e)
        return self.toZ(c, t, e)

    def tonat(self, c, t, kind, node):
        """a value used as a cell number of the given kind (array index, element of an index array)"""
        if not ((isnat(t) or isZ(t)) and t[1] == kind):
            fail(node, FN, f"a cell number of kind {kind} is expected, got {t}")
        return c if isnat(t) else f"(Z.to_nat {c})"

    def mvtest(self, c, t, node):
        """x == mv"""
        if isnat(t) and t[1] in ("F", "C"):
            n = "NSUB" if t[1] == "F" else "NC"
            self.have(n, node)
            return f"({n} <=? {c})%nat"
        if isopt(t):
            n = "NSUB" if t[1] == "F" else "NC"
            self.have(n, node)
            return f"(match {c} with None => true | Some v_ => ({n} <=? v_)%nat end)"
        if t == "mv":       # only in a pass whose output is discarded
            self.dirty = True
            return "true"
        fail(node, FN, f"comparison of a value of type {t} with the missing value")

    def half(self, e):
        """2c for a numeric literal c with 2c integer"""
        if isinstance(e, ast.Constant) and type(e.value) in (int, float) and float(2 * e.value).is_integer():
            return int(2 * e.value)
        return None

    def ex(self, e):
        """(coq text, type)"""
        if isinstance(e, ast.Constant):
            if isinstance(e.value, bool):
                return ("true" if e.value else "false"), "bool"
            if type(e.value) is int:
                return zlit(e.value), Z0
            fail(e, FN, "unsupported constant")
        if isinstance(e, ast.Name):
            return self.lookup(e)
        if isinstance(e, ast.UnaryOp) and isinstance(e.op, ast.USub):
            if isinstance(e.operand, ast.Constant) and type(e.operand.value) is int:
                return zlit(-e.operand.value), Z0
            return f"(- {self.exZ(e.operand)})%Z", Z0
        if isinstance(e, ast.UnaryOp) and isinstance(e.op, ast.Not):
            c, t = self.ex(e.operand)
            if t != "bool":
                fail(e, FN, "not of a non-boolean")
            return f"(negb {c})", "bool"
        if isinstance(e, ast.Attribute) and isinstance(e.value, ast.Name) and e.attr == "size":
            c, t = self.lookup(e.value)
            if not isarr(t):
                fail(e, FN, "size of a value that is not an array")
            return f"(length {c})", ("len", t[1])
        if isinstance(e, ast.Subscript):
            bc, bt = self.ex(e.value)
            if isarr(bt):
                if isinstance(e.slice, ast.UnaryOp) or isinstance(e.slice, (ast.Slice, ast.Tuple)):
                    fail(e, FN, "unsupported array index")
                i = self.tonat(*self.ex(e.slice), bt[1], e)
                if bt[2] in ("F", "C"):
                    self.have(ELEM_DEFAULT[bt[2]], e)
                    return f"(nth {i} {bc} {ELEM_DEFAULT[bt[2]]})", ("nat", bt[2])
                return f"(nth {i} {bc} {ELEM_DEFAULT[bt[2]]})", (Z0 if bt[2] == "Z" else "bool")
            if bt == "shape":
                k = const_int(e.slice, FN)
                if k not in (0, 1):
                    fail(e, FN, "shape component out of range")
                return f"({'fst' if k == 0 else 'snd'} {bc})", Z0
            fail(e, FN, f"subscript of a value of type {bt}")
        if is_cast(e):
            return self.exZ(e.args[0]), Z0
        if isinstance(e, ast.Call) and isinstance(e.func, ast.Name) and e.func.id == "abs" and len(e.args) == 1 and not e.keywords:
            c, t = self.ex(e.args[0])
            if t == "Z2":
                return f"(Z.abs {c})", "Z2"
            return f"(Z.abs {self.toZ(c, t, e)})", Z0
        if isinstance(e, ast.Call) and isinstance(e.func, ast.Name):
            if e.func.id in self.spec.get("abstract", {}):
                return self.call_abstract(e)
            return self.call(e)
        if isinstance(e, ast.BinOp):
            return self.binop(e)
        if isinstance(e, ast.Compare):
            return self.compare(e)
        if isinstance(e, ast.BoolOp):
            op = " && " if isinstance(e.op, ast.And) else " || "
            parts = []
            for v in e.values:
                c, t = self.ex(v)
                if t != "bool":
                    fail(v, FN, "non-boolean operand of and / or")
                parts.append(c)
            out = parts[0]
            for p in parts[1:]:
                out = f"({out}{op}{p})"
            return out, "bool"
        fail(e, FN, f"unsupported expression {ast.dump(e)[:80]}")

    def binop(self, e):
        # half-integer floats (see the module docstring)
        if isinstance(e.op, ast.Div):
            if isinstance(e.right, ast.Constant) and type(e.right.value) is int and e.right.value == 2:
                c, t = self.ex(e.left)
                if isZ(t):
                    return c, "Z2"
            fail(e, FN, "unsupported true division")
        if isinstance(e.op, (ast.Add, ast.Sub)) and self.half(e.right) is not None and type(e.right.value) is float:
            c, t = self.ex(e.left)
            if not isZ(t) and not isnat(t):
                fail(e, FN, "unsupported float arithmetic")
            sym = "+" if isinstance(e.op, ast.Add) else "-"
            return f"(2 * {self.toZ(c, t, e)} {sym} {zlit(self.half(e.right))})%Z", "Z2"
        op = {ast.Add: "+", ast.Sub: "-", ast.Mult: "*", ast.FloorDiv: "/", ast.Mod: "mod"}.get(type(e.op))
        if op is None:
            fail(e, FN, f"unsupported operator {type(e.op).__name__}")
        (a, ta), (b, tb) = self.ex(e.left), self.ex(e.right)
        if "Z2" in (ta, tb):
            if op == "/" and tb == "Z2" and (isZ(ta) or isnat(ta)):
                return f"((2 * {self.toZ(a, ta, e)}) / {b})%Z", Z0
            if op in ("+", "-"):
                a2 = a if ta == "Z2" else f"(2 * {self.toZ(a, ta, e)})"
                b2 = b if tb == "Z2" else f"(2 * {self.toZ(b, tb, e)})"
                return f"({a2} {op} {b2})%Z", "Z2"
            fail(e, FN, "unsupported float arithmetic")
        return f"({self.toZ(a, ta, e)} {op} {self.toZ(b, tb, e)})%Z", Z0

    def compare(self, e):
        if len(e.ops) != 1:
            fail(e, FN, "chained comparison")
        (a, ta), (b, tb), op = self.ex(e.left), self.ex(e.comparators[0]), type(e.ops[0])
        if "mv" in (ta, tb) and op in (ast.Eq, ast.NotEq):
            x, tx = (b, tb) if ta == "mv" else (a, ta)
            c = self.mvtest(x, tx, e)
            return (c if op is ast.Eq else f"(negb {c})"), "bool"
        if "Z2" in (ta, tb):
            a2 = a if ta == "Z2" else f"(2 * {self.toZ(a, ta, e)})%Z"
            b2 = b if tb == "Z2" else f"(2 * {self.toZ(b, tb, e)})%Z"
            a, b = a2, b2
        else:
            if (isnat(ta) or isZ(ta)) and (isnat(tb) or isZ(tb)) and ta[1] and tb[1] and ta[1] != tb[1]:
                fail(e, FN, f"comparison of cell numbers of different kinds ({ta[1]}, {tb[1]})")
            if isnat(ta) and isnat(tb) and op in (ast.Eq, ast.NotEq):
                c = f"({a} =? {b})%nat"
                return (c if op is ast.Eq else f"(negb {c})"), "bool"
            a, b = self.toZ(a, ta, e), self.toZ(b, tb, e)
        if op is ast.NotEq:
            return f"(negb ({a} =? {b})%Z)", "bool"
        sym = {ast.Eq: "=?", ast.Lt: "<?", ast.LtE: "<=?", ast.Gt: ">?", ast.GtE: ">=?"}.get(op)
        if sym is None:
            fail(e, FN, "unsupported comparison")
        return f"({a} {sym} {b})%Z", "bool"

    def call_abstract(self, e):
        """effective_area(x, subncol, cellsize, r_ratio)  ->  ea x"""
        name = e.func.id
        sig, same = ABSTRACT_SIG[name]
        actual = dict(zip(sig, e.args))
        if len(e.args) > len(sig):
            fail(e, FN, "too many arguments")
        for kw in e.keywords:
            if kw.arg is None or kw.arg not in sig or kw.arg in actual:
                fail(e, FN, "unsupported keyword argument")
            actual[kw.arg] = kw.value
        if set(actual) != set(sig):
            fail(e, FN, f"{name}: every argument must be given")
        for p in same:
            a = actual[p]
            if not (isinstance(a, ast.Name) and a.id == p and p in self.env and self.env[p][2] == "global"):
                fail(e, FN, f"{name}: argument {p} is not the kernel's own invariant {p}")
        c, t = self.ex(actual[sig[0]])
        if t != ("nat", "F"):
            fail(e, FN, f"{name}: a pixel is expected, got {t}")
        return f"({self.spec['abstract'][name]} {c})", "bool"

    def call(self, e):
        """call of a plain function of this module that was translated before"""
        callee = self.reg.get(e.func.id)
        if callee is None or e.func.id in self.env:
            fail(e, FN, f"unsupported call {e.func.id}")
        pnames = list(callee["params"])
        if e.keywords or len(e.args) != len(pnames):
            fail(e, FN, f"{e.func.id}: exactly the positional arguments are expected")
        out, optarg = [], None
        for p, a in zip(pnames, e.args):
            c, t = self.ex(a)
            if isopt(t):
                if optarg is not None:
                    fail(e, FN, "two optional arguments")
                optarg = c
                out.append("(Z.of_nat v_)")
            else:
                out.append(self.toZ(c, t, a))
        txt = f"({callee['coq']} {' '.join(out)})"
        if optarg is not None:
            self.have("NC", e)
            return f"(match {optarg} with Some v_ => {txt} | None => {errval(callee['ret'], e)} end)", callee["ret"]
        return txt, callee["ret"]

    # ---------------------------------------------------------------- statements
    def coerce(self, c, t, target):
        if t == target:
            return c
        if isnat(t) and isZ(target) and t[1] == target[1]:
            return f"(Z.of_nat {c})"
        if t == "mv" and isopt(target):
            return "None"
        if isnat(t) and target == ("opt", t[1]):
            return f"(Some {c})"
        self.dirty = True
        return c

    def bind(self, name, c, t, node, scope):
        """the binding `let name := c in` of a scalar"""
        if name in self.spec["params"]:
            fail(node, FN, f"assignment to parameter {name}")
        if name in self.env and self.env[name][2] != scope:
            fail(node, FN, f"{name} is bound both outside and inside a loop")
        if name in self.env and (isarr(self.env[name][1]) or islist(self.env[name][1])):
            fail(node, FN, f"{name} is an array")
        self.raw.setdefault(name, set()).add(t)
        if name in self.forced:
            c, t = self.coerce(c, t, self.forced[name]), self.forced[name]
        elif len(self.raw[name]) > 1:
            self.dirty = True
        self.env[name] = (name, t, scope)
        return f"let {name} := {c} in"

    def lets(self, s, scope):
        """the bindings of a statement that only binds scalars, else None"""
        if not (isinstance(s, ast.Assign) and len(s.targets) == 1):
            return None
        t, v = s.targets[0], s.value
        if isinstance(t, ast.Name):
            c, ty = self.ex(v)
            if not (isnat(ty) or isZ(ty) or isopt(ty) or ty in ("bool", "Z2", "mv") or (isinstance(ty, tuple) and ty[0] == "len")):
                fail(s, FN, f"unsupported local value of type {ty}")
            return [self.bind(t.id, c, ty, s, scope)]
        if isinstance(t, ast.Tuple) and all(isinstance(x, ast.Name) for x in t.elts):
            names = [x.id for x in t.elts]
            if len(names) != 2 or not isinstance(v, ast.Name):
                fail(s, FN, "unsupported tuple assignment")
            c, ty = self.ex(v)
            if ty != "shape":
                fail(s, FN, "unsupported tuple assignment")
            real = [nm for nm in names if nm != "_"]
            if len(set(real)) != len(real):
                fail(s, FN, "repeated name in a tuple assignment")
            for nm in real:
                self.bind(nm, "", Z0, s, scope)
            out = [f"let '({', '.join(names)}) := {c} in"]
            if self.spec.get("nc") == "shape" and v.id == "shape":
                if "_" in names or any(l.startswith("let NC :=") for l in self.glets + out[:-1]) or scope != "global":
                    fail(s, FN, "the coarse shape is destructured in an unexpected way")
                out.append(f"let NC := Z.to_nat ({names[0]} * {names[1]})%Z in")
            return out
        return None

    def tuple_of(self, parts):
        return parts[0] if len(parts) == 1 else "(" + ", ".join(parts) + ")"

    def pat_of(self, names):
        return names[0] if len(names) == 1 else "'(" + ", ".join(names) + ")"

    def terminal_last(self, body):
        for k, s in enumerate(body):
            if isinstance(s, (ast.Continue, ast.Break, ast.Return)) and k != len(body) - 1:
                fail(body[k + 1], FN, "unreachable statement")
            if isinstance(s, ast.If):
                self.terminal_last(s.body)
                self.terminal_last(s.orelse)
            if isinstance(s, (ast.While, ast.For)):
                self.terminal_last(s.body)

    def block(self, body, ind, k):
        pad = " " * ind
        if not body:
            if k.mode == "plain":
                fail(self.fd, FN, "a path of the function ends without return")
            return pad + k.end()
        s, rest = body[0], body[1:]
        if isinstance(s, ast.Continue):
            if k.mode != "for":
                fail(s, FN, "continue outside the body of a for loop")
            return pad + k.end()           # `rest` is the continuation of an enclosing block (see terminal_last)
        if isinstance(s, ast.Break):
            if k.mode != "while":
                fail(s, FN, "break outside a while loop")
            return pad + k.brk(s)
        if isinstance(s, ast.Return):
            if k.mode != "plain":
                fail(s, FN, "return inside a loop")
            c, t = self.ex(s.value) if s.value is not None else fail(s, FN, "return without a value")
            if t != self.ret and not (isZ(t) and isZ(self.ret)):
                fail(s, FN, f"return type {t} differs from {self.ret}")
            return pad + c
        ls = self.lets(s, "local" if k.mode != "plain" else "global")
        if ls is not None:
            return "".join(pad + l + "\n" for l in ls) + self.block(rest, ind, k)
        if k.mode != "plain" and isinstance(s, ast.Assign) and len(s.targets) == 1 and isinstance(s.targets[0], ast.Subscript) \
                and isinstance(s.targets[0].value, ast.Name):
            arr = s.targets[0].value.id
            if arr not in self.state or not isarr(self.env[arr][1]):
                fail(s, FN, f"store into {arr}, which is not an array of the loop state")
            at = self.env[arr][1]
            if isinstance(s.targets[0].slice, (ast.UnaryOp, ast.Slice, ast.Tuple)):
                fail(s, FN, "unsupported array index")
            i = self.tonat(*self.ex(s.targets[0].slice), at[1], s)
            c, t = self.ex(s.value)
            if at[2] in ("F", "C"):
                v = self.tonat(c, t, at[2], s)
            elif at[2] == "Z":
                v = c if isZ(t) else fail(s, FN, "an integer is expected")
            else:
                v = c if t == "bool" else fail(s, FN, "a boolean is expected")
            return f"{pad}let {arr} := upd {arr} {i} {v} in\n" + self.block(rest, ind, k)
        if (k.mode != "plain" and isinstance(s, ast.Expr) and isinstance(s.value, ast.Call) and isinstance(s.value.func, ast.Attribute)
                and s.value.func.attr == "append" and isinstance(s.value.func.value, ast.Name) and len(s.value.args) == 1
                and not s.value.keywords):
            lst = s.value.func.value.id
            if lst not in self.state or not islist(self.env[lst][1]):
                fail(s, FN, f"{lst} is not a list of the loop state")
            c, t = self.ex(s.value.args[0])
            if not isnat(t):
                fail(s, FN, "only cell numbers are appended")
            lk = self.env[lst][1][1]
            if lk is None:
                self.env[lst] = (lst, ("list", t[1]), self.env[lst][2])
                self.listkind[lst] = t[1]
            elif lk != t[1]:
                fail(s, FN, "cell numbers of different kinds in one list")
            return f"{pad}let {lst} := {lst} ++ [{c}] in\n" + self.block(rest, ind, k)
        if isinstance(s, ast.If):
            c, t = self.ex(s.test)
            if t != "bool":
                fail(s, FN, "non-boolean condition")
            saved = dict(self.env)
            a = self.block(list(s.body) + rest, ind + 2, k)
            self.env = dict(saved)
            b = self.block(list(s.orelse) + rest, ind + 2, k)
            self.env = saved
            return f"{pad}if {c} then\n{a}\n{pad}else\n{b}"
        if isinstance(s, ast.While):
            return self.do_while(s, rest, ind, k)
        fail(s, FN, f"unsupported statement {type(s).__name__}")

    # ---------------------------------------------------------------- while True
    def do_while(self, s, rest, ind, k):
        pad = " " * ind
        if k.mode != "for":
            fail(s, FN, "a while loop is only understood inside the body of a for loop")
        if not (isinstance(s.test, ast.Constant) and s.test.value is True) or s.orelse:
            fail(s, FN, "only `while True:` is understood")
        for n in ast.walk(s):
            if isinstance(n, (ast.For, ast.While, ast.Continue, ast.Return)) and n is not s:
                fail(n, FN, f"{type(n).__name__} inside a while loop")
        if id(s) in self.walks:
            fail(s, FN, "a while loop that follows an if / else without continue would be translated twice")
        self.have("NSUB", s)
        stored = names_stored(s.body)
        mods = modified(s.body)
        for n in mods:
            if n not in self.state:
                fail(s, FN, f"the loop updates {n}, which is not an array of the state of the for loop")
        wstate = [n for n in self.state if n in mods]
        carried = [n for n in stored if n in self.env]
        for n in carried:
            if self.env[n][2] != "local" or n in self.state:
                fail(s, FN, f"the loop assigns {n}, which is not a local scalar")
        reads_rest = names_loaded(rest)
        liveout = [n for n in stored if n in reads_rest]
        reads_body = names_loaded(s.body)
        inv = [n for n in self.env if (self.env[n][2] == "local" or n in self.state) and n in reads_body
               and n not in carried and n not in wstate]
        self.nwalk += 1
        wname = f"{self.coqname}_walk" + ("" if self.nwalk == 1 else str(self.nwalk))
        base = dict(self.env)
        entry = {n: base[n][1] for n in carried}
        head = f"{wname} {' '.join(self.args + [b.split()[0][1:] for b in self.ctxb])}".rstrip()
        rtypes, breaks = {}, []

        def end():
            args = []
            for n in carried:
                c, t, _ = self.env[n]
                if t != entry[n]:
                    self.dirty = True
                args.append(c)
            return f"{head} fuel' " + " ".join(inv + wstate + args)

        def brk(node):
            parts = list(wstate)
            for n in liveout:
                if n not in self.env:
                    fail(node, FN, f"{n} is read after the loop but not bound at this break")
                c, t, _ = self.env[n]
                if rtypes.setdefault(n, t) != t:
                    self.dirty = True
                parts.append(c)
            if not any(b is node for b in breaks):
                breaks.append(node)
            return self.tuple_of(parts)

        self.env = {n: v for n, v in base.items() if v[2] != "local" or n in inv or n in carried}
        for n in base:
            if n in self.state and n not in inv and n not in wstate:
                del self.env[n]
        wenv = dict(self.env)
        wk = K("while", end, brk)
        stext = self.block(list(s.body), 4, wk)
        if not breaks:
            fail(s, FN, "the loop has no break")
        if not wstate and not liveout:
            fail(s, FN, "the loop has no effect")
        # out of fuel
        mode = self.spec.get("exhaust", "after")
        self.env = dict(wenv)
        if mode == "after":
            otext = "    " + self.tuple_of(list(wstate) + [errval(rtypes[n], s) for n in liveout])
        elif mode == "break":
            ifs = [x for x in s.body if isinstance(x, ast.If) and x.body and isinstance(x.body[-1], ast.Break)]
            if len(breaks) != 1 or len(ifs) != 1 or ifs[0].body[-1] is not breaks[0]:
                fail(s, FN, "exhaust=break: one break, at the end of an if of the loop body, is expected")
            lines = []
            for x in s.body[:s.body.index(ifs[0])]:
                if not (isinstance(x, ast.Assign) and len(x.targets) == 1 and isinstance(x.targets[0], ast.Name)):
                    fail(x, FN, "exhaust=break: only bindings may precede the if")
                nm = x.targets[0].id
                ty = self.alltypes.get((id(s), nm))
                if ty is None:
                    fail(x, FN, f"type of {nm} is not known")
                self.env[nm] = (nm, ty, "local")
                lines.append(f"    let {nm} := {errval(ty, x)} in\n")
            otext = "".join(lines) + self.block(list(ifs[0].body), 4, wk)
        else:
            fail(s, FN, f"unknown exhaust mode {mode}")
        rt = [coqty(base[n][1]) for n in wstate] + [coqty(rtypes[n]) for n in liveout]
        bind = ([f"(fuel : nat)"] + [f"({n} : {coqty(base[n][1])})" for n in inv + wstate + carried])
        text = [f"Fixpoint {wname} {' '.join(self.binders + self.ctxb + bind)} {{struct fuel}} : {' * '.join(rt)} :="]
        text += ["  " + l for l in self.glets]
        text += ["  match fuel with", "  | O =>", otext, "  | S fuel' =>", stext, "  end."]
        self.walks[id(s)] = "\n".join(text)
        self.aux.append(self.walks[id(s)])
        # the call
        self.env = dict(base)
        for n in carried:
            if n not in liveout:
                del self.env[n]      # its value after the loop is not returned
        for n in liveout:
            self.env[n] = (n, rtypes[n], "local")
        call = f"{head} (S NSUB) " + " ".join(inv + wstate + carried)
        return f"{pad}let {self.pat_of(wstate + liveout)} := {call} in\n" + self.block(rest, ind, k)

    # ---------------------------------------------------------------- plain functions
    def plain(self):
        self.header()
        self.terminal_last(self.fd.body)
        body = self.block(strip_doc(list(self.fd.body)), 2, K("plain"))
        out = [f"(* {FN}: {self.fd.name} *)", f"Definition {self.coqname} {' '.join(self.binders)} : {coqty(self.ret)} :="]
        return "\n".join(out) + "\n" + body + "."

    # ---------------------------------------------------------------- loop functions
    def array_init(self, name, v, node):
        """(initial value, type) of a local array / list, else None"""
        if isinstance(v, ast.List) and not v.elts:
            return "(@nil nat)", ("list", self.listkind.get(name))
        if isinstance(v, ast.Call) and isinstance(v.func, ast.Name) and v.func.id == "list" and not v.args and not v.keywords:
            return "(@nil nat)", ("list", self.listkind.get(name))
        if is_np_call(v, ("full", "zeros")):
            dt = [kw for kw in v.keywords if kw.arg == "dtype"]
            nargs = 2 if v.func.attr == "full" else 1
            pos = list(v.args)
            if len(pos) == nargs + 1 and not dt:
                pos = pos[:-1]          # the dtype given by position
            if len(pos) != nargs or len(dt) != len(v.keywords):
                fail(node, FN, f"unsupported np.{v.func.attr}")
            n, lk = self.size(pos[0])
            if v.func.attr == "zeros":
                return f"(repeat 0%Z {n})", ("arr", lk, "Z")
            c, t = self.ex(pos[1])
            if t == "mv":
                ek = self.spec.get("locals", {}).get(name)
                if ek not in ("F", "C"):
                    fail(node, FN, f"the kind of the elements of {name} is not declared")
                self.have(ELEM_DEFAULT[ek], node)
                return f"(repeat {ELEM_DEFAULT[ek]} {n})", ("arr", lk, ek)
            if not isZ(t) or any(isinstance(nd, ast.Name) for nd in ast.walk(pos[1])):
                fail(node, FN, "np.full: the missing value or an integer constant is expected")
            return f"(repeat {c} {n})", ("arr", lk, "Z")
        if is_np_call(v, ("array",)) and len(v.args) == 1 and not v.keywords and isinstance(v.args[0], ast.ListComp):
            lc = v.args[0]
            g = lc.generators
            ok = (len(g) == 1 and not g[0].ifs and not g[0].is_async and isinstance(g[0].target, ast.Name) and g[0].target.id == "_"
                  and isinstance(g[0].iter, ast.Call) and isinstance(g[0].iter.func, ast.Name) and g[0].iter.func.id == "range"
                  and len(g[0].iter.args) == 1 and not g[0].iter.keywords)
            el = lc.elt
            false = ((isinstance(el, ast.Constant) and el.value is False)
                     or (isinstance(el, ast.Call) and isinstance(el.func, ast.Name) and el.func.id == "bool" and len(el.args) == 1
                         and not el.keywords and isinstance(el.args[0], ast.Constant) and el.args[0].value in (0, False)
                         and not isinstance(el.args[0].value, float)))
            if not (ok and false):
                fail(node, FN, "unsupported list comprehension")
            n, lk = self.size(g[0].iter.args[0])
            return f"(repeat false {n})", ("arr", lk, "B")
        return None

    def size(self, e):
        """(coq nat, kind) of a size expression: <array>.size, a name bound to one, or nrow * ncol of the coarse shape"""
        if (isinstance(e, ast.BinOp) and isinstance(e.op, ast.Mult) and isinstance(e.left, ast.Name) and isinstance(e.right, ast.Name)
                and self.spec.get("nc") == "shape"
                and f"let NC := Z.to_nat ({e.left.id} * {e.right.id})%Z in" in self.glets):
            return f"(Z.to_nat ({e.left.id} * {e.right.id})%Z)", "C"
        c, t = self.ex(e)
        if not (isinstance(t, tuple) and t[0] == "len"):
            fail(e, FN, "unsupported size expression")
        return c, t[1]

    def loopfn(self):
        self.header()
        body = strip_doc(list(self.fd.body))
        self.terminal_last(body)
        if not body or not isinstance(body[-1], ast.Return):
            fail(self.fd, FN, "the function does not end with return")
        nfor = sum(isinstance(s, ast.For) for s in body)
        top = []                 # lines of the top-level definition after the global bindings
        arrays = []              # local arrays / lists, in order of initialisation
        li = 0
        for s in body[:-1]:
            if isinstance(s, ast.Assert):
                t = s.test
                if not (s.msg is None and isinstance(t, ast.Compare) and len(t.ops) == 1 and isinstance(t.ops[0], ast.Eq)):
                    fail(s, FN, "unsupported assertion")
                (a, ta), (b, tb) = self.ex(t.left), self.ex(t.comparators[0])
                if not (isinstance(ta, tuple) and ta[0] == "len" and ta == tb) or top:
                    fail(s, FN, "unsupported assertion")
                self.pre.append(f"({a} =? {b})%nat")
                continue
            if isinstance(s, ast.For):
                li += 1
                top.append(self.forloop(s, "" if nfor == 1 else str(li), arrays))
                continue
            if isinstance(s, ast.Assign) and len(s.targets) == 1 and isinstance(s.targets[0], ast.Name):
                name = s.targets[0].id
                ini = self.array_init(name, s.value, s)
                if ini is not None:
                    if name in self.env:
                        fail(s, FN, f"{name} is bound twice")
                    self.env[name] = (name, ini[1], "ctx")
                    arrays.append(name)
                    top.append(f"let {name} := {ini[0]} in")
                    continue
            before = set(self.env)
            ls = self.lets(s, "global")
            if ls is None:
                fail(s, FN, f"unsupported statement {type(s).__name__}")
            for nd in ast.walk(s.value):
                if isinstance(nd, ast.Name) and nd.id in self.env and self.env[nd.id][2] != "global":
                    fail(s, FN, "a binding outside the loops may only use parameters and earlier bindings")
            for nd in ast.walk(s.targets[0]):
                if isinstance(nd, ast.Name) and nd.id in before:
                    fail(s, FN, f"{nd.id} is bound twice")
            self.glets += ls
            top += ls
        # the result
        ret = body[-1]
        elts = ret.value.elts if isinstance(ret.value, ast.Tuple) else [ret.value]
        rcs, rts = [], []
        for x in elts:
            if isinstance(x, ast.Name) and x.id in arrays and isarr(self.env[x.id][1]):
                rcs.append(x.id)
                rts.append(self.env[x.id][1])
            elif (is_np_call(x, ("array",)) and len(x.args) == 1 and all(kw.arg == "dtype" for kw in x.keywords)
                  and isinstance(x.args[0], ast.Name) and x.args[0].id in arrays and islist(self.env[x.args[0].id][1])):
                rcs.append(x.args[0].id)
                rts.append(self.env[x.args[0].id][1])
            else:
                fail(ret, FN, "unsupported return")
        self.ret = tuple(rts) if len(rts) > 1 else rts[0]
        rtype = " * ".join(coqty(t) for t in rts)
        res = self.tuple_of(rcs)
        nhead = len([l for l in self.glets if l not in top])
        out = list(self.aux)
        d = [f"Definition {self.coqname} {' '.join(self.binders)} : " + (f"option ({rtype})" if self.pre else rtype) + " :="]
        d += ["  " + l for l in self.glets[:nhead]]
        if self.pre:
            d.append("  if " + " && ".join(self.pre) + " then Some (")
        d += ["  " + l for l in top]
        d.append(f"  {res}" + (") else None." if self.pre else "."))
        return f"(* {FN}: {self.fd.name} *)\n" + "\n".join(out + ["\n".join(d)])

    def forloop(self, loop, suffix, arrays):
        """the step definition of one for loop (appended to self.aux); returns the line of the top-level definition"""
        if loop.orelse or not isinstance(loop.target, ast.Name):
            fail(loop, FN, "unsupported loop header")
        var = loop.target.id
        if var in self.env:
            fail(loop, FN, "the loop variable is in use")
        it = loop.iter
        if isinstance(it, ast.Call) and isinstance(it.func, ast.Name) and it.func.id == "range" and len(it.args) == 1 and not it.keywords:
            n, lk = self.size(it.args[0])
            dom, vt = f"(seq 0 {n})", ("nat", lk)
        elif isinstance(it, ast.Name) and isarr(self.env.get(it.id, (None, None))[1]) and self.env[it.id][1][2] in ("F", "C"):
            dom, vt = self.env[it.id][0], ("nat", self.env[it.id][1][2])
        else:
            fail(loop, FN, "unsupported loop domain")
        mods = modified(loop.body)
        for nm in mods:
            if nm not in arrays:
                fail(loop, FN, f"the loop updates {nm}, which is not a local array")
        stored = names_stored(loop.body) + [var]
        for nm in stored:
            if nm in self.env:
                fail(loop, FN, f"the loop rebinds {nm}")
        self.state = [a for a in arrays if a in mods]
        if not self.state:
            fail(loop, FN, "the loop updates nothing")
        reads = names_loaded(loop.body) | names_loaded([it])
        ctx = [a for a in arrays if a in reads and a not in self.state]
        self.ctxb = [f"({a} : {coqty(self.env[a][1])})" for a in ctx]
        base = dict(self.env)
        self.env[var] = (var, vt, "local")
        self.raw.setdefault(var, set()).add(vt)
        sname = f"{self.coqname}_step{suffix}"
        sttype = " * ".join(coqty(self.env[a][1]) for a in self.state)
        k = K("for", lambda: self.tuple_of(list(self.state)))
        naux = len(self.aux)
        bodytxt = self.block(list(loop.body), 4, k)
        # the element kind of a list of the state is known after the body: types may have been refined
        sttype = " * ".join(coqty(self.env[a][1]) if a in self.env else "list nat" for a in self.state)
        d = [f"Definition {sname} {' '.join(self.binders + self.ctxb)} (st : {sttype}) ({var} : nat) : {sttype} :="]
        d += ["  " + l for l in self.glets]
        d.append(f"  let {self.pat_of(self.state)} := st in")
        d.append(bodytxt + ".")
        self.aux.append("\n".join(d))
        for a in self.state:     # lists whose element kind was found in the body
            if a in self.listkind:
                base[a] = (a, ("list", self.listkind[a]), base[a][2])
        self.env = base
        line = (f"let {self.pat_of(self.state)} := fold_left ({sname} {' '.join(self.args + ctx)}) {dom} "
                f"{self.tuple_of(list(self.state))} in")
        self.state, self.ctxb = [], []
        return line

    def translate(self):
        self.listkind = dict(self.spec.get("_listkind", {}))
        self.alltypes = self.spec.get("_alltypes", {})
        isloop = any(isinstance(n, ast.For) for n in ast.walk(self.fd))
        text = self.loopfn() if isloop else self.plain()
        return text, dict(coq=self.coqname, params=self.spec["params"], ret=self.ret)


def translate(spec, tree, reg):
    """translate until the types of the names are stable (a name has one type: see the module docstring)"""
    forced, listkind, alltypes = {}, {}, {}
    for _ in range(6):
        f = Fn(dict(spec, _listkind=listkind, _alltypes=alltypes), tree, reg, forced)
        err = None
        try:
            text, info = f.translate()
        except GenError as e:
            err = e
        nf = {n: join(ts, n, f.fd) for n, ts in f.raw.items() if len(ts) > 1}
        # the types of the names bound in the body of a while loop (for exhaust=break)
        na = dict(alltypes)
        for nd in ast.walk(f.fd):
            if isinstance(nd, ast.While):
                for nm in names_stored(nd.body):
                    if nm in f.raw:
                        na[(id(nd), nm)] = nf.get(nm) or next(iter(f.raw[nm]))
        stable = nf == forced and f.listkind == listkind and {k: v for k, v in na.items()} == alltypes
        forced, listkind, alltypes = nf, dict(f.listkind), na
        if stable:
            if err is not None:
                raise err
            if f.dirty:
                raise GenError(f"{FN}: {spec['name']}: a name is used at two types")
            return text, info
    raise GenError(f"{FN}: {spec['name']}: the types of the names do not settle")


def gen_upscale():
    parts = ["(* GENERATED by tools/gen_upscale.py from /repo/pyflwdir -- do not edit *)",
             "From Coq Require Import List Arith ZArith Bool.", "Import ListNotations.",
             "From PF Require Import Arr.", ""]
    tree = parse(FN)
    reg = {}
    for spec in FUNCS:
        if sum(isinstance(n, ast.FunctionDef) and n.name == spec["name"] for n in tree.body) != 1:
            raise GenError(f"{FN}: {spec['name']} is not defined exactly once")
        text, info = translate(spec, tree, reg)
        if "ret" in spec:       # only plain functions are callable from the kernels
            reg[spec["name"]] = info
        parts += [text, ""]
    return "\n".join(parts)


gen.GENERATORS["GenUpscale.v"] = gen_upscale

if __name__ == "__main__":
    print(gen_upscale())
