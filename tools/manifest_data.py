CHECKS = {
 "C01": {
  "text": "Theorems for every raster shape and every assignment of values: each cell decodes to nodata / itself / the linear index of (row+dr, col+dc) exactly as the conventions say (decode_spec for D8, LDD, NEXTXY), the decoded graph is closed (decode_wf), pits are exactly the self-draining cells in ascending order, masked cells carry nodata, inference picks the first format whose validity test holds; drdc and the 3x3 tables are regenerated from the source on every run and the table lemmas are complete enumerations. The decoder loops are hand models tied by an exhaustive small-raster + random API-level correspondence and an independent oracle of the documented conventions.",
  "note": "Trusted: Coq kernel, the ast translator for tables/drdc, extraction + 40-line OCaml driver (cross-checked by vm_compute on a sample), harness. from_array loop bodies are modelled by hand (correspondence only). np.log2 on legal codes assumed exact.",
 },
}
NOT_APPLICABLE = {
 "C07": "compares two language implementations (CPython vs Numba JIT) of the same source; a Gallina model of pyflwdir has one semantics and cannot express their disagreement (DESIGN.md section 5, C07)",
}
