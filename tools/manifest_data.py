CHECKS = {
 "C01": {
  "text": "Theorems for every raster shape and every assignment of values: each cell decodes to nodata / itself / the linear index of (row+dr, col+dc) exactly as the conventions say (decode_spec for D8, LDD, NEXTXY), the decoded graph is closed (decode_wf), pits are exactly the self-draining cells in ascending order, masked cells carry nodata, inference picks the first format whose validity test holds; drdc and the 3x3 tables are regenerated from the source on every run and the table lemmas are complete enumerations. The decoder loops are hand models tied by an exhaustive small-raster + random API-level correspondence and an independent oracle of the documented conventions.",
  "note": "Trusted: Coq kernel, the ast translator for tables/drdc, extraction + 40-line OCaml driver (cross-checked by vm_compute on a sample), harness. from_array loop bodies are modelled by hand (correspondence only). np.log2 on legal codes assumed exact.",
 },
 "C05": {
  "text": "Theorems for every network, every topological order of it, every outlet list and id vector: the basin label of a cell is the seeded id of the first outlet met on its downstream walk, 0 if none (basins_spec via the generic down-sweep theorem); with the default outlets every ordered cell gets the id of the pit its walk ends in; basins are upstream-closed; labels are 0 or one of the ids; the outlet query returns exactly the labelled cells whose downstream cell leaves the region (iff), sorted by label, and on a basin map with distinct positive ids exactly one outlet per basin (round trip). Tied to the code by kernel- and API-level correspondence (exhaustive small graphs x outlet subsets, random forests, xy/idxs/default outlets, id dtypes, bad ids) plus an independent walk-downstream oracle.",
  "note": "Trusted: Coq kernel, extraction + driver, harness. The loops of fillnodata_upstream / region_outlets are hand models (correspondence only). dtype pass-through of ids is asserted by the harness, not modelled. Topological order is an input: the theorems hold for every order satisfying Net.topo, which C03 establishes for the implementation's idxs_seq.",
 },
}
NOT_APPLICABLE = {
 "C07": "compares two language implementations (CPython vs Numba JIT) of the same source; a Gallina model of pyflwdir has one semantics and cannot express their disagreement (DESIGN.md section 5, C07)",
}
