"""Generic check runner: proofs + correspondence + oracle -> decision, evidence, replay."""
import importlib, json, multiprocessing as mp, os, random, sys, time, traceback

from common import (VERIF, EVID, TRUSTED_BASE, build_all, check_props, lint_sources, run_model, vm_crosscheck,
                    Model, write_json, write_replay, load_known, log, import_impl, call_impl)

_PROP = None


def _worker_init(modname):
    global _PROP
    import_impl()
    _PROP = importlib.import_module(modname)


def _worker_run(case):
    try:
        return _PROP.impl(case)
    except Exception as e:  # harness bug, not an implementation outcome
        return ("HARNESS", f"{type(e).__name__}: {e}\n{traceback.format_exc()[-800:]}")


def run_impl_all(modname, cases, procs):
    if procs <= 1 or len(cases) < 64:
        _worker_init(modname)
        return [_worker_run(c) for c in cases]
    ctx = mp.get_context("fork")
    with ctx.Pool(procs, initializer=_worker_init, initargs=(modname,)) as pool:
        return pool.map(_worker_run, cases, chunksize=max(1, len(cases) // (procs * 8)))


def case_key(c):
    return json.dumps([c["k"], c["args"], c.get("call")], sort_keys=True, default=str)


def summarize_dist(cases):
    d = {}
    for c in cases:
        g = c.get("group", "default")
        d[g] = d.get(g, 0) + 1
    return d


def evaluate(prop, cases, procs):
    """returns list of records: dict(case, impl, model, agree, oracle)"""
    lines = [Model.line(c["k"], c["args"]) for c in cases]
    t0 = time.time()
    impl = run_impl_all(prop.__name__, cases, procs)
    t1 = time.time()
    model = run_model(lines, shards=procs)
    t2 = time.time()
    log(f"  impl {t1-t0:.1f}s model {t2-t1:.1f}s for {len(cases)} cases")
    recs = []
    post = []   # (record index, label, model line): proved-sound boolean checkers run on the implementation's output
    for c, i, m, ln in zip(cases, impl, model, lines):
        if isinstance(i, tuple) and i and i[0] == "HARNESS":
            recs.append({"case": c, "impl": i, "model": m, "agree": False, "oracle": ("harness", i[1]), "line": ln})
            continue
        # the wire format cannot tell "no list" from "one empty list"
        i_n = [] if i == [[]] else i
        m_n = [] if m == [[]] else m
        try:
            agree = prop.compare(c, i_n, m_n) if hasattr(prop, "compare") else (i_n == m_n)
        except Exception as e:
            agree = False
        try:
            orc = prop.oracle(c, i)
        except Exception as e:
            orc = ("harness", f"oracle crashed: {type(e).__name__}: {e}")
        recs.append({"case": c, "impl": i, "model": m, "agree": agree, "oracle": orc, "line": ln})
        if hasattr(prop, "post_checks"):
            for label, k, args in prop.post_checks(c, i):
                post.append((len(recs) - 1, label, Model.line(k, args)))
    if post:
        res = run_model([p[2] for p in post], shards=procs)
        for (ri, label, ln), r in zip(post, res):
            if r != [[1]] and not (isinstance(r, list) and r and all(v == 1 for v in r[0])):
                if recs[ri]["oracle"] is None:
                    recs[ri]["oracle"] = (label, f"proved checker rejected the implementation's output: {ln} -> {r}")
    return recs, lines, model


def main(pid, tier, seed, replay=None):
    t_start = time.time()
    modname = "props_" + pid.lower()
    prop = importlib.import_module(modname)
    procs = int(os.environ.get("VERIF_PROCS", "16" if tier == "thorough" else "8"))
    rng = random.Random(seed)
    known = load_known()
    known_sigs = {f["signature"]: f for f in known.get("findings", []) if f["property"] == pid}

    if replay:
        return do_replay(prop, pid, replay, procs)

    # 1. build + proof obligations --------------------------------------------------
    problems = []          # things that break the tie/proof without an input
    lint = lint_sources()
    if lint:
        problems.append({"kind": "lint", "detail": lint})
    ok, blog, gi = build_all(pid=pid)
    if not ok:
        problems.append({"kind": "build", "detail": blog[-2500:]})
    pr = check_props(pid, prop.THEOREMS) if ok else {"obligations": len(prop.THEOREMS), "discharged": 0, "axioms": [],
                                                      "bad_axioms": [], "missing": list(prop.THEOREMS), "log": blog[-1500:]}
    if pr["missing"] or pr["bad_axioms"]:
        problems.append({"kind": "proof", "missing": pr["missing"], "bad_axioms": pr["bad_axioms"], "log": pr["log"][-2500:]})

    # 2. correspondence + oracle ----------------------------------------------------
    viol, disagreements, known_hit = [], [], {}
    cases = []
    recs = []
    vm_n = 0
    model_ok = os.path.exists(os.path.join(VERIF, "ocaml", "driver"))
    if not model_ok:
        problems.append({"kind": "driver", "detail": "extracted model binary missing"})
    corpus = prop.corpus() if hasattr(prop, "corpus") else []
    # minimised failures of earlier runs (repaired defects) are replayed first on every run
    cdir = os.path.join(VERIF, "corpus", pid)
    if os.path.isdir(cdir):
        for fn in sorted(os.listdir(cdir)):
            if fn.endswith(".json"):
                c = json.load(open(os.path.join(cdir, fn)))
                c = c.get("case", c)
                c["group"] = "corpus-" + fn[:-5]
                corpus.append(c)
    cases = corpus + list(prop.cases(tier, rng))
    if tier == "thorough":
        # further rounds of the random generators with derived seeds (the exhaustive parts de-duplicate away)
        for rnd in range(1, int(os.environ.get("VERIF_ROUNDS", "8"))):
            cases += list(prop.cases(tier, random.Random(seed * 1000003 + rnd)))
    # de-duplicate
    seen, uniq = set(), []
    for c in cases:
        k = case_key(c)
        if k not in seen:
            seen.add(k)
            uniq.append(c)
    cases = uniq
    if model_ok:
        recs, lines, model = evaluate(prop, cases, procs)
        okvm, vm_n, vmlog = vm_crosscheck(pid, lines, model, limit=150 if tier == "quick" else 400)
        if not okvm:
            problems.append({"kind": "vm_crosscheck", "detail": vmlog})
    else:
        impl = run_impl_all(modname, cases, procs)
        for c, i in zip(cases, impl):
            recs.append({"case": c, "impl": i, "model": None, "agree": True, "oracle": prop.oracle(c, i), "line": ""})

    def classify(recs):
        for r in recs:
            explained = False
            if r["oracle"] is not None:
                sig, msg = r["oracle"]
                if sig in known_sigs:
                    known_hit.setdefault(sig, r)
                    explained = True      # the model (which has the property) and the code differ exactly on a listed finding
                else:
                    viol.append(r)
            if not r["agree"] and not explained:
                disagreements.append(r)

    classify(recs)

    # 3. extended search when the tie is broken but no failing input is known yet ----
    searched = 0
    if (problems or disagreements) and not viol:
        log("  tie broken without a failing input: extended search")
        rng2 = random.Random(seed + 1)
        more = list(prop.cases("thorough", rng2)) if tier == "quick" else []
        if hasattr(prop, "neighbours"):
            for r in disagreements[:20]:
                more += list(prop.neighbours(r["case"], rng2))
        more = [c for c in more if case_key(c) not in seen]
        searched = len(more)
        if more:
            if model_ok:
                recs2, _, _ = evaluate(prop, more, 16)
            else:
                impl = run_impl_all(modname, more, 16)
                recs2 = [{"case": c, "impl": i, "model": None, "agree": True, "oracle": prop.oracle(c, i), "line": ""}
                         for c, i in zip(more, impl)]
            before = len(disagreements)
            classify(recs2)
            recs += recs2

    # 4. decision ------------------------------------------------------------------
    out_lines = []
    exit_code = 0
    for sig, r in sorted(known_hit.items()):
        out_lines.append(f"KNOWN-FINDING: property={pid} {sig}: {known_sigs[sig]['what']}")
    if viol:
        r = min(viol, key=lambda r: len(json.dumps(r["case"]["args"])))
        r = shrink(prop, r)
        path = write_replay(pid, "violation.json", {"property": pid, "kind": "failing-input", "case": r["case"],
                                                    "impl": r["impl"], "model": r["model"], "oracle": r["oracle"],
                                                    "how": f"./check {pid} --replay <this file>"})
        out_lines.append(f"VIOLATION property={pid} replay={path}")
        exit_code = 1
    elif problems or disagreements:
        detail = {"property": pid, "kind": "tie-broken", "problems": problems,
                  "disagreements": [{"case": r["case"], "impl": r["impl"], "model": r["model"]} for r in disagreements[:5]],
                  "n_disagreements": len(disagreements), "extended_search_cases": searched,
                  "broken": [p["kind"] for p in problems] + (["correspondence:" + prop.PID] if disagreements else []),
                  "theorems_not_checked": pr["missing"]}
        path = write_replay(pid, "tie_broken.json", detail)
        out_lines.append(f"VIOLATION property={pid} replay={path} no-failing-input-found")
        exit_code = 1

    # 5. evidence --------------------------------------------------------------------
    nontriv = set()
    for r in recs:
        c = r["case"]
        if isinstance(r["impl"], tuple):
            continue
        if (prop.nontrivial(c, r["impl"]) if hasattr(prop, "nontrivial") else True):
            nontriv.add(case_key(c))
    samples = [{"kernel": r["case"]["k"], "args": r["case"]["args"], "call": r["case"].get("call"),
                "impl": r["impl"], "model": r["model"]} for r in recs[:: max(1, len(recs) // 4)][:4]]
    ev = {
        "property_id": pid, "tier": tier, "seed": seed, "level": "proof",
        "coverage": {
            "obligations": pr["obligations"], "discharged": pr["discharged"],
            "checker_cmd": f"cd {VERIF}/coq && make && coqc -Q theories PF -Q generated PFG -Q props PFP props/{pid}.v",
            "trusted_base": TRUSTED_BASE + getattr(prop, "TRUSTED_EXTRA", []),
            "theorems": prop.THEOREMS, "axioms_reported": pr["axioms"],
            "evaluations": len(recs), "distinct_nontrivial": len(nontriv),
            "rule": getattr(prop, "RULE", "cases are distinct by (kernel, arguments); non-trivial per property module"),
            "samples": samples,
            "correspondence": {"cases": len(recs), "agree": sum(1 for r in recs if r["agree"]),
                               "oracle_failures": sum(1 for r in recs if r["oracle"] is not None),
                               "known_finding_hits": sorted(known_hit), "vm_compute_crosschecked": vm_n,
                               "input_distribution": summarize_dist([r["case"] for r in recs]),
                               "extended_search_cases": searched},
            "generated_changed": gi.get("changed", []) if ok else [],
            "problems": [p["kind"] for p in problems],
            "exhaustive": False,
        },
        "assumptions": getattr(prop, "ASSUMPTIONS", []),
        "wall_s": round(time.time() - t_start, 1),
        "violations": (1 if exit_code else 0),
    }
    write_json(os.path.join(EVID, f"{pid}.json"), ev)
    for l in out_lines:
        print(l)
    print(f"{pid} {tier}: obligations {pr['discharged']}/{pr['obligations']}, cases {len(recs)}, "
          f"agree {ev['coverage']['correspondence']['agree']}, oracle failures "
          f"{ev['coverage']['correspondence']['oracle_failures']}, {ev['wall_s']}s -> {'FAIL' if exit_code else 'ok'}")
    return exit_code


def shrink(prop, r):
    """greedy shrinking through the property's own shrinker, when it has one"""
    if not hasattr(prop, "shrink_candidates"):
        return r
    import_impl()
    best = r
    for _ in range(200):
        improved = False
        for c in prop.shrink_candidates(best["case"]):
            try:
                i = prop.impl(c)
                o = prop.oracle(c, i)
            except Exception:
                continue
            if o is not None and o[0] == best["oracle"][0]:
                m = run_model([Model.line(c["k"], c["args"])], shards=1)[0]
                best = {"case": c, "impl": i, "model": m, "agree": i == m, "oracle": o}
                improved = True
                break
        if not improved:
            break
    return best


def do_replay(prop, pid, path, procs):
    d = json.load(open(path))
    if d.get("kind") != "failing-input":
        print(json.dumps(d, indent=1)[:4000])
        print("this replay names a broken theorem/correspondence, not an input; re-run the check to re-evaluate it")
        return 1
    import_impl()
    c = d["case"]
    i = prop.impl(c)
    m = run_model([Model.line(c["k"], c["args"])], shards=1)[0]
    o = prop.oracle(c, i)
    print(json.dumps({"case": c, "impl": i, "model": m, "oracle": o}, indent=1, default=str))
    if o is not None:
        print(f"VIOLATION property={pid} replay={path}")
        return 1
    return 0
