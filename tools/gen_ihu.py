"""Fail-closed translator for kernels of the ITERATIVE stages of upscale.ihu:  Python `ast`  ->  Gallina (coq/generated/GenIhu.v).
  upscale.py:  next_outlet, outlet_pix, upscale_check, new_outlet, ihu_optimize_rivlen, ihu_minimize_error, the driver ihu
               (with ihu_relocate_outlets as a PARAMETER, see below), and ihu_relocate_outlets itself
  core.py:     _d8_idx, _upstream_d8_idx          (called by the two ihu_* stages as core._d8_idx / core._upstream_d8_idx)
Registered into gen.GENERATORS on import.  It reuses the expression translator, the types and the kinds of cell numbers of
gen_upscale.py (read its docstring first: Z / nat, kinds F / C, missing value mv = NSUB / NC, arrays read with `nth`, no overflow
and no negative-index modelling) and calls the scalar helpers gen_up_subidx_2_idx / gen_up_in_d8 of generated/GenUpscale.v.

Every statement of a translated function is translated or GenError is raised: nothing is guessed and nothing is skipped.  Each
generated definition is proved equal to the hand model (theories/Ihu.v: next_outlet, outlet_pix, upscale_check, new_outlet,
optimize_rivlen, minimize_error, ihu_iter / up_ihu; theories/D8Idx.v: d8_idx, upstream_d8_idx) in theories/GenIhu*Eq.v.

ihu_relocate_outlets (360 lines) is translated LAST, as gen_ihu_ihu_relocate_outlets (so that the text generated for the other
functions is what it was before this function was added).  In the driver the call
`idxs_ds, subidxs_out, idxs_fix1 = ihu_relocate_outlets(idxs_fix=..., idxs_ds=..., subidxs_out=..., ...)` is STILL the call of a PARAMETER
`relocate` of the generated gen_ihu_ihu (ABSTRACT_CALLS): a function of the arguments of the call (mv left out) that returns
`option` of the three results; the source must define ihu_relocate_outlets with exactly this signature, and the aliasing rule
below applies to it (it stores into idxs_ds and subidxs_out and returns them).  GenIhuDrvEq instantiates the parameter with the
model Ihu.relocate; theories/GenIhuRel*.v prove the generated gen_ihu_ihu_relocate_outlets equal to the model (with the fuel of
the loop `while len(bottleneck) > nbottlenecks` as in the generated text, see GenIhuRelModel.v) and plug it into the driver.
Likewise effective_area is the parameter `ea` (as in gen_upscale.py): the kernels eam_repcell / ihu_outlets /
ihu_nextidx are the generated gen_up_* of GenUpscale.v, called with the driver's own subshape / cellsize / r_ratio.

Constructs that only ihu_relocate_outlets needs (everything else in it is translated as described below):
  * `if idxs_fix is None: x = ... else: x = idxs_fix` for a parameter declared as a list (spec key notnone): the callers that are
    modelled always pass a list, the parameter's type has no None, the first branch is dead and is NOT translated (the only
    statement that is left out; the shape of the if is checked).  `pass` is skipped.  `b is False` of a boolean is negb b.
  * `while c:` and `while True:` loops whose body has for loops, while loops, calls of functions with while loops, and `break`
    at the loop's own level (`True and c` is c): the body is a definition <w>_body from the tuple of the names bound before the
    loop and assigned in it to (these names, the names first bound in the body that are read after the loop, left by break?),
    and <w> is a Fixpoint over ITS OWN fuel `fuel_` that tests c and runs the body; out of fuel is None.  It is called with the
    function's `fuel`, and the loops inside the body get the function's whole `fuel` again (ONE fuel parameter bounds every loop
    separately).  When names first bound in the body are read after the loop, the first iteration is written out at the call
    and a loop that is not entered has no value (None; Python: NameError at the read).  A simple `while True:` (no loop / call
    of a partial function inside) is the old direct Fixpoint.  continue / return / assert directly in a while body: GenError.
  * an if / elif whose branches can both reach the rest of the block, where some path ends in `continue` and the rest has a
    loop: the value of the if is (the names assigned in it, cont_), and `if cont_ then <continue> else <rest>` follows (the
    rest is translated once).  An if / else followed by a loop may FIRST BIND a name in BOTH branches (assigned on every path)
    that is read afterwards (`if ..: d8 = False else: d8 = in_d8(..)`): it is part of the value of the if.
  * lists of integers that are not cell numbers (`l.append(j0)`, `l.append(noutlets - 1)`: list Z, possibly negative), created
    by `list()`; np.array(l, dtype=...) of such a list is l; l[p] is nth (Z.to_nat p) l 0; `l >= x`, `l <= x`, `l > x` give one
    boolean per element; np.logical_and(a, b) is map andb (combine a b) (NumPy raises for different lengths; both are slices
    of the same list here); `np.where(b)[0]` is gen_ihu_where b (the positions of the true elements, a list of positions as
    np.argsort's) and `np.where(b)[0] + k` adds Z.to_nat k; l[ps] for a list ps of positions is map (nth . l), also for a list
    of cell numbers; np.unique(np.array(l, dtype=...)) IS Ihu.uniq_sorted l (sorted ascending, without duplicates).
  * `l[k:]` is skipn (Z.to_nat k) l; `for j in range(a, n)` for a length n is List.seq (Z.to_nat a) (n - Z.to_nat a);
    `l[-1 - i]` for a loop counter i is nth (length l - 1 - i) l d (Python's value for 0 <= i < len(l); IndexError otherwise,
    not modelled like every out-of-range read).  NEGATIVE k / a are not modelled (Z.to_nat is 0 there; Python would count from
    the end): in ihu_relocate_outlets j0, k0 are 0 or a loop counter (+ 1).
  * `x if c else y` of booleans; `x in l` for an integer x that holds a cell number; a name may be assigned a length and an
    integer (nbottlenecks = -1 / len(bottleneck)): it is an integer.
  * `_, idx, o = f(...)`: `_` is an ordinary name.

What is different from gen_upscale.py (statements are translated in state-passing style):
  * every Python name is ONE Gallina name; an assignment `x = e`, `a[i] = e`, `l.append(e)`, `x += e` is `let x := ... in`
    (`upd`, `++ [.]`).  Parameters may be assigned and arrays that are parameters may be stored into: the generated function is
    pure and returns what the Python `return`s FOLLOWED BY the array parameters that it stores into and does not return
    (ihu_optimize_rivlen / ihu_minimize_error: idxs_ds, subidxs_out, then streams).  Aliasing is excluded syntactically: an array
    parameter is never rebound except by a call that stores into it; an array that a callee stores into must be passed by name
    (once) and the callee's result that is this array must be bound to the same name (`streams, idxs_ds, subidxs_out, ok =
    new_outlet(idx0, subidx0, streams, idxs_ds, subidxs_out, ...)`); a second name for a list / array (`a = b`) is a GenError.
  * `for v in range(n)` / `for v in <list or index array>` / `for v in [e1, e2]` / `for v in range(<int>, <int>)` / `for v in f(...)`
    is a fold_left of a step definition over `List.seq 0 n` / the list (evaluated before the loop); its state is the tuple of the
    names that are bound before the loop and assigned / stored into / appended to in its body (in order of first binding); every other
    name of the body that is bound before the loop is a parameter of the step.  A name first bound inside a loop is not visible
    after it, and a loop variable is not visible after its loop, nor is a name that is used as a loop variable somewhere inside
    a loop body / an if visible in that body / after it (Python would leave the last value there: a later read is `unknown
    name`, a GenError).  `continue` ends the step.  A for loop with `break` has steps that return (state, left?) and is
    gen_ihu_bfold / gen_ihu_obfold (defined in GenIhu.v): after a break the remaining elements are skipped.
    range(z) of an integer z is List.seq 0 (Z.to_nat z) (empty for z <= 0, as in Python).  In particular the loop
    `for j in range(max_dist + 1)` of ihu_minimize_error (10^6 iterations at most) is translated as it is; Ihu.me_chain stops
    after nc + 2 steps: GenIhuMin*.v prove that this makes no difference (pigeonhole).
  * `while True:` is a Fixpoint over explicit fuel that returns `option`: `break` is Some (the names bound before the loop and
    assigned in it, then the names first bound in the loop that may be read after it before being assigned); OUT OF FUEL IS None.
    None propagates: a function with a while loop (or an assert, or a call of such a function) takes a first parameter
    `fuel : nat` and returns option; None stands for "no return value": a loop is not left within `fuel` iterations (Python:
    possibly no termination) or an `assert` fails (Python: AssertionError).  For loops over such steps are `ofold` /
    gen_ihu_obfold: None is absorbing.
    The hand models differ here ON PURPOSE: they return an error FLAG and go on (Ihu.chk_walk's fourth result, the `ok` of
    Ihu.new_outlet's fold, A.a_err = 1 for fuel and 2 for the assert of ihu_optimize_rivlen) - the equalities are therefore
    stated as: the generated function is Some of the model's results iff the model's flag says `fine`, and None otherwise
    (every walk gets the fuel S NSUB, as in the models).  The model has no counterpart of `assert idx0 != idx1` in
    ihu_minimize_error (it never fails: proved) and of `assert subidxs_out.size <= 2147483648` (a hypothesis of the theorem).
  * if / elif / else: the rest of the block is copied into both branches (as gen_upscale.py); when the rest contains a loop and
    neither branch has continue / break / return, the if is instead an expression whose value is the tuple of the names that are
    bound before it and assigned in it (names first bound in a branch are not visible after it).
  * new types:  "Z4" a rational number given in QUARTERS (minlen, minupa: ihu passes cellsize * 0.25 and cellsize**2 * 0.25, floats
    that are exact multiples of 1/4 below 2^51; the binder `minlen : Z` stands for 4 * minlen): the only operations are the
    comparison with an integer x (compared as 4 * x) and the assignment of an integer to a Z4 name (4 * x); ("none", K) a parameter
    with default None that is None or a cell number (`option nat`; `p is None`, `p == x` is false for None as in Python);
    element types S (integer array read with default -9: `streams`, whose nodata value is -9) and T (boolean array read with
    default true: `valid`; Python would raise / wrap around on an index out of range) besides the F C Z B of gen_upscale.py;
    lists of cell numbers may be indexed by a position (a nat without kind: a loop counter over range(len(l)), or a constant)
    and read with the missing value of their elements as default; lists of booleans ([f(x) for x in l if c(x)] is map / filter,
    `a[l] != x` is map) with np.all = forallb; a[l] for a list l of indices is map (nth . a).
  * a local that is assigned `mv` is an optional cell number (option nat).  Differently from gen_upscale.py it is None EXACTLY
    when it is the missing value: the assignment of a cell number (a nat: an element of an index array or of a list, where
    every number >= NSUB / NC stands for mv) is `if N <=? x then None else Some x`, the assignment of a computed integer
    (the result of subidx_2_idx, never mv in Python) is Some, `x == mv` is `x is None`.  Stored into an index array or used
    as an index it is injected back: None is the number NSUB / NC that stands for mv.
  * np.argsort(k) IS Ihu.argsort k, a STABLE ascending argsort (NumPy's default sort is not stable: the order of equal keys is a
    modelling decision, as in gen_seg.py); `l[::-1]` is rev; `x in l` is Arr.memb; `l.index(x)` is only understood inside
    `if x in l:` (ValueError otherwise) and is the position of the first x.
  * `int(a / b)` of a size a and an integer b is the floor division a / b over Z: exact for 0 <= a < 2^53, b > 0 (the float
    quotient of two such integers is never rounded up to the next integer); b = 0 is ZeroDivisionError in Python and 0 here.
    int(x) of a cell number is x.
  * `args = (p, q, r)` of parameters that are never assigned and of names bound once at the top level of the function, and
    `args2 = args + (x,)` with x assigned once, used only as `*args` in a call, are expanded by name.
  * `assert e` is `if e then ... else None`.   `t = x.dtype`, `dtype=` arguments: not modelled (no overflow modelling: C16).
  * `np.full(1, mv, ...)` is the one-element list [NSUB]; np.array(l, dtype=...) of a list l is l.
  * a call `f(x)` of a translated scalar helper on a cell number read from an index array is NOT guarded against the missing value
    (as in gen_upscale.py): Python computes subidx_2_idx(-1) < 0 there when the index arrays are intp, the generated text the cell
    of the number >= NSUB that stands for mv.  Ihu.outlet_pix says `different from idx` for a missing downstream pixel:
    GenIhuBaseEq states the equality for outlet_pix under the hypothesis that this makes no difference (no pixel OF THE CELL idx
    has a missing downstream pixel whose stand-in falls into the cell idx; for all cells at once: GenIhuBaseEq.nomv_cell, true
    e.g. when no downstream pixel is missing); new_outlet, ihu_optimize_rivlen and ihu_minimize_error call outlet_pix and
    inherit the hypothesis.  Ihu.next_outlet does what the generated text does.
  * the driver ihu: minlen_ratio and minupa_ratio are FIXED to their defaults 0.25 (a different default is a GenError;
    `cellsize * minlen_ratio` is the Z4 number cellsize * 1); niter, opt_rivlen, min_error, pit_out_of_cell are parameters (the
    model is the case 5, True, True, 2); `int(np.ceil(a / b))` of integers is - ((- a) / b) over Z (exact for 0 <= a < 2^53,
    b > 0; b = 0 is an exception in Python and 0 here); `shape = nrow, ncol` is a pair; `x if c else y` of integers; c ** 2.
    `idxs_fix = idxs_fix1` (a second name for a list) is accepted because neither name is ever stored into or passed to a
    function that stores into it.
  * outlet_pix has a parameter `all` (default False); the model is the case all = false.  ihu_minimize_error's
    pit_out_of_cell is an integer; the model's `poc` is its value (2 or 0 in ihu).  core is `from . import core`."""
import ast

import gen
from gen import GenError, fail, parse, find_def, is_np_call, zlit
from gen_codec import strip_doc, is_cast, global_const
import gen_upscale as GU
from gen_upscale import (Fn, K, Z0, FA, REP, isZ, isnat, isopt, isarr, islist, names_loaded, names_stored, modified)

FN = "upscale.py"
STREAMS = ("arr", "F", "S")
CDS = ("arr", "C", "C")
UPA = ("arr", "F", "Z")
# parameter types: Z | Z4 | bool | mv | ("nat", kind) | ("none", kind) | ("arr", kind of the length, element)
FUNCS = [
    dict(name="next_outlet", params={"subidx": ("nat", "F"), "subidxs_ds": FA, "subidxs_out": REP, "subncol": "Z", "cellsize": "Z",
                                     "ncol": "Z"}, nsub="subidxs_ds"),
    dict(name="outlet_pix", params={"idx": ("nat", "C"), "subidxs_ds": FA, "ncol": "Z", "subncol": "Z", "cellsize": "Z", "all": "bool"},
         nsub="subidxs_ds", kinds={"subidx": "F"}),
    dict(name="upscale_check", params={"subidxs_out": REP, "idxs_ds": CDS, "subidxs_ds": FA, "minlen": "Z4", "mv": "mv"},
         nsub="subidxs_ds", nc="idxs_ds", locals={"streams": "S", "valid": "T"}),
    dict(name="new_outlet", params={"idx0": ("nat", "C"), "subidx0": ("nat", "F"), "streams": STREAMS, "idxs_ds": CDS,
                                    "subidxs_out": REP, "subidxs_ds": FA, "subuparea": UPA, "ncol": "Z", "subncol": "Z", "cellsize": "Z",
                                    "minlen": "Z4", "minupa": "Z4", "mv": "mv", "subidx1": ("none", "F")},
         nsub="subidxs_ds", nc="idxs_ds", locals={"path0": "F"}),
]
SHORT = ("list", "C")
VALID = ("arr", "C", "T")
FUNCS += [
    dict(name="_d8_idx", file="core.py", params={"idx0": ("nat", "C"), "shape": "shape"}, kinds={"idx": "C"}),
    dict(name="_upstream_d8_idx", file="core.py", params={"idx0": ("nat", "C"), "idxs_ds": CDS, "shape": "shape"}, nc="idxs_ds"),
    dict(name="ihu_optimize_rivlen", params={"idxs_short": SHORT, "valid": VALID, "streams": STREAMS, "idxs_ds": CDS,
                                             "subidxs_out": REP, "subidxs_ds": FA, "subuparea": UPA, "subshape": "shape",
                                             "shape": "shape", "cellsize": "Z", "minlen": "Z4", "minupa": "Z4", "mv": "mv"},
         nsub="subidxs_ds", nc="idxs_ds"),
    dict(name="ihu_minimize_error", params={"idxs_fix": SHORT, "valid": VALID, "streams": STREAMS, "idxs_ds": CDS,
                                            "subidxs_out": REP, "subidxs_ds": FA, "subuparea": UPA, "subshape": "shape",
                                            "shape": "shape", "cellsize": "Z", "minlen": "Z4", "minupa": "Z4",
                                            "pit_out_of_cell": "Z", "mv": "mv"},
         nsub="subidxs_ds", nc="idxs_ds", kinds={"idx1": "C", "idxh": "C", "idxv": "C"}),
    dict(name="ihu", params={"subidxs_ds": FA, "subuparea": UPA, "subshape": "shape", "cellsize": "Z", "minlen_ratio": ("quarters", 1),
                             "minupa_ratio": ("quarters", 1), "r_ratio": "skip", "niter": "Z", "opt_rivlen": "bool", "min_error": "bool",
                             "pit_out_of_cell": "Z", "mv": "mv"},
         nsub="subidxs_ds", shapes=("shape",), ea=True, abstract_calls=("ihu_relocate_outlets",)),
]
# ihu_relocate_outlets comes LAST: the text generated for the functions above (and the driver's parameter `relocate`) is unchanged
FUNCS += [
    dict(name="ihu_relocate_outlets", params={"idxs_fix": SHORT, "idxs_ds": CDS, "subidxs_out": REP, "subidxs_ds": FA, "subuparea": UPA,
                                              "subshape": "shape", "shape": "shape", "cellsize": "Z", "mv": "mv"},
         nsub="subidxs_ds", nc="idxs_ds", notnone=("idxs_fix",)),
]
# functions that are NOT translated and enter a translated caller as a parameter (a function of the arguments of the call):
# name in the generated text, signature that the source must have, results, the arrays that it stores into and returns, partial
ABSTRACT_CALLS = {
    "ihu_relocate_outlets": dict(coq="relocate", sig=[("idxs_fix", SHORT, None), ("idxs_ds", CDS, None), ("subidxs_out", REP, None),
                                                      ("subidxs_ds", FA, None), ("subuparea", UPA, None), ("subshape", "shape", None),
                                                      ("shape", "shape", None), ("cellsize", Z0, None), ("mv", "mv", None)],
                                 ret=[CDS, REP, SHORT], nret=3, alias={"idxs_ds": 0, "subidxs_out": 1}, partial=True, fuel=False),
}
# kernels translated by gen_upscale.py (GenUpscale.v) that ihu calls: their results
GU_KERNELS = {"eam_repcell": [REP], "ihu_outlets": [REP], "ihu_nextidx": [CDS, SHORT]}
# scalar helpers translated by gen_upscale.py (GenUpscale.v), callable here
HELPERS = ("subidx_2_idx", "in_d8")
RESERVED = (GU.RESERVED | {"ofold", "fuel", "rev", "map", "filter", "forallb", "memb", "argsort", "index_from", "List"}) - {"list", "bool", "seq"}
BUILTINS = ("np", "int", "abs", "core", "range", "bool", "list", "_mv", "max", "len")
PRELUDE_IHU = [
    "(* np.argsort IS Ihu.argsort, a STABLE ascending argsort (NumPy's default sort is not stable: the order of equal keys is a",
    "   modelling decision); x in l is Arr.memb; l.index(x), only inside `if x in l:`, is the position of the first x *)",
    "From PF Require Import Ihu.",
    "Definition gen_ihu_index (x : nat) (l : list nat) : nat := match index_from x l 0 with Some p_ => p_ | None => 0 end.", ""]
PRELUDE_BREAK = [
    "(* a for loop with `break`: the step also says whether the loop is left *)",
    "Definition gen_ihu_bfold {S X : Type} (f : S -> X -> S * bool) (l : list X) (s : S) : S :=",
    "  fst (fold_left (fun (st_ : S * bool) (x_ : X) => if snd st_ then st_ else f (fst st_) x_) l (s, false)).",
    "Definition gen_ihu_obfold {S X : Type} (f : S -> X -> option (S * bool)) (l : list X) (s : S) : option S :=",
    "  match fold_left (fun (st_ : option (S * bool)) (x_ : X) =>",
    "                     match st_ with None => None | Some (s_, b_) => if b_ then st_ else f s_ x_ end) l (Some (s, false)) with",
    "  | None => None | Some (s_, _) => Some s_ end.", ""]
PRELUDE_REL = [
    "(* np.where(b)[0]: the positions of the true elements *)",
    "Definition gen_ihu_where (b : list bool) : list nat := filter (fun i_ => nth i_ b false) (List.seq 0 (length b)).", ""]
ELEM_DEFAULT = {"F": "NSUB", "C": "NC", "Z": "0%Z", "S": "(-9)%Z", "B": "false", "T": "true"}
ELEM_COQ = {"F": "list nat", "C": "list nat", "Z": "list Z", "S": "list Z", "B": "list bool", "T": "list bool"}
CTX = "@@CTX@@"


def isnone(t):
    return isinstance(t, tuple) and t[0] == "none"


def islen(t):
    return isinstance(t, tuple) and t[0] == "len"


def coqty(t):
    if t == "Z4":
        return "Z"
    if isnone(t):
        return "option nat"
    if isarr(t):
        return ELEM_COQ[t[2]]
    if t == "fuel":
        return "nat"
    if isinstance(t, tuple) and t[0] == "fun":
        return t[1]
    if t == "blist":
        return "list bool"
    if t == "zlist":
        return "list Z"
    return GU.coqty(t)


def join(ts, name, node):
    ts = set(ts)
    if len(ts) == 1:
        return next(iter(ts))
    if all(islist(t) for t in ts) and len(ts - {("list", None)}) == 1:
        return next(iter(ts - {("list", None)}))
    if "Z4" in ts and all(t == "Z4" or isZ(t) or isnat(t) for t in ts):
        return "Z4"
    if ("len", None) in ts and ts <= {("len", None), Z0, ("nat", None)} and len(ts) > 1:
        return Z0
    if "mv" in ts and len(ts) == 2:
        o = next(t for t in ts if t != "mv")
        if (isZ(o) or isnat(o)) and o[1] in ("F", "C"):
            return ("opt", o[1])
        if isopt(o):
            return o
    if "mv" in ts and len(ts) == 3 and any(isopt(t) for t in ts):
        o = next(t for t in ts if isopt(t))
        x = next(t for t in ts if t != "mv" and not isopt(t))
        if (isZ(x) or isnat(x)) and x[1] == o[1]:
            return o
    return GU.join(ts, name, node)


class K2:
    """what the end of a block / continue / break / return mean"""

    def __init__(self, end, cont=None, brk=None, ret=None):
        self.end, self.cont, self.brk, self.ret = end, cont, brk, ret


class IFn(Fn):
    def __init__(self, spec, tree, reg, forced):
        self.spec, self.tree, self.reg, self.forced = spec, tree, reg, forced
        self.file = spec.get("file", FN)
        self.fd = find_def(tree, spec["name"], self.file)
        self.coqname = f"gen_ihu_{spec['name']}"
        self.env, self.raw, self.dirty = {}, {}, False
        self.usesbreak = False
        self.aliased, self.callmutated = set(), set()
        self.guards = set()      # (x, l): inside the body of `if x in l:`, neither name assigned since
        self.usesihu = False
        self.usesrel = False
        self.aux, self.used, self.tuples = [], set(), {}
        self.nloop, self.done = 0, set()
        self.rtypes = None
        self.listkind = dict(spec.get("_listkind", {}))
        self.nstores = {}
        for n in ast.walk(self.fd):
            if isinstance(n, (ast.Lambda, ast.FunctionDef, ast.DictComp, ast.SetComp, ast.GeneratorExp, ast.Global, ast.Nonlocal,
                              ast.Try, ast.With, ast.NamedExpr, ast.Yield, ast.Await, ast.Raise, ast.Delete, ast.AsyncFor,
                              ast.ClassDef, ast.Import, ast.ImportFrom, ast.AnnAssign)) and n is not self.fd:
                fail(n, FN, f"unsupported construct {type(n).__name__}")
            if isinstance(n, ast.Name) and isinstance(n.ctx, ast.Store):
                self.nstores[n.id] = self.nstores.get(n.id, 0) + 1
            nm = n.id if isinstance(n, ast.Name) else n.arg if isinstance(n, ast.arg) else None
            if nm is not None and (nm in RESERVED or nm.startswith("gen_up_") or nm.startswith("gen_ihu_") or "'" in nm
                                   or nm.endswith("_") and nm != "_"):
                fail(n, FN, f"name {nm} clashes with a name of the generated text")
        self.top_once = {nm for st in self.fd.body if isinstance(st, ast.Assign) for nm in names_stored([st])
                         if self.nstores.get(nm) == 1}
        self.arrparams = {p for p, t in spec["params"].items() if isarr(t) or islist(t)}
        if self.file == FN and any(isinstance(n, ast.Attribute) and isinstance(n.value, ast.Name) and n.value.id == "core"
                                   and isinstance(n.ctx, ast.Load) and n.attr != "_mv" for n in ast.walk(self.fd)):
            imps = [n for n in tree.body if isinstance(n, ast.ImportFrom) and any(a.name == "core" or a.asname == "core" for a in n.names)]
            if len(imps) != 1 or imps[0].module is not None or imps[0].level != 1 or len(imps[0].names) != 1 \
                    or imps[0].names[0].asname is not None:
                fail(self.fd, FN, "core is not `from . import core`")
        for nm in BUILTINS + HELPERS + tuple(f["name"] for f in FUNCS):
            if nm in self.nstores or nm in spec["params"]:
                fail(self.fd, FN, f"{nm} is rebound inside the function")
        for n in ast.walk(self.fd):
            if (isinstance(n, ast.Assign) and len(n.targets) == 1 and isinstance(n.targets[0], ast.Name)
                    and isinstance(n.value, ast.Name) and spec["params"].get(n.value.id) == "mv"):
                self.raw.setdefault(n.targets[0].id, set()).add("mv")
        self.partial = self.is_partial(self.fd.body)
        self.fuel = self.needs_fuel(self.fd.body)

    # ---------------------------------------------------------------- what returns option / takes fuel
    def callee(self, func):
        """the registry entry of a called function: f(...) of this module, core.f(...) of core.py"""
        if isinstance(func, ast.Name) and func.id in self.spec.get("abstract_calls", ()) and func.id not in self.nstores:
            return ABSTRACT_CALLS[func.id]
        if isinstance(func, ast.Name) and func.id not in self.env and func.id not in self.tuples:
            return self.reg.get(f"{self.file}:{func.id}")
        if isinstance(func, ast.Attribute) and isinstance(func.value, ast.Name) and func.value.id == "core" and self.file == FN \
                and "core" not in self.env:
            return self.reg.get(f"core.py:{func.attr}")
        return None

    def is_partial(self, stmts):
        for s in stmts:
            for n in ast.walk(s):
                if isinstance(n, (ast.While, ast.Assert)):
                    return True
                if isinstance(n, ast.Call) and (self.callee(n.func) or {}).get("partial"):
                    return True
        return False

    def needs_fuel(self, stmts):
        for s in stmts:
            for n in ast.walk(s):
                if isinstance(n, ast.While):
                    return True
                if isinstance(n, ast.Call) and (self.callee(n.func) or {}).get("fuel"):
                    return True
        return False

    # ---------------------------------------------------------------- header
    def header(self):
        a = self.fd.args
        if a.vararg or a.kwarg or a.kwonlyargs or a.posonlyargs:
            fail(self.fd, FN, "unsupported parameter kind")
        names = [x.arg for x in a.args]
        if names != list(self.spec["params"]):
            fail(self.fd, FN, f"signature of {self.fd.name} changed: {names}")
        defaults = dict(zip(names[len(names) - len(a.defaults):], a.defaults))
        self.binders, self.sig = [], []
        if self.fuel:
            self.binders.append("(fuel : nat)")
            self.env["fuel"] = ("fuel", "fuel", "v")
        for p, t in self.spec["params"].items():
            d = defaults.get(p)
            dtext = None
            if t == "mv":
                if not (isinstance(d, ast.Name) and d.id == "_mv"):
                    fail(self.fd, FN, f"default of {p} is not the module constant _mv")
                global_const(self.tree, "_mv", FN)
                v = gen.find_assign(self.tree, "_mv", FN)
                if not (isinstance(v, ast.Attribute) and isinstance(v.value, ast.Name) and v.value.id == "core" and v.attr == "_mv"):
                    fail(v, FN, "_mv is not core._mv")
                self.env[p] = ("", "mv", "v")
                self.sig.append((p, "mv", None))
                continue
            ty = Z0 if t == "Z" else t
            if ty == "Z4":
                if not (isinstance(d, ast.Constant) and type(d.value) is int and d.value == 0):
                    fail(self.fd, FN, f"parameter {p}: the default 0 is expected")
                dtext = "0%Z"
            elif ty == "bool":
                if not (isinstance(d, ast.Constant) and isinstance(d.value, bool)):
                    fail(self.fd, FN, f"parameter {p}: a boolean default is expected")
                dtext = "true" if d.value else "false"
            elif ty == "skip":
                if not (isinstance(d, ast.Constant) and isinstance(d.value, float)):
                    fail(self.fd, FN, f"parameter {p}: a float default is expected")
                self.env[p] = ("", "skip", "v")
                self.sig.append((p, "skip", None))
                continue
            elif isinstance(ty, tuple) and ty[0] == "quarters":
                # a float parameter that is FIXED to its default, a number of quarters
                if not (isinstance(d, ast.Constant) and isinstance(d.value, float) and d.value * 4 == ty[1]):
                    fail(self.fd, FN, f"parameter {p}: the default {ty[1]} / 4 is expected")
                self.env[p] = (zlit(ty[1]), "const4", "v")
                self.sig.append((p, "skip", None))
                continue
            elif isnone(ty):
                if not (isinstance(d, ast.Constant) and d.value is None):
                    fail(self.fd, FN, f"parameter {p}: the default None is expected")
                dtext = "None"
            elif ty == Z0 and d is not None:
                if not (isinstance(d, ast.Constant) and type(d.value) is int):
                    fail(self.fd, FN, f"parameter {p}: an integer default is expected")
                dtext = zlit(d.value)
            elif d is not None:
                fail(self.fd, FN, f"unexpected default of {p}")
            self.binders.append(f"({p} : {coqty(ty)})")
            self.env[p] = (p, ty, "v")
            self.raw.setdefault(p, set()).add(ty)
            self.sig.append((p, ty, dtext))
        for nm in (["ea"] if self.spec.get("ea") else []) + [ABSTRACT_CALLS[f]["coq"] for f in self.spec.get("abstract_calls", ())]:
            if nm in self.nstores or nm in self.spec["params"]:
                fail(self.fd, FN, f"name {nm} clashes with a name of the generated text")
        if self.spec.get("ea"):
            self.binders.append("(ea : nat -> bool)")
            self.env["ea"] = ("ea", ("fun", "nat -> bool"), "v")
        for f in self.spec.get("abstract_calls", ()):
            a = ABSTRACT_CALLS[f]
            fd = find_def(self.tree, f, FN)
            aa = fd.args
            if [x.arg for x in aa.args] != [p for p, _, _ in a["sig"]] or aa.vararg or aa.kwarg or aa.kwonlyargs or aa.posonlyargs \
                    or len(aa.defaults) != 1 or not (isinstance(aa.defaults[0], ast.Name) and aa.defaults[0].id == "_mv"):
                fail(fd, FN, f"signature of {f} changed")
            argt = " -> ".join(coqty(t) for _, t, _ in a["sig"] if t != "mv")
            rt = " * ".join(coqty(t) for t in a["ret"])
            ft = f"{argt} -> " + (f"option ({rt})" if a["partial"] else rt)
            self.binders.append(f"({a['coq']} : {ft})")
            self.env[a["coq"]] = (a["coq"], ("fun", ft), "v")
        self.head = []
        if "nsub" in self.spec:
            self.head.append(f"let NSUB := length {self.spec['nsub']} in")
            self.env["NSUB"] = ("NSUB", ("len", "F"), "v")
        if "nc" in self.spec:
            self.head.append(f"let NC := length {self.spec['nc']} in")
            self.env["NC"] = ("NC", ("len", "C"), "v")

    def have(self, what, node):
        if what not in self.env:
            fail(node, FN, f"{what} is not defined for this function")
        self.used.add(what)

    # ---------------------------------------------------------------- expressions
    def lookup(self, e):
        if e.id in self.tuples:
            fail(e, FN, f"the tuple {e.id} may only be used as *{e.id} in a call")
        if e.id in self.env:
            c, t, _ = self.env[e.id]
            if t in ("skip", "fuel", "const4") or isinstance(t, tuple) and t[0] == "fun":
                fail(e, FN, f"{e.id} is not a value")
            self.used.add(e.id)
            return c, t
        fail(e, FN, f"unknown name {e.id}")

    def toZ(self, c, t, node):
        if islen(t):
            return f"(Z.of_nat {c})"
        return Fn.toZ(self, c, t, node)

    def tonat(self, c, t, kind, node):
        if isopt(t) and t[1] == kind and kind in ("F", "C"):
            n = ELEM_DEFAULT[kind]
            self.have(n, node)
            return f"(match {c} with Some v_ => v_ | None => {n} end)"
        return Fn.tonat(self, c, t, kind, node)

    def mvtest(self, c, t, node):
        """x == mv.  An optional cell number is None exactly when it is the missing value (see coerce)"""
        if isopt(t):
            return f"(match {c} with None => true | Some _ => false end)"
        return Fn.mvtest(self, c, t, node)

    def default_of(self, ek, node):
        if ek in ("F", "C"):
            self.have(ELEM_DEFAULT[ek], node)
        return ELEM_DEFAULT[ek]

    # ---------------------------------------------------------------- expressions of ihu_relocate_outlets (see the docstring)
    def pos_nat(self, e):
        """a position (index of a list, bound of a slice) as a nat: a loop counter as it is, an integer z as Z.to_nat z"""
        c, t = self.ex(e)
        if t == ("nat", None) or islen(t):
            return c
        if t == Z0:
            return f"(Z.to_nat {c})"
        fail(e, FN, f"a position is expected, got {t}")

    def elem_list(self, t):
        """(default of an element, type of an element) of a list type that can be indexed"""
        if islist(t) and t[1] in ("F", "C"):
            return ELEM_DEFAULT[t[1]], ("nat", t[1])
        if t == "zlist":
            return "0%Z", Z0
        return None

    def ex_rel(self, e):
        if is_np_call(e, ("unique",)):
            a = e.args[0] if len(e.args) == 1 and not e.keywords else None
            if not (is_np_call(a, ("array",)) and len(a.args) == 1 and isinstance(a.args[0], ast.Name)
                    and len(a.keywords) == 1 and a.keywords[0].arg == "dtype"):
                fail(e, FN, "unsupported np.unique (np.unique(np.array(l, dtype=...)) of a list is expected)")
            c, t = self.lookup(a.args[0])
            if not (islist(t) and t[1] in ("F", "C")):
                fail(e, FN, "np.unique of a value that is not a list of cell numbers")
            self.usesihu = True
            return f"(uniq_sorted {c})", t
        if is_np_call(e, ("logical_and",)):
            if len(e.args) != 2 or e.keywords:
                fail(e, FN, "unsupported np.logical_and")
            (a, ta), (b, tb) = self.ex(e.args[0]), self.ex(e.args[1])
            if ta != "blist" or tb != "blist":
                fail(e, FN, "np.logical_and of values that are not lists of booleans")
            return f"(map (fun p_ => (fst p_ && snd p_)) (combine {a} {b}))", "blist"

        def where0(x):
            if isinstance(x, ast.Subscript) and is_np_call(x.value, ("where",)) and isinstance(x.slice, ast.Constant) \
                    and type(x.slice.value) is int and x.slice.value == 0:
                w = x.value
                if len(w.args) != 1 or w.keywords:
                    fail(x, FN, "unsupported np.where")
                c, t = self.ex(w.args[0])
                if t != "blist":
                    fail(x, FN, "np.where of a value that is not a list of booleans")
                self.usesrel = True
                return f"(gen_ihu_where {c})"
            return None

        if isinstance(e, ast.BinOp) and isinstance(e.op, ast.Add) and where0(e.left) is not None:
            return f"(map (fun i_ => (i_ + {self.pos_nat(e.right)})%nat) {where0(e.left)})", ("list", "P")
        if where0(e) is not None:
            return where0(e), ("list", "P")
        if isinstance(e, ast.IfExp):
            c, t = self.ex(e.test)
            (a, ta), (b, tb) = self.ex(e.body), self.ex(e.orelse)
            if t == "bool" and ta == "bool" and tb == "bool":
                return f"(if {c} then {a} else {b})", "bool"
            return None
        if isinstance(e, ast.Subscript) and isinstance(e.slice, ast.Slice) and e.slice.lower is not None:
            sl = e.slice
            c, t = self.ex(e.value)
            if sl.upper is not None or sl.step is not None or self.elem_list(t) is None:
                fail(e, FN, "unsupported slice (l[::-1] and l[k:] of a list are understood)")
            return f"(skipn {self.pos_nat(sl.lower)} {c})", t
        if isinstance(e, ast.Subscript) and not isinstance(e.slice, (ast.Slice, ast.Tuple)):
            # l[-1 - i] for a loop counter i;  l[p] of a list of integers;  l[ps] for a list ps of positions
            neg = e.slice
            if isinstance(neg, ast.BinOp) and isinstance(neg.op, ast.Sub) and isinstance(neg.right, ast.Name) \
                    and isinstance(neg.left, ast.UnaryOp) and isinstance(neg.left.op, ast.USub) \
                    and isinstance(neg.left.operand, ast.Constant) and type(neg.left.operand.value) is int and neg.left.operand.value == 1:
                if not isinstance(e.value, ast.Name):
                    fail(e, FN, "unsupported negative index")
                c, t = self.lookup(e.value)
                i, it = self.lookup(neg.right)
                if self.elem_list(t) is None or it != ("nat", None):
                    fail(e, FN, "l[-1 - i]: a list and a loop counter are expected")
                d, et = self.elem_list(t)
                if et[1] in ("F", "C"):
                    self.have(d, e)
                return f"(nth (length {c} - 1 - {i}) {c} {d})", et
            if isinstance(e.slice, ast.UnaryOp):
                return None
            if isinstance(e.value, ast.Name) and e.value.id in self.env or is_np_call(e.value, ("array",)):
                c, t = self.ex(e.value)
                if self.elem_list(t) is not None:
                    d, et = self.elem_list(t)
                    if isinstance(e.slice, ast.Name) and self.env.get(e.slice.id, (0, 0))[1] == ("list", "P"):
                        ic, _ = self.lookup(e.slice)
                        if et[1] in ("F", "C"):
                            self.have(d, e)
                        return f"(map (fun i_ => nth i_ {c} {d}) {ic})", t
                    if t == "zlist":
                        return f"(nth {self.pos_nat(e.slice)} {c} {d})", et
            return None
        if is_np_call(e, ("array",)) and len(e.args) == 1 and isinstance(e.args[0], ast.Name) \
                and all(kw.arg == "dtype" for kw in e.keywords) and len(e.keywords) <= 1 \
                and self.env.get(e.args[0].id, (0, 0))[1] == "zlist":
            return self.lookup(e.args[0])
        return None

    def ex(self, e):
        r = self.ex_rel(e)
        if r is not None:
            return r
        if isinstance(e, ast.Call) and isinstance(e.func, ast.Name) and e.func.id == "int" and len(e.args) == 1 and not e.keywords \
                and is_np_call(e.args[0], ("ceil",)):
            q = e.args[0]
            if len(q.args) != 1 or q.keywords or not (isinstance(q.args[0], ast.BinOp) and isinstance(q.args[0].op, ast.Div)):
                fail(e, FN, "unsupported np.ceil")
            (a, ta), (b, tb) = self.ex(q.args[0].left), self.ex(q.args[0].right)
            if not (isZ(ta) and isZ(tb)):
                fail(e, FN, "int(np.ceil(a / b)): integers are expected")
            return f"(- ((- {a}) / {b}))%Z", Z0
        if isinstance(e, ast.IfExp):
            c, t = self.ex(e.test)
            (a, ta), (b, tb) = self.ex(e.body), self.ex(e.orelse)
            if t != "bool" or not (isZ(ta) and isZ(tb)):
                fail(e, FN, "unsupported conditional expression")
            return f"(if {c} then {a} else {b})", (ta if ta == tb else Z0)
        if isinstance(e, ast.BinOp) and isinstance(e.op, ast.Pow):
            c, t = self.ex(e.left)
            if not (isZ(t) and isinstance(e.right, ast.Constant) and type(e.right.value) is int and 0 <= e.right.value <= 4):
                fail(e, FN, "unsupported power")
            return f"({c} ^ {e.right.value})%Z", Z0
        if isinstance(e, ast.BinOp) and isinstance(e.op, ast.Mult) and isinstance(e.right, ast.Name) \
                and self.env.get(e.right.id, (0, 0))[1] == "const4":
            c, t = self.ex(e.left)
            if not isZ(t):
                fail(e, FN, "unsupported float arithmetic")
            self.used.add(e.right.id)
            return f"({c} * {self.env[e.right.id][0]})%Z", "Z4"
        if is_cast(e) and isinstance(e.func, ast.Name) and not (isinstance(e.args[0], ast.BinOp) and isinstance(e.args[0].op, ast.Div)):
            c, t = self.ex(e.args[0])       # int(.) of a cell number is the cell number
            if isnat(t):
                return c, t
        if isinstance(e, ast.Subscript) and isinstance(e.slice, ast.Slice):
            sl = e.slice
            c, t = self.ex(e.value)
            if not (sl.lower is None and sl.upper is None and isinstance(sl.step, ast.UnaryOp) and isinstance(sl.step.op, ast.USub)
                    and isinstance(sl.step.operand, ast.Constant) and sl.step.operand.value == 1 and type(sl.step.operand.value) is int
                    and islist(t)):
                fail(e, FN, "unsupported slice (only l[::-1] of a list)")
            return f"(rev {c})", t
        if is_np_call(e, ("argsort",)):
            if len(e.args) != 1 or e.keywords:
                fail(e, FN, "unsupported np.argsort")
            c, t = self.ex(e.args[0])
            if t != "zlist":
                fail(e, FN, "np.argsort of a value that is not a list of integers")
            self.usesihu = True
            return f"(argsort {c})", ("list", "P")
        if isinstance(e, ast.Call) and isinstance(e.func, ast.Attribute) and e.func.attr == "index" and isinstance(e.func.value, ast.Name) \
                and len(e.args) == 1 and not e.keywords and isinstance(e.args[0], ast.Name):
            if (e.args[0].id, e.func.value.id) not in self.guards:
                fail(e, FN, "l.index(x) is only understood inside `if x in l:` (ValueError otherwise)")
            (x, tx), (l, tl) = self.lookup(e.args[0]), self.lookup(e.func.value)
            self.usesihu = True
            return f"(gen_ihu_index {x} {l})", ("nat", None)
        if isinstance(e, ast.Subscript):
            if isinstance(e.slice, (ast.UnaryOp, ast.Slice, ast.Tuple)):
                fail(e, FN, "unsupported index")
            bc, bt = self.ex(e.value)
            if isarr(bt) and not isinstance(e.slice, ast.Constant):
                ic, it = self.ex(e.slice)
                if islist(it) and it[1] == bt[1] and bt[1] in ("F", "C"):      # a[l]: one element per element of l
                    ek = bt[2]
                    rt = ("list", ek) if ek in ("F", "C") else "zlist" if ek in ("Z", "S") else "blist"
                    return f"(map (fun i_ => nth i_ {bc} {self.default_of(ek, e)}) {ic})", rt
            if isarr(bt):
                i = self.tonat(*self.ex(e.slice), bt[1], e)
                ek = bt[2]
                rt = ("nat", ek) if ek in ("F", "C") else Z0 if ek in ("Z", "S") else "bool"
                return f"(nth {i} {bc} {self.default_of(ek, e)})", rt
            if islist(bt):
                if isinstance(e.slice, ast.Constant) and type(e.slice.value) is int and e.slice.value >= 0:
                    i = str(e.slice.value)
                else:
                    i, it = self.ex(e.slice)
                    if it != ("nat", None):
                        fail(e, FN, f"a list is indexed by a position, got {it}")
                if bt[1] is None:
                    self.dirty = True
                    return f"(nth {i} {bc} 0)", ("nat", None)
                return f"(nth {i} {bc} {self.default_of(bt[1], e)})", ("nat", bt[1])
            fail(e, FN, f"subscript of a value of type {bt}")
        if isinstance(e, ast.Call) and isinstance(e.func, ast.Name) and e.func.id == "int" and len(e.args) == 1 and not e.keywords \
                and isinstance(e.args[0], ast.BinOp) and isinstance(e.args[0].op, ast.Div):
            (a, ta), (b, tb) = self.ex(e.args[0].left), self.ex(e.args[0].right)
            if not islen(ta) or not (isZ(tb) or isnat(tb) or islen(tb)):
                fail(e, FN, "int(a / b): a size and an integer are expected")
            return f"({self.toZ(a, ta, e)} / {self.toZ(b, tb, e)})%Z", Z0
        if isinstance(e, ast.Call) and isinstance(e.func, ast.Name) and e.func.id == "len":
            if len(e.args) != 1 or e.keywords or not isinstance(e.args[0], ast.Name):
                fail(e, FN, "unsupported len")
            c, t = self.lookup(e.args[0])
            if not islist(t):
                fail(e, FN, "len of a value that is not a list")
            return f"(length {c})", ("len", None)
        if isinstance(e, ast.Call) and isinstance(e.func, ast.Name) and e.func.id == "max":
            if len(e.args) != 2 or e.keywords:
                fail(e, FN, "unsupported max")
            (a, ta), (b, tb) = self.ex(e.args[0]), self.ex(e.args[1])
            if not (isZ(ta) and isZ(tb)):
                fail(e, FN, "max of values that are not integers")
            return f"(Z.max {a} {b})", Z0
        if isinstance(e, ast.Attribute) and isinstance(e.value, ast.Name) and e.attr == "size" \
                and islist(self.env.get(e.value.id, (0, 0))[1]):
            c, t = self.lookup(e.value)
            return f"(length {c})", ("len", None)
        if isinstance(e, ast.Call) and isinstance(e.func, ast.Attribute) and self.callee(e.func) is not None:
            return self.call(e)
        if isinstance(e, ast.ListComp):
            g = e.generators
            if len(g) != 1 or g[0].is_async or len(g[0].ifs) > 1 or not isinstance(g[0].target, ast.Name) \
                    or not isinstance(g[0].iter, ast.Name):
                fail(e, FN, "unsupported list comprehension")
            lc, lt = self.lookup(g[0].iter)
            v = g[0].target.id
            if not (islist(lt) and lt[1] in ("F", "C")) or v in self.env or v in self.tuples:
                fail(e, FN, "unsupported list comprehension (a list of cell numbers and a fresh variable are expected)")
            self.env[v] = (v, ("nat", lt[1]), "v")
            src = lc
            if g[0].ifs:
                c, t = self.ex(g[0].ifs[0])
                if t != "bool":
                    fail(e, FN, "non-boolean filter")
                src = f"(filter (fun {v} => {c}) {lc})"
            c, t = self.ex(e.elt)
            del self.env[v]
            self.used.discard(v)
            if t != "bool":
                fail(e, FN, "only lists of booleans are built by comprehension")
            return f"(map (fun {v} => {c}) {src})", "blist"
        if is_np_call(e, ("all",)) and len(e.args) == 1 and not e.keywords and not is_np_call(e.args[0], ("array",)):
            c, t = self.ex(e.args[0])
            if t != "blist":
                fail(e, FN, "np.all of a value that is not a list of booleans")
            return f"(forallb (fun b_ => b_) {c})", "bool"
        if is_np_call(e, ("all",)) and len(e.args) == 1 and not e.keywords and is_np_call(e.args[0], ("array",)) \
                and len(e.args[0].args) == 1 and not e.args[0].keywords and isinstance(e.args[0].args[0], ast.Name):
            c, t = self.lookup(e.args[0].args[0])
            if t != "blist":
                fail(e, FN, "np.all of a value that is not a list of booleans")
            return f"(forallb (fun b_ => b_) {c})", "bool"
        if is_np_call(e, ("array",)) and len(e.args) == 1 and isinstance(e.args[0], ast.Name) \
                and all(kw.arg == "dtype" for kw in e.keywords) and len(e.keywords) <= 1:
            c, t = self.lookup(e.args[0])
            if not islist(t):
                fail(e, FN, "np.array of a value that is not a list")
            return c, t
        return Fn.ex(self, e)

    def compare(self, e):
        if len(e.ops) != 1:
            fail(e, FN, "chained comparison")
        op, l, r = type(e.ops[0]), e.left, e.comparators[0]
        if op in (ast.Is, ast.IsNot) and isinstance(r, ast.Constant) and isinstance(r.value, bool):
            c, t = self.ex(l)       # `b is False` of a boolean b (a Python / numba bool is one of the two objects True, False)
            if t != "bool":
                fail(e, FN, "`is True` / `is False` of a value that is not a boolean")
            return (c if r.value == (op is ast.Is) else f"(negb {c})"), "bool"
        if op in (ast.Is, ast.IsNot):
            if not (isinstance(r, ast.Constant) and r.value is None):
                fail(e, FN, "unsupported identity test")
            c, t = self.ex(l)
            if not isnone(t):
                fail(e, FN, "`is None` of a value that is never None")
            yes, no = ("true", "false") if op is ast.Is else ("false", "true")
            return f"(match {c} with None => {yes} | Some _ => {no} end)", "bool"
        if op in (ast.In, ast.NotIn):
            (a, ta), (b, tb) = self.ex(l), self.ex(r)
            if tb == ("list", None):        # the kind of the elements is found at an append further down: next pass
                self.dirty = True
                return "false", "bool"
            if isZ(ta) and islist(tb) and ta[1] == tb[1] and ta[1] in ("F", "C"):
                a, ta = f"(Z.to_nat {a})", ("nat", ta[1])
            if not (isnat(ta) and islist(tb) and ta[1] == tb[1] and ta[1] in ("F", "C")):
                fail(e, FN, "x in l: a cell number and a list of cell numbers of its kind are expected")
            c = f"(memb {a} {b})"
            return (c if op is ast.In else f"(negb {c})"), "bool"
        (a, ta), (b, tb) = self.ex(l), self.ex(r)
        if ta == "zlist" and (tb == Z0 or tb == ("nat", None) or islen(tb)):
            sym = {ast.Eq: "=?", ast.Lt: "<?", ast.LtE: "<=?", ast.Gt: ">?", ast.GtE: ">=?"}.get(op)
            if sym is None:
                fail(e, FN, "unsupported comparison")
            return f"(map (fun x_ => (x_ {sym} {self.toZ(b, tb, e)})%Z) {a})", "blist"
        if islist(ta) and ta[1] in ("F", "C") and (isnat(tb) or isZ(tb)) and tb[1] == ta[1] and op in (ast.Eq, ast.NotEq):
            # l == x, l != x of an array l: one boolean per element
            c = f"(x_ =? {self.tonat(b, tb, ta[1], e)})%nat"
            return f"(map (fun x_ => {c if op is ast.Eq else '(negb ' + c + ')'}) {a})", "blist"
        if ta == "bool" and tb == "bool" and op in (ast.Eq, ast.NotEq):
            c = f"(Bool.eqb {a} {b})"
            return (c if op is ast.Eq else f"(negb {c})"), "bool"
        if isnone(ta) or isnone(tb):
            if isnone(ta) and isnone(tb) or op not in (ast.Eq, ast.NotEq):
                fail(e, FN, "unsupported comparison with an optional parameter")
            (o, to), (x, tx) = ((a, ta), (b, tb)) if isnone(ta) else ((b, tb), (a, ta))
            if not (isnat(tx) and tx[1] == to[1]):
                fail(e, FN, f"comparison of an optional parameter of kind {to[1]} with {tx}")
            yes, no = ("false", "true") if op is ast.NotEq else ("true", "false")
            c = f"(match {o} with None => false | Some v_ => (v_ =? {x})%nat end)"
            return (c if op is ast.Eq else f"(negb {c})"), "bool"
        if "Z4" in (ta, tb):
            a4 = a if ta == "Z4" else f"(4 * {self.toZ(a, ta, e)})%Z"
            b4 = b if tb == "Z4" else f"(4 * {self.toZ(b, tb, e)})%Z"
            sym = {ast.Eq: "=?", ast.Lt: "<?", ast.LtE: "<=?", ast.Gt: ">?", ast.GtE: ">=?"}.get(op)
            if sym is None:
                fail(e, FN, "unsupported comparison")
            return f"({a4} {sym} {b4})%Z", "bool"
        return Fn.compare(self, e)

    def star(self, args):
        out = []
        for a in args:
            if isinstance(a, ast.Starred):
                if not (isinstance(a.value, ast.Name) and a.value.id in self.tuples):
                    fail(a, FN, "unsupported * argument")
                out += self.tuples[a.value.id]
            else:
                out.append(a)
        return out

    def coerce_arg(self, c, ta, t, node):
        if isZ(t):
            if (isZ(ta) or isnat(ta)) and ta[1] and t[1] and ta[1] != t[1]:
                fail(node, FN, f"an argument of kind {t[1]} is expected, got {ta}")
            return self.toZ(c, ta, node)
        if isnat(t):
            return self.tonat(c, ta, t[1], node)
        if t == "Z4" and ta != "Z4":
            return f"(4 * {self.toZ(c, ta, node)})%Z"
        if isnone(t) and isnat(ta) and ta[1] == t[1]:
            return f"(Some {c})"
        if t == ta:
            return c
        fail(node, FN, f"an argument of type {t} is expected, got {ta}")

    def call_text(self, e):
        """(text of the call, result types, partial) of a call of a translated function"""
        callee = self.callee(e.func)
        if callee is None:
            fail(e, FN, f"unsupported call {ast.unparse(e.func)}")
        pos = self.star(e.args)
        sig = callee["sig"]
        if len(pos) > len(sig):
            fail(e, FN, "too many arguments")
        actual = dict(zip([p for p, _, _ in sig], pos))
        for kw in e.keywords:
            if kw.arg is None or kw.arg not in [p for p, _, _ in sig] or kw.arg in actual:
                fail(e, FN, "unsupported keyword argument")
            actual[kw.arg] = kw.value
        out = ["fuel"] if callee.get("fuel") else []
        if callee.get("fuel"):
            self.have("fuel", e)
        for p, t, dflt in sig:
            if t == "mv":
                if p in actual and not (isinstance(actual[p], ast.Name) and self.env.get(actual[p].id, (0, 0))[1] == "mv"):
                    fail(e, FN, f"argument {p}: only the caller's own mv is understood")
                continue
            if t == "skip":
                if not (p in actual and isinstance(actual[p], ast.Name) and actual[p].id == p
                        and self.env.get(p, (0, 0))[1] == "skip" and p in self.spec["params"]):
                    fail(e, FN, f"argument {p}: the caller's own parameter {p} is expected")
                continue
            if p not in actual:
                if dflt is None:
                    fail(e, FN, f"argument {p} is missing")
                out.append(dflt)
                continue
            if callee.get("ea") and p in ("subshape", "cellsize") and not (
                    isinstance(actual[p], ast.Name) and actual[p].id == p and p in self.spec["params"] and self.nstores.get(p, 0) == 0):
                fail(e, FN, f"argument {p}: the caller's own parameter {p} is expected (the effective area depends on it)")
            c, ta = self.ex(actual[p])
            out.append(self.coerce_arg(c, ta, t, actual[p]))
        if callee.get("ea"):
            if not self.spec.get("ea"):
                fail(e, FN, "the caller has no effective-area parameter")
            out.append("ea")
            self.used.add("ea")
        if callee["coq"] in self.env:
            self.used.add(callee["coq"])
        for nm in self.aliased:
            if any(isinstance(a, ast.Name) and a.id == nm for p, a in actual.items() if p in callee.get("alias", {})):
                fail(e, FN, f"{nm} has a second name and is stored into")
        self.callmutated |= {a.id for p, a in actual.items() if p in callee.get("alias", {}) and isinstance(a, ast.Name)}
        self.lastactual = actual
        return f"({callee['coq']} {' '.join(out)})", callee["ret"], callee.get("partial", False)

    def call(self, e):
        txt, ret, partial = self.call_text(e)
        if partial or len(ret) != 1 or self.callee(e.func).get("alias"):
            fail(e, FN, f"{ast.unparse(e.func)}: the call is only understood as the right-hand side of an assignment")
        return txt, ret[0]

    def call_stmt(self, targets, v, s, rest, ind, k):
        """targets = f(...) where f returns a tuple, or has no value on some inputs, or stores into its array parameters:
        an array that the callee stores into must be passed by name and the result that is this array must be bound to the
        same name (Python: the two names are one object); arrays that the callee stores into and does not return are rebound"""
        pad = " " * ind
        callee = self.callee(v.func)
        txt, ret, partial = self.call_text(v)
        actual = self.lastactual
        nret = callee.get("nret", len(ret))
        if len(targets) != nret or len(set(targets)) != len(targets):
            fail(s, FN, f"{nret} distinct targets are expected")
        names = list(targets) + [None] * (len(ret) - nret)
        for p, pos in callee.get("alias", {}).items():
            a = actual.get(p)
            if not (isinstance(a, ast.Name) and a.id in self.env and (isarr(self.env[a.id][1]) or islist(self.env[a.id][1]))):
                fail(s, FN, f"argument {p}: an array that the callee stores into must be passed by name")
            if sum(isinstance(x, ast.Name) and x.id == a.id for x in actual.values()) != 1:
                fail(s, FN, f"the array {a.id} is passed twice")
            if pos < nret and names[pos] != a.id:
                fail(s, FN, f"the result {pos} of the call is the array {a.id}: it must be bound to this name")
            names[pos] = a.id
        for pos, nm in enumerate(names[:nret]):
            if nm in self.arrparams and pos not in callee.get("alias", {}).values():
                fail(s, FN, f"the array parameter {nm} is rebound")
        if None in names:
            fail(s, FN, "a result of the call has no name")
        vs = [f"r{j}_" for j in range(len(names))]
        lines = [self.bind(nm, x, t, s, alias=True) for nm, x, t in zip(names, vs, ret)]
        body = "".join(f"{pad}  {l}\n" for l in lines) + self.block(rest, ind + 2, k)
        if partial:
            return f"{pad}match {txt} with\n{pad}| None => None\n{pad}| Some {self.tuple_of(vs)} =>\n{body}\n{pad}end"
        return f"{pad}match {txt} with\n{pad}| {self.tuple_of(vs)} =>\n{body}\n{pad}end"

    # ---------------------------------------------------------------- statements
    def coerce(self, c, t, target):
        if t == target:
            return c
        if target == "Z4" and (isZ(t) or isnat(t)):
            return f"(4 * {self.toZ(c, t, None)})%Z"
        if target == Z0 and t == ("len", None):
            return f"(Z.of_nat {c})"
        if isZ(t) and isopt(target) and t[1] == target[1]:
            return f"(Some (Z.to_nat {c}))"
        if isnat(t) and isopt(target) and t[1] == target[1]:
            n = ELEM_DEFAULT[t[1]]
            self.have(n, None)
            return f"(if ({n} <=? {c})%nat then None else Some {c})"
        return Fn.coerce(self, c, t, target)

    def bind(self, name, c, t, node, scope="v", alias=False):
        if name in self.arrparams and not alias:
            fail(node, FN, f"the array parameter {name} is rebound (the caller's array would not follow)")
        if name in self.tuples or self.env.get(name, (0, 0))[0] == "" or self.env.get(name, (0, 0))[1] in ("skip", "fuel") or name in ("NSUB", "NC"):
            fail(node, FN, f"{name} cannot be assigned")
        self.guards = {g for g in self.guards if name not in g}
        if t == Z0 and name in self.spec.get("kinds", {}):
            t = ("Z", self.spec["kinds"][name])
        self.raw.setdefault(name, set()).add(t)
        if name in self.forced:
            c, t = self.coerce(c, t, self.forced[name]), self.forced[name]
        elif len(self.raw[name]) > 1:
            self.dirty = True
        self.env[name] = (name, t, "v")
        return f"let {name} := {c} in"

    def array_init(self, name, v, node):
        if isinstance(v, ast.List) and not v.elts or \
                (isinstance(v, ast.Call) and isinstance(v.func, ast.Name) and v.func.id == "list" and not v.args and not v.keywords):
            if self.listkind.get(name) == "Z":
                return "(@nil Z)", "zlist"
            return "(@nil nat)", ("list", self.listkind.get(name))
        if is_np_call(v, ("full",)):
            dt = [kw for kw in v.keywords if kw.arg == "dtype"]
            if len(v.args) != 2 or len(dt) != 1 or len(v.keywords) != 1:
                fail(node, FN, "unsupported np.full")
            ek = self.spec.get("locals", {}).get(name)
            if isinstance(v.args[0], ast.Constant) and type(v.args[0].value) is int and v.args[0].value >= 0:
                c, t = self.ex(v.args[1])
                if t != "mv" or ek not in ("F", "C"):
                    fail(node, FN, "np.full(<constant>, ...): the missing value and a declared kind are expected")
                return f"(repeat {self.default_of(ek, node)} {v.args[0].value})", ("list", ek)
            n, lk = self.size(v.args[0])
            fill = v.args[1]
            k = gen.const_int(fill, FN)
            want = {"S": -9, "Z": None}.get(ek, 0)
            if ek not in ("S", "Z") or (want is not None and k != want):
                fail(node, FN, f"np.full: the element type of {name} is not declared, or its fill value is not its nodata value")
            return f"(repeat {zlit(k)} {n})", ("arr", lk, ek)
        if is_np_call(v, ("array",)) and len(v.args) == 1 and not v.keywords and isinstance(v.args[0], ast.ListComp):
            lc = v.args[0]
            g = lc.generators
            ok = (len(g) == 1 and not g[0].ifs and not g[0].is_async and isinstance(g[0].target, ast.Name) and g[0].target.id == "_"
                  and isinstance(g[0].iter, ast.Call) and isinstance(g[0].iter.func, ast.Name) and g[0].iter.func.id == "range"
                  and len(g[0].iter.args) == 1 and not g[0].iter.keywords)
            el = lc.elt
            val = None
            if isinstance(el, ast.Constant) and isinstance(el.value, bool):
                val = el.value
            elif (isinstance(el, ast.Call) and isinstance(el.func, ast.Name) and el.func.id == "bool" and len(el.args) == 1
                  and not el.keywords and isinstance(el.args[0], ast.Constant) and type(el.args[0].value) in (int, bool)
                  and el.args[0].value in (0, 1)):
                val = bool(el.args[0].value)
            ek = self.spec.get("locals", {}).get(name, "B")
            if not ok or val is None or ek not in ("B", "T") or val != (ek == "T"):
                fail(node, FN, "unsupported list comprehension (a constant boolean array whose value is its declared read default)")
            n, lk = self.size(g[0].iter.args[0])
            return f"(repeat {'true' if val else 'false'} {n})", ("arr", lk, ek)
        return None

    def size(self, e):
        c, t = self.ex(e)
        if not islen(t) or t[1] is None:
            fail(e, FN, "unsupported size expression")
        return c, t[1]

    def tuple_of(self, parts):
        return parts[0] if len(parts) == 1 else "(" + ", ".join(parts) + ")"

    def pat_of(self, names):
        return names[0] if len(names) == 1 else "'(" + ", ".join(names) + ")"

    def stateful(self, entry, body, node):
        st = set(names_stored(body)) | modified(body)
        out = [n for n in entry if n in st]
        for n in out:
            if entry[n][0] == "" or entry[n][1] in ("skip", "fuel", "const4") or n in ("NSUB", "NC") \
                    or isinstance(entry[n][1], tuple) and entry[n][1][0] == "fun":
                fail(node, FN, f"{n} cannot be assigned")
        return out

    def cty(self, t):
        if t == "mv":           # only in a pass whose output is discarded
            self.dirty = True
            return "nat"
        return coqty(t)

    def block(self, body, ind, k):
        pad = " " * ind
        if not body:
            return pad + k.end()
        s, rest = body[0], body[1:]
        if isinstance(s, ast.Continue):
            if k.cont is None:
                fail(s, FN, "continue outside the body of a for loop")
            return pad + k.cont()
        if isinstance(s, ast.Break):
            if k.brk is None:
                fail(s, FN, "break outside a while loop")
            return pad + k.brk(s)
        if isinstance(s, ast.Return):
            if k.ret is None:
                fail(s, FN, "return inside a loop")
            return pad + k.ret(s)
        if isinstance(s, ast.Pass):
            return self.block(rest, ind, k)
        if isinstance(s, ast.If) and isinstance(s.test, ast.Compare) and len(s.test.ops) == 1 and isinstance(s.test.ops[0], ast.Is) \
                and isinstance(s.test.left, ast.Name) and s.test.left.id in self.spec.get("notnone", ()):
            # `if p is None: x = ... else: x = p` for a parameter p that is declared as a list (never None: the callers that are
            # modelled pass a list): the first branch is dead and is not translated
            r, p_ = s.test.comparators[0], s.test.left.id
            def one(b):
                return len(b) == 1 and isinstance(b[0], ast.Assign) and len(b[0].targets) == 1 and isinstance(b[0].targets[0], ast.Name)
            if not (isinstance(r, ast.Constant) and r.value is None and self.nstores.get(p_, 0) == 0 and p_ in self.arrparams
                    and one(s.body) and one(s.orelse) and s.body[0].targets[0].id == s.orelse[0].targets[0].id
                    and isinstance(s.orelse[0].value, ast.Name) and s.orelse[0].value.id == p_):
                fail(s, FN, "unsupported `is None` test of a parameter that is never None")
            return self.block(list(s.orelse) + rest, ind, k)
        if isinstance(s, ast.Assert):
            if s.msg is not None:
                fail(s, FN, "unsupported assertion")
            c, t = self.ex(s.test)
            if t != "bool":
                fail(s, FN, "non-boolean assertion")
            return f"{pad}if {c} then\n{self.block(rest, ind + 2, k)}\n{pad}else None"
        if isinstance(s, ast.AugAssign):
            if not isinstance(s.target, ast.Name) or not isinstance(s.op, (ast.Add, ast.Sub)):
                fail(s, FN, "unsupported augmented assignment")
            v = ast.BinOp(left=ast.Name(id=s.target.id, ctx=ast.Load()), op=s.op, right=s.value)
            ast.copy_location(v, s)
            ast.fix_missing_locations(v)
            c, t = self.ex(v)
            return pad + self.bind(s.target.id, c, t, s) + "\n" + self.block(rest, ind, k)
        if isinstance(s, ast.Assign) and len(s.targets) == 1:
            t, v = s.targets[0], s.value
            if isinstance(t, ast.Tuple) and isinstance(v, ast.Tuple) and len(t.elts) == len(v.elts) \
                    and all(isinstance(x, ast.Name) for x in t.elts) and len({x.id for x in t.elts}) == len(t.elts) \
                    and all(isinstance(y, ast.List) for y in v.elts):
                lines = []
                for x, y in zip(t.elts, v.elts):
                    ini = self.array_init(x.id, y, s)
                    if ini is None or not islist(ini[1]):
                        fail(s, FN, "unsupported tuple assignment")
                    lines.append(pad + self.bind(x.id, ini[0], ini[1], s) + "\n")
                return "".join(lines) + self.block(rest, ind, k)
            if isinstance(t, ast.Tuple) and all(isinstance(x, ast.Name) for x in t.elts) and isinstance(v, ast.Tuple):
                # a, b = e1, e2 of scalars: no target is read on the right-hand side, so that the order does not matter
                names = [x.id for x in t.elts]
                if len(names) != len(v.elts) or len(set(names)) != len(names) or set(names) & names_loaded([v]):
                    fail(s, FN, "unsupported tuple assignment")
                lines = []
                for nm, y in zip(names, v.elts):
                    c, ty = self.ex(y)
                    if not (isnat(ty) or isZ(ty) or ty == "bool"):
                        fail(s, FN, "unsupported tuple assignment")
                    lines.append(pad + self.bind(nm, c, ty, s) + "\n")
                return "".join(lines) + self.block(rest, ind, k)
            if isinstance(t, ast.Tuple) and all(isinstance(x, ast.Name) for x in t.elts) and isinstance(v, ast.Name):
                c, ty = self.lookup(v)
                names = [x.id for x in t.elts]
                real = [nm for nm in names if nm != "_"]
                if ty != "shape" or len(names) != 2 or len(set(real)) != len(real):
                    fail(s, FN, "unsupported tuple assignment")
                for nm in real:
                    self.bind(nm, "", Z0, s)
                return f"{pad}let '({', '.join(names)}) := {c} in\n" + self.block(rest, ind, k)
            if isinstance(t, ast.Tuple) and all(isinstance(x, ast.Name) for x in t.elts) and isinstance(v, ast.Call) \
                    and self.callee(v.func) is not None:
                return self.call_stmt([x.id for x in t.elts], v, s, rest, ind, k)
            if isinstance(t, ast.Name) and isinstance(v, ast.BinOp) and isinstance(v.op, ast.Add) and isinstance(v.left, ast.Name) \
                    and v.left.id in self.tuples and isinstance(v.right, ast.Tuple):
                if not v.right.elts or self.nstores.get(t.id) != 1 or t.id in self.env:
                    fail(s, FN, "unsupported tuple")
                for x in v.right.elts:
                    if not (isinstance(x, ast.Name) and x.id in self.env and self.nstores.get(x.id, 0) == 1):
                        fail(s, FN, "a tuple of names that are assigned once is expected")
                self.tuples[t.id] = list(self.tuples[v.left.id]) + list(v.right.elts)
                return self.block(rest, ind, k)
            if isinstance(t, ast.Name) and isinstance(v, ast.Tuple) and t.id in self.spec.get("shapes", ()):
                cs = [self.ex(x) for x in v.elts]
                if len(cs) != 2 or not all(isZ(ty) for _, ty in cs) or self.nstores.get(t.id) != 1:
                    fail(s, FN, "a shape is a pair of integers, assigned once")
                return pad + self.bind(t.id, f"({cs[0][0]}, {cs[1][0]})", "shape", s) + "\n" + self.block(rest, ind, k)
            if isinstance(t, ast.Name):
                if isinstance(v, ast.Tuple):
                    if not v.elts or self.nstores.get(t.id) != 1 or t.id in self.env:
                        fail(s, FN, "unsupported tuple")
                    for x in v.elts:
                        if not (isinstance(x, ast.Name) and x.id in self.env
                                and (x.id in self.spec["params"] and self.nstores.get(x.id, 0) == 0 or x.id in self.top_once)):
                            fail(s, FN, "a tuple of parameters that are never assigned / of names bound once at top level is expected")
                    self.tuples[t.id] = list(v.elts)
                    return self.block(rest, ind, k)
                if isinstance(v, ast.Attribute) and v.attr == "dtype" and isinstance(v.value, ast.Name):
                    c, ty = self.lookup(v.value)
                    if not isarr(ty) or t.id in self.env or self.nstores.get(t.id) != 1:
                        fail(s, FN, "unsupported dtype binding")
                    self.env[t.id] = ("", "skip", "v")
                    return self.block(rest, ind, k)
                ini = self.array_init(t.id, v, s)
                if ini is not None:
                    return pad + self.bind(t.id, ini[0], ini[1], s) + "\n" + self.block(rest, ind, k)
                if isinstance(v, ast.Call) and (self.callee(v.func) or {}).get("partial") \
                        or isinstance(v, ast.Call) and (self.callee(v.func) or {}).get("alias"):
                    return self.call_stmt([t.id], v, s, rest, ind, k)
                c, ty = self.ex(v)
                if isinstance(v, ast.Name) and (islist(ty) or isarr(ty) or ty == "blist"):
                    # a second name for a list: only when neither name is ever stored into
                    sto = modified(self.fd.body)
                    if not islist(ty) or {t.id, v.id} & (sto | self.callmutated | (self.arrparams - set(self.spec.get("notnone", ())))):
                        fail(s, FN, "a second name for a list / an array that is stored into")
                    self.aliased |= {t.id, v.id}
                if not (isnat(ty) or isZ(ty) or isopt(ty) or islen(ty) or islist(ty) or isarr(ty) and isinstance(v, ast.Call)
                        or ty in ("bool", "Z2", "Z4", "mv", "blist", "zlist")):
                    fail(s, FN, f"unsupported local value of type {ty}")
                return pad + self.bind(t.id, c, ty, s) + "\n" + self.block(rest, ind, k)
            if isinstance(t, ast.Subscript) and isinstance(t.value, ast.Name):
                arr = t.value.id
                ac, at = self.lookup(t.value)
                if not isarr(at) or isinstance(t.slice, (ast.UnaryOp, ast.Slice, ast.Tuple)):
                    fail(s, FN, f"unsupported store into {arr}")
                i = self.tonat(*self.ex(t.slice), at[1], s)
                c, ty = self.ex(v)
                if at[2] in ("F", "C"):
                    x = self.tonat(c, ty, at[2], s)
                elif at[2] in ("Z", "S"):
                    x = self.toZ(c, ty, s)
                else:
                    x = c if ty == "bool" else fail(s, FN, "a boolean is expected")
                return f"{pad}let {arr} := upd {arr} {i} {x} in\n" + self.block(rest, ind, k)
            fail(s, FN, "unsupported assignment")
        if (isinstance(s, ast.Expr) and isinstance(s.value, ast.Call) and isinstance(s.value.func, ast.Attribute)
                and s.value.func.attr == "append" and isinstance(s.value.func.value, ast.Name) and len(s.value.args) == 1
                and not s.value.keywords):
            lst = s.value.func.value.id
            lc, lt = self.lookup(s.value.func.value)
            if not islist(lt) and lt != "zlist":
                fail(s, FN, f"{lst} is not a list")
            c, t = self.ex(s.value.args[0])
            if lt == "zlist" or lt == ("list", None) and (t == Z0 or t == ("nat", None)):
                # a list of integers that are not cell numbers (positions)
                if not (t == Z0 or t == ("nat", None)):
                    fail(s, FN, "only integers are appended to a list of integers")
                if lt != "zlist":
                    self.listkind[lst] = "Z"
                    self.dirty = True       # the list was created as a list of cell numbers: next pass
                self.guards = {g for g in self.guards if lst not in g}
                return f"{pad}let {lst} := {lst} ++ [{self.toZ(c, t, s)}] in\n" + self.block(rest, ind, k)
            if not ((isnat(t) or isZ(t)) and t[1] in ("F", "C")):
                fail(s, FN, "only cell numbers are appended")
            if lt[1] is None:
                self.env[lst] = (lst, ("list", t[1]), "v")
                self.listkind[lst] = t[1]
            elif lt[1] != t[1]:
                fail(s, FN, "cell numbers of different kinds in one list")
            self.guards = {g for g in self.guards if lst not in g}
            return f"{pad}let {lst} := {lst} ++ [{self.tonat(c, t, t[1], s)}] in\n" + self.block(rest, ind, k)
        if isinstance(s, ast.If):
            c, t = self.ex(s.test)
            if t != "bool":
                fail(s, FN, "non-boolean condition")
            g = None
            if isinstance(s.test, ast.Compare) and len(s.test.ops) == 1 and isinstance(s.test.ops[0], ast.In) \
                    and isinstance(s.test.left, ast.Name) and isinstance(s.test.comparators[0], ast.Name):
                g = (s.test.left.id, s.test.comparators[0].id)
            if any(isinstance(n, (ast.For, ast.While)) for x in rest for n in ast.walk(x)) \
                    and not self.has_terminal(s.body) and not self.has_terminal(s.orelse):
                return self.do_if_join(s, c, g, rest, ind, k)
            if any(isinstance(n, (ast.For, ast.While)) for x in rest for n in ast.walk(x)) \
                    and self.can_fall(s.body) and self.can_fall(s.orelse) and k.cont is not None \
                    and self.only_continue(s.body) and self.only_continue(s.orelse):
                # both branches can reach the rest (which has a loop and is translated once) and some path ends in `continue`
                return self.do_if_join(s, c, g, rest, ind, k, flag=True)
            saved, stup, sg = dict(self.env), dict(self.tuples), set(self.guards)
            if g:
                self.guards.add(g)
            a = self.block(list(s.body) + rest, ind + 2, k)
            self.env, self.tuples, self.guards = dict(saved), dict(stup), set(sg)
            b = self.block(list(s.orelse) + rest, ind + 2, k)
            self.env, self.tuples, self.guards = saved, stup, sg
            return f"{pad}if {c} then\n{a}\n{pad}else\n{b}"
        if isinstance(s, (ast.For, ast.While)):
            if id(s) in self.done:
                fail(s, FN, "a loop that follows an if / else would be translated twice")
            self.done.add(id(s))
            return self.do_for(s, rest, ind, k) if isinstance(s, ast.For) else self.do_while(s, rest, ind, k)
        fail(s, FN, f"unsupported statement {type(s).__name__}")

    def can_fall(self, body):
        """the end of the block can be reached"""
        if not body:
            return True
        last = body[-1]
        if isinstance(last, (ast.Continue, ast.Break, ast.Return)):
            return False
        if isinstance(last, ast.If):
            return self.can_fall(last.body) or self.can_fall(last.orelse)
        return True

    def only_continue(self, body):
        """the only statements that leave the block are `continue`s (of the enclosing loop)"""
        for x in body:
            if isinstance(x, (ast.Break, ast.Return)):
                return False
            if isinstance(x, ast.If) and not (self.only_continue(x.body) and self.only_continue(x.orelse)):
                return False
            if isinstance(x, (ast.For, ast.While)) and any(isinstance(n, ast.Return) for n in ast.walk(x)):
                return False
        return True

    def has_terminal(self, body):
        """continue / break / return that leaves this block (break and continue of loops inside it do not)"""
        for x in body:
            if isinstance(x, (ast.Continue, ast.Break, ast.Return)):
                return True
            if isinstance(x, ast.If) and (self.has_terminal(x.body) or self.has_terminal(x.orelse)):
                return True
            if isinstance(x, (ast.For, ast.While)) and any(isinstance(n, ast.Return) for n in ast.walk(x)):
                return True
        return False

    def scrub(self, stmts, node):
        """the loop variables of the loops inside stmts are not visible in stmts and after them (Python leaves the last value
        in them: a later read is `unknown name`)"""
        tg = {n.target.id for x in stmts for n in ast.walk(x) if isinstance(n, ast.For) and isinstance(n.target, ast.Name)}
        other = {n.id for x in stmts for n in ast.walk(x) if isinstance(n, ast.Name) and isinstance(n.ctx, ast.Store)
                 and not any(isinstance(f, ast.For) and f.target is n for y in stmts for f in ast.walk(y))}
        for n in tg:
            if n in self.env:
                if n in other:
                    fail(node, FN, f"{n} is a loop variable and is assigned")
                del self.env[n]

    def do_if_join(self, s, c, g, rest, ind, k, flag=False):
        """if / else without continue / break / return, followed by a loop: the value of the if is the tuple of the names that
        are bound before it and assigned in it; names first bound in a branch are not visible after it"""
        pad = " " * ind
        self.scrub(list(s.body) + list(s.orelse), s)
        entry, stup, sg = dict(self.env), dict(self.tuples), set(self.guards)
        jv = self.stateful(entry, list(s.body) + list(s.orelse), s)
        # names first bound in BOTH branches (assigned on every path) that are read afterwards
        newn = [n for n in names_stored(list(s.body) + list(s.orelse)) if n not in entry and self.reads_first(rest, n) == "r"
                and self.reads_first(s.body, n) == "w" and self.reads_first(s.orelse, n) == "w"]
        if flag and newn:
            fail(s, FN, "a name first bound in an if with `continue` is read after it")
        if not jv and not newn:
            fail(s, FN, "an if without effect")
        partial = self.is_partial(list(s.body) + list(s.orelse))
        jt = {}

        def fin(b):
            for n in jv:
                if self.env[n][1] != entry[n][1]:
                    self.dirty = True
            for n in newn:
                if n not in self.env:
                    fail(s, FN, f"{n} is not bound at the end of a branch")
                if jt.setdefault(n, self.env[n][1]) != self.env[n][1]:
                    self.dirty = True
            tup = self.tuple_of(list(jv) + newn + ([b] if flag else []))
            return f"Some {tup}" if partial else tup

        def end():
            return fin("false")

        if flag:
            kk = K2(end, cont=lambda: fin("true"))
            a = self.block(list(s.body), ind + 2, kk)
            self.env, self.tuples, self.guards = dict(entry), dict(stup), set(sg)
            b = self.block(list(s.orelse), ind + 2, kk)
            self.env, self.tuples = dict(entry), stup
            self.guards = {x for x in sg if not (set(x) & set(jv))}
            pat = list(jv) + ["cont_"]
            cont = k.cont()
            if partial:
                return (f"{pad}match (if {c} then\n{a}\n{pad}else\n{b}) with\n{pad}| None => None\n{pad}| Some {self.tuple_of(pat)} =>\n"
                        f"{pad}  if cont_ then {cont} else\n" + self.block(rest, ind + 2, k) + f"\n{pad}end")
            return (f"{pad}let {self.pat_of(pat)} := if {c} then\n{a}\n{pad}else\n{b} in\n{pad}if cont_ then {cont} else\n"
                    + self.block(rest, ind, k))

        if g:
            self.guards.add(g)
        a = self.block(list(s.body), ind + 2, K2(end))
        self.env, self.tuples, self.guards = dict(entry), dict(stup), set(sg)
        b = self.block(list(s.orelse), ind + 2, K2(end))
        self.env, self.tuples = dict(entry), stup
        self.guards = {x for x in sg if not (set(x) & set(jv))}
        for n in newn:
            self.env[n] = (n, jt[n], "v")
        if partial:
            return (f"{pad}match (if {c} then\n{a}\n{pad}else\n{b}) with\n{pad}| None => None\n{pad}| Some {self.tuple_of(list(jv) + newn)} =>\n"
                    + self.block(rest, ind + 2, k) + f"\n{pad}end")
        return f"{pad}let {self.pat_of(list(jv) + newn)} := if {c} then\n{a}\n{pad}else\n{b} in\n" + self.block(rest, ind, k)

    def reads_first(self, stmts, n):
        """'r': n may be read before it is assigned in stmts; 'w': it is assigned first on every path; None: neither"""
        def loads(x):
            return any(isinstance(m, ast.Name) and m.id == n and isinstance(m.ctx, ast.Load) for m in ast.walk(x))
        for x in stmts:
            if isinstance(x, ast.If):
                if loads(x.test):
                    return "r"
                a, b = self.reads_first(x.body, n), self.reads_first(x.orelse, n)
                if "r" in (a, b):
                    return "r"
                if a == "w" and b == "w":
                    return "w"
                continue
            if isinstance(x, ast.For):
                if loads(x.iter):
                    return "r"
                if isinstance(x.target, ast.Name) and x.target.id == n:
                    continue        # inside: the loop variable; after: scrubbed (see scrub)
                if self.reads_first(x.body, n) == "r":
                    return "r"
                continue
            if isinstance(x, ast.While):
                if loads(x.test) or self.reads_first(x.body, n) == "r":
                    return "r"
                continue
            if isinstance(x, ast.AugAssign) and any(isinstance(m, ast.Name) and m.id == n for m in ast.walk(x)):
                return "r"
            if isinstance(x, ast.Assign) and len(x.targets) == 1:
                if loads(x.value) or any(loads(t) for t in x.targets if not isinstance(t, ast.Name)):
                    return "r"
                tg = x.targets[0]
                names = [tg] if isinstance(tg, ast.Name) else list(tg.elts) if isinstance(tg, ast.Tuple) else []
                if any(isinstance(t, ast.Name) and t.id == n for t in names):
                    return "w"
                continue
            if loads(x):
                return "r"
        return None

    # ---------------------------------------------------------------- loops
    def do_for(self, s, rest, ind, k):
        pad = " " * ind
        if s.orelse or not isinstance(s.target, ast.Name):
            fail(s, FN, "unsupported loop header")
        var, it = s.target.id, s.iter
        if var in self.tuples:
            fail(s, FN, "the loop variable is in use")
        if var in names_stored(s.body):
            fail(s, FN, "the loop variable is assigned in the loop")
        if isinstance(it, ast.Call) and isinstance(it.func, ast.Name) and it.func.id == "range" and len(it.args) == 1 and not it.keywords:
            c, t = self.ex(it.args[0])
            if islen(t):
                dom, vt = f"(List.seq 0 {c})", ("nat", t[1])
            elif isZ(t) and t[1] is None:
                dom, vt = f"(List.seq 0 (Z.to_nat {c}))", ("nat", None)
            else:
                fail(s, FN, "unsupported range")
        elif isinstance(it, ast.Name):
            c, t = self.lookup(it)
            if islist(t) and t[1] in ("F", "C", "P"):
                dom, vt = c, ("nat", None if t[1] == "P" else t[1])
            elif isarr(t) and t[2] in ("F", "C"):
                dom, vt = c, ("nat", t[2])
            else:
                fail(s, FN, "unsupported loop domain")
            if it.id in names_stored(s.body) or it.id in modified(s.body):
                fail(s, FN, "the loop changes the list it runs over")
        elif isinstance(it, ast.Subscript):
            c, t = self.ex(it)
            if not (islist(t) and t[1] in ("F", "C", "P")):
                fail(s, FN, "unsupported loop domain")
            dom, vt = c, ("nat", None if t[1] == "P" else t[1])
        elif isinstance(it, ast.Call) and isinstance(it.func, ast.Name) and it.func.id == "range" and len(it.args) == 2 \
                and not it.keywords and isinstance(it.args[1], ast.Name) and islen(self.env.get(it.args[1].id, (0, 0))[1]):
            # range(a, n) for a length n and an integer a (a >= 0: a negative a is not modelled)
            a = self.pos_nat(it.args[0])
            n, _ = self.lookup(it.args[1])
            dom, vt = f"(List.seq {a} ({n} - {a}))", ("nat", None)
        elif isinstance(it, ast.Call) and isinstance(it.func, ast.Name) and it.func.id == "range" and len(it.args) == 2 \
                and not it.keywords:
            lo, hi = gen.const_int(it.args[0], FN), gen.const_int(it.args[1], FN)
            if hi - lo > 16:
                fail(s, FN, "unsupported range")
            dom, vt = "[" + "; ".join(zlit(j) for j in range(lo, hi)) + "]", Z0
        elif isinstance(it, ast.List) and it.elts:
            cs = [self.ex(x) for x in it.elts]
            if not (isnat(cs[0][1]) and cs[0][1][1] in ("F", "C") and all(t == cs[0][1] for _, t in cs)):
                fail(s, FN, "unsupported loop domain")
            dom, vt = "[" + "; ".join(c for c, _ in cs) + "]", cs[0][1]
        elif isinstance(it, ast.Call) and self.callee(it.func) is not None:
            c, t = self.call(it)
            if not (islist(t) and t[1] in ("F", "C")):
                fail(s, FN, "unsupported loop domain")
            dom, vt = c, ("nat", t[1])
        else:
            fail(s, FN, "unsupported loop domain")
        hasbrk = self.has_break(s.body)
        if var in self.env:       # the name is the loop variable from here on (and unknown after the loop)
            del self.env[var]
        self.scrub(s.body, s)
        entry = dict(self.env)
        state = self.stateful(entry, s.body, s)
        if not state:
            fail(s, FN, "the loop has no effect")
        partial = self.is_partial(s.body)
        self.nloop += 1
        sname = f"{self.coqname}_step{self.nloop}"
        outer_used, self.used = self.used, set()
        self.env[var] = (var, vt, "v")
        stup = dict(self.tuples)

        def fin(b):
            for n in state:
                if self.env[n][1] != entry[n][1]:
                    self.dirty = True
            tup = self.tuple_of(list(state))
            if hasbrk:
                tup = f"({tup}, {b})"
            return f"Some {tup}" if partial else tup

        def end():
            return fin("false")

        body = self.block(list(s.body), 2, K2(end, cont=end, brk=(lambda node: fin("true")) if hasbrk else None))
        ctx = [n for n in entry if n in self.used and n not in state and entry[n][0] != ""]
        self.used = outer_used | set(ctx) | set(state)
        sty = " * ".join(self.cty(entry[n][1]) for n in state)
        binders = "".join(f"({n} : {self.cty(entry[n][1])}) " for n in ctx)
        rty = f"({sty}) * bool" if hasbrk else sty
        rty = f"option ({rty})" if partial else rty
        self.usesbreak = self.usesbreak or hasbrk
        self.aux.append(f"Definition {sname} {binders}(st_ : {sty}) ({var} : {self.cty(vt)}) : {rty} :=\n"
                        f"  let {self.pat_of(state)} := st_ in\n{body}.")
        self.env, self.tuples = dict(entry), stup
        for n in state:       # element kinds of lists found in the body
            if islist(entry[n][1]) and n in self.listkind:
                self.env[n] = (n, ("list", self.listkind[n]), "v")
        f = " ".join([sname] + ctx)
        if hasbrk:
            fold = "gen_ihu_obfold" if partial else "gen_ihu_bfold"
            if partial:
                return (f"{pad}match {fold} ({f}) {dom} {self.tuple_of(list(state))} with\n{pad}| None => None\n"
                        f"{pad}| Some {self.tuple_of(list(state))} =>\n" + self.block(rest, ind + 2, k) + f"\n{pad}end")
            return (f"{pad}let {self.pat_of(state)} := {fold} ({f}) {dom} {self.tuple_of(list(state))} in\n"
                    + self.block(rest, ind, k))
        if partial:
            return (f"{pad}match ofold ({f}) {dom} {self.tuple_of(list(state))} with\n{pad}| None => None\n"
                    f"{pad}| Some {self.tuple_of(list(state))} =>\n" + self.block(rest, ind + 2, k) + f"\n{pad}end")
        return (f"{pad}let {self.pat_of(state)} := fold_left ({f}) {dom} {self.tuple_of(list(state))} in\n"
                + self.block(rest, ind, k))

    def has_break(self, body):
        """a break of this loop (not of a loop inside it)"""
        for x in body:
            if isinstance(x, ast.Break):
                return True
            if isinstance(x, ast.If) and (self.has_break(x.body) or self.has_break(x.orelse)):
                return True
        return False

    def do_while(self, s, rest, ind, k):
        pad = " " * ind
        if not s.orelse and (
                not (isinstance(s.test, ast.Constant) and s.test.value is True)
                or any(isinstance(n, (ast.For, ast.While)) and n is not s for n in ast.walk(s)) or self.is_partial(s.body)):
            return self.do_while2(s, rest, ind, k)
        if not (isinstance(s.test, ast.Constant) and s.test.value is True) or s.orelse:
            fail(s, FN, "only `while True:` is understood")
        for n in ast.walk(s):
            if isinstance(n, (ast.For, ast.While, ast.Continue, ast.Return, ast.Assert)) and n is not s:
                fail(n, FN, f"{type(n).__name__} inside a while loop")
        if self.is_partial(s.body):
            fail(s, FN, "a call of a function with a while loop inside a while loop")
        self.have("fuel", s)
        entry = dict(self.env)
        carried = self.stateful(entry, s.body, s)
        if "fuel" in carried:
            fail(s, FN, "fuel is assigned")
        liveout = [n for n in names_stored(s.body) if n not in entry and self.reads_first(rest, n) == "r"]
        self.nloop += 1
        wname = f"{self.coqname}_walk{self.nloop}"
        outer_used, self.used = self.used, set()
        rtypes, nbreaks = {}, [0]
        stup = dict(self.tuples)

        def end():
            for n in carried:
                if self.env[n][1] != entry[n][1]:
                    self.dirty = True
            return " ".join([wname, CTX, "fuel'"] + carried)

        def brk(node):
            for n in carried:
                if self.env[n][1] != entry[n][1]:
                    self.dirty = True
            for n in liveout:
                if n not in self.env:
                    fail(node, FN, f"{n} is read after the loop but not bound at this break")
                if rtypes.setdefault(n, self.env[n][1]) != self.env[n][1]:
                    self.dirty = True
            nbreaks[0] += 1
            return "Some " + self.tuple_of(carried + liveout)

        body = self.block(list(s.body), 4, K2(end, brk=brk))
        if not nbreaks[0]:
            fail(s, FN, "the loop has no break")
        if not carried and not liveout:
            fail(s, FN, "the loop has no effect")
        if "fuel" in self.used:
            fail(s, FN, "fuel is used inside a while loop")
        ctx = [n for n in entry if n in self.used and n not in carried and entry[n][0] != ""]
        body = body.replace(CTX, " ".join(ctx)).replace(f"{wname}  fuel'", f"{wname} fuel'")
        self.used = outer_used | set(ctx) | set(carried) | {"fuel"}
        rty = " * ".join([self.cty(entry[n][1]) for n in carried] + [self.cty(rtypes[n]) for n in liveout])
        binders = "".join(f"({n} : {self.cty(entry[n][1])}) " for n in ctx)
        cb = "".join(f" ({n} : {self.cty(entry[n][1])})" for n in carried)
        self.aux.append(f"Fixpoint {wname} {binders}(fuel : nat){cb} {{struct fuel}} : option ({rty}) :=\n"
                        f"  match fuel with\n  | O => None\n  | S fuel' =>\n{body}\n  end.")
        self.env, self.tuples = dict(entry), stup
        for n in liveout:
            self.env[n] = (n, rtypes[n], "v")
        call = " ".join([wname] + ctx + ["fuel"] + carried)
        return (f"{pad}match {call} with\n{pad}| None => None\n{pad}| Some {self.tuple_of(carried + liveout)} =>\n"
                + self.block(rest, ind + 2, k) + f"\n{pad}end")

    def while_cond(self, test):
        """None for `while True`; `True and c` is c"""
        if isinstance(test, ast.Constant) and test.value is True:
            return None
        if isinstance(test, ast.BoolOp) and isinstance(test.op, ast.And):
            vs = [v for v in test.values if not (isinstance(v, ast.Constant) and v.value is True)]
            if not vs:
                return None
            if len(vs) == 1:
                return vs[0]
            t2 = ast.BoolOp(op=ast.And(), values=vs)
            ast.copy_location(t2, test)
            return t2
        return test

    def do_while2(self, s, rest, ind, k):
        """`while c:` / `while True:` whose body may contain for loops, while loops, calls of functions with while loops and
        (at its own level) `break`: the body is a definition <w>_body from the carried names to (the carried names, the names
        first bound in the body that are read after the loop, left?) and <w> iterates it over its own fuel `fuel_` (the loops
        inside get the function's whole `fuel`).  When names first bound in the body are read after the loop the first
        iteration is written out at the call: a loop that is not entered has no value (Python: NameError at the read)"""
        pad = " " * ind
        for n in ast.walk(s):
            if isinstance(n, (ast.Return, ast.Assert)):
                fail(n, FN, f"{type(n).__name__} inside a while loop")
        cond = self.while_cond(s.test)
        self.have("fuel", s)
        self.scrub(s.body, s)
        entry = dict(self.env)
        carried = self.stateful(entry, s.body, s)
        if "fuel" in carried:
            fail(s, FN, "fuel is assigned")
        if not carried:
            fail(s, FN, "the loop has no effect")
        liveout = [n for n in names_stored(s.body) if n not in entry and self.reads_first(rest, n) == "r"]
        for n in liveout:
            if self.reads_first(s.body, n) != "w":
                fail(s, FN, f"{n} is read after the loop and is not assigned first in its body")
        hasbrk = self.has_break(s.body)
        if cond is None and not hasbrk:
            fail(s, FN, "the loop has no break")
        partial = self.is_partial(s.body)
        self.nloop += 1
        wname = f"{self.coqname}_walk{self.nloop}"
        outer_used, self.used = self.used, set()
        stup = dict(self.tuples)
        ctext = None
        if cond is not None:
            ctext, ct = self.ex(cond)
            if ct != "bool":
                fail(s, FN, "non-boolean condition")
        rtypes = {}

        def fin(b, node):
            for n in carried:
                if self.env[n][1] != entry[n][1]:
                    self.dirty = True
            for n in liveout:
                if n not in self.env:
                    fail(node, FN, f"{n} is read after the loop but not bound here")
                if rtypes.setdefault(n, self.env[n][1]) != self.env[n][1]:
                    self.dirty = True
            tup = self.tuple_of(carried + liveout + ([b] if hasbrk else []))
            return f"Some {tup}" if partial else tup

        body = self.block(list(s.body), 2, K2(lambda: fin("false", s), brk=(lambda node: fin("true", node)) if hasbrk else None))
        ctx = [n for n in entry if n in self.used and n not in carried and entry[n][0] != ""]
        self.used = outer_used | set(ctx) | set(carried) | {"fuel"}
        sty = " * ".join(self.cty(entry[n][1]) for n in carried)
        lty = " * ".join(self.cty(rtypes[n]) for n in liveout)
        oty = " * ".join([self.cty(entry[n][1]) for n in carried] + [self.cty(rtypes[n]) for n in liveout])
        bty = oty + (" * bool" if hasbrk else "")
        binders = "".join(f"({n} : {self.cty(entry[n][1])}) " for n in ctx)
        self.usesbreak = self.usesbreak
        self.aux.append(f"Definition {wname}_body {binders}(st_ : {sty}) : {'option (' + bty + ')' if partial else bty} :=\n"
                        f"  let {self.pat_of(carried)} := st_ in\n{body}.")
        cl = carried + liveout
        f = " ".join([wname] + ctx)
        fb = " ".join([wname + "_body"] + ctx)
        args = self.tuple_of(carried) + (" " + self.tuple_of(liveout) if liveout else "")

        def iterate(i, fuel):
            """one iteration (the carried names are in scope), then the loop with the given fuel"""
            p = " " * i
            nxt = f"{f} {fuel} {args}"
            if hasbrk:
                nxt = f"if b_ then Some {self.tuple_of(cl)} else {nxt}"
            pat = self.tuple_of(cl + (["b_"] if hasbrk else []))
            if partial:
                return f"{p}match {fb} {self.tuple_of(carried)} with\n{p}| None => None\n{p}| Some {pat} => {nxt}\n{p}end"
            return f"{p}match {fb} {self.tuple_of(carried)} with\n{p}| {pat} => {nxt}\n{p}end"

        lo = f" (lo_ : {lty})" if liveout else ""
        fx = [f"Fixpoint {wname} {binders}(fuel_ : nat) (st_ : {sty}){lo} {{struct fuel_}} : option ({oty}) :=",
              "  match fuel_ with", "  | O => None", "  | S fuel_' =>", f"    let {self.pat_of(carried)} := st_ in"]
        if liveout:
            fx.append(f"    let {self.pat_of(liveout)} := lo_ in")
        if ctext is not None:
            fx += [f"    if {ctext} then", iterate(6, "fuel_'"), f"    else Some {self.tuple_of(cl)}"]
        else:
            fx.append(iterate(4, "fuel_'"))
        fx.append("  end.")
        self.aux.append("\n".join(fx))
        self.env, self.tuples = dict(entry), stup
        for n in carried:       # element kinds of lists found in the body
            if islist(entry[n][1]) and n in self.listkind and self.listkind[n] != "Z":
                self.env[n] = (n, ("list", self.listkind[n]), "v")
        for n in liveout:
            self.env[n] = (n, rtypes[n], "v")
        if liveout:
            first = iterate(ind + 2, "fuel")
            if ctext is not None:
                call = f"(if {ctext} then\n{first}\n{pad}  else None)"
            else:
                call = f"(\n{first})"
        else:
            call = f"{f} fuel {args}"
        return (f"{pad}match {call} with\n{pad}| None => None\n{pad}| Some {self.tuple_of(cl)} =>\n"
                + self.block(rest, ind + 2, k) + f"\n{pad}end")

    # ---------------------------------------------------------------- the function
    def translate(self):
        self.header()
        body = strip_doc(list(self.fd.body))
        self.terminal_last(body)

        def end():
            fail(self.fd, FN, "a path of the function ends without return")

        sto = set(names_stored(body)) | modified(body)
        mutated = [p for p in self.spec["params"] if p in self.arrparams and p in sto]

        def ret(node):
            if node.value is None:
                fail(node, FN, "return without a value")
            elts = node.value.elts if isinstance(node.value, ast.Tuple) else [node.value]
            cs, ts = [], []
            for x in elts:
                c, t = self.ex(x)
                if t in ("mv", "Z2"):
                    fail(node, FN, f"unsupported result of type {t}")
                if islist(t) and t[1] is None:
                    self.dirty = True
                cs.append(c)
                ts.append(t)
            alias = {}
            for j, x in enumerate(elts):
                if isinstance(x, ast.Name) and x.id in mutated:
                    if x.id in alias:
                        fail(node, FN, f"{x.id} is returned twice")
                    alias[x.id] = j
            for p in mutated:       # arrays that the function stores into and does not return
                if p not in alias:
                    alias[p] = len(cs)
                    c, t = self.lookup(ast.Name(id=p, ctx=ast.Load()))
                    cs.append(c)
                    ts.append(t)
            if self.rtypes is None:
                self.rtypes, self.alias, self.nret = ts, alias, len(elts)
            elif self.rtypes != ts:
                self.dirty = True
            elif self.alias != alias or self.nret != len(elts):
                fail(node, FN, "the return statements differ in the arrays that they return")
            tup = self.tuple_of(cs)
            return f"Some {tup}" if self.partial else tup

        text = self.block(body, 2, K2(end, ret=ret))
        if self.rtypes is None:
            fail(self.fd, FN, "the function does not return")
        rty = " * ".join(f"({coqty(t)})" if t == "shape" else coqty(t) for t in self.rtypes)
        out = list(self.aux)
        d = [f"Definition {self.coqname} {' '.join(self.binders)} : " + (f"option ({rty})" if self.partial else rty) + " :="]
        d += ["  " + l for l in self.head]
        out.append("\n".join(d) + "\n" + text + ".")
        info = dict(coq=self.coqname, sig=self.sig, ret=list(self.rtypes), partial=self.partial, fuel=self.fuel,
                    alias=dict(self.alias), nret=self.nret, usesbreak=self.usesbreak, usesihu=self.usesihu, usesrel=self.usesrel)
        return f"(* {FN}: {self.fd.name} *)\n" + "\n".join(out), info


def translate(spec, tree, reg):
    """translate until the types of the names are stable (a name has one type)"""
    forced, listkind = {}, {}
    for _ in range(8):
        f = IFn(dict(spec, _listkind=listkind), tree, reg, forced)
        err = None
        try:
            text, info = f.translate()
        except GenError as e:
            err = e
        nf = {n: join(ts, n, f.fd) for n, ts in f.raw.items() if len(ts) > 1}
        stable = nf == forced and f.listkind == listkind
        forced, listkind = nf, dict(f.listkind)
        if stable:
            if err is not None:
                raise err
            if f.dirty:
                raise GenError(f"{FN}: {spec['name']}: a name is used at two types")
            return text, info
    raise GenError(f"{FN}: {spec['name']}: the types of the names do not settle")


def helper_reg():
    reg = {}
    for h in HELPERS:
        sp = [f for f in GU.FUNCS if f["name"] == h]
        if len(sp) != 1 or any(t != "Z" for t in sp[0]["params"].values()) or "ret" not in sp[0]:
            raise GenError(f"{FN}: {h} is not a scalar helper of gen_upscale.py")
        reg[f"{FN}:{h}"] = dict(coq=f"gen_up_{h}", sig=[(p, Z0, None) for p in sp[0]["params"]], ret=[sp[0]["ret"]], partial=False,
                                fuel=False)
    for h, ret in GU_KERNELS.items():
        sp = [f for f in GU.FUNCS if f["name"] == h]
        if len(sp) != 1 or sp[0].get("abstract", {"effective_area": "ea"}) != {"effective_area": "ea"}:
            raise GenError(f"{FN}: {h} is not a kernel of gen_upscale.py")
        reg[f"{FN}:{h}"] = dict(coq=f"gen_up_{h}", sig=[(p, Z0 if t == "Z" else t, None) for p, t in sp[0]["params"].items()], ret=ret,
                                partial=False, fuel=False, ea="abstract" in sp[0])
    return reg


def gen_ihu():
    parts = ["(* GENERATED by tools/gen_ihu.py from /repo/pyflwdir -- do not edit *)",
             "From Coq Require Import List Arith ZArith Bool.", "Import ListNotations.",
             "From PF Require Import Arr.", "From PFG Require Import GenUpscale.", "",
             "(* a for loop whose step may have no result (None: see tools/gen_ihu.py) *)",
             "Definition ofold {S X : Type} (f : S -> X -> option S) (l : list X) (s : S) : option S :=",
             "  fold_left (fun st_ x_ => match st_ with None => None | Some s_ => f s_ x_ end) l (Some s).", ""]
    trees = {FN: parse(FN)}
    reg = helper_reg()
    for h in HELPERS:       # the helpers must be the ones that gen_upscale.py translates (same source file)
        if sum(isinstance(n, ast.FunctionDef) and n.name == h for n in trees[FN].body) != 1:
            raise GenError(f"{FN}: {h} is not defined exactly once")
    prelude = prelude2 = prelude3 = False
    for spec in FUNCS:
        fn = spec.get("file", FN)
        if fn not in trees:
            trees[fn] = parse(fn)
        if sum(isinstance(n, ast.FunctionDef) and n.name == spec["name"] for n in trees[fn].body) != 1:
            raise GenError(f"{fn}: {spec['name']} is not defined exactly once")
        text, info = translate(spec, trees[fn], reg)
        reg[f"{fn}:{spec['name']}"] = info
        if info["usesihu"] and not prelude2:
            parts += PRELUDE_IHU
            prelude2 = True
        if info["usesbreak"] and not prelude:
            parts += PRELUDE_BREAK
            prelude = True
        if info["usesrel"] and not prelude3:
            parts += PRELUDE_REL
            prelude3 = True
        parts += [text.replace(f"(* {FN}: ", f"(* {fn}: "), ""]
    return "\n".join(parts)


gen.GENERATORS["GenIhu.v"] = gen_ihu

if __name__ == "__main__":
    print(gen_ihu())
