"""Network generators shared by the correspondence harnesses.
A network is a python list `ds` of length n with ds[i] in 0..n-1 (i itself = pit) or -1 (nodata)."""
import itertools


def all_graphs(n, nodata=True):
    """every functional graph on n cells (with nodata): (n+1)^n"""
    vals = list(range(n)) + ([-1] if nodata else [])
    for t in itertools.product(vals, repeat=n):
        yield list(t)


def is_wf(ds):
    return all(d < 0 or ds[d] >= 0 for d in ds)


def drains(ds, i):
    n = len(ds)
    k = 0
    while k <= n:
        if ds[i] < 0:
            return False
        if ds[i] == i:
            return True
        i = ds[i]
        k += 1
    return False


def is_loopfree(ds):
    return all(d < 0 or drains(ds, i) for i, d in enumerate(ds))


def pits(ds):
    return [i for i, d in enumerate(ds) if d == i]


def rank(ds):
    """steps to pit, -1 on loops, None for nodata"""
    n = len(ds)
    out = []
    for i in range(n):
        if ds[i] < 0:
            out.append(None); continue
        j, k = i, 0
        while k <= n and ds[j] != j and ds[j] >= 0:
            j = ds[j]; k += 1
        out.append(k if (ds[j] == j) else -1)
    return out


def topo_order(ds, rng=None):
    """a down- to upstream order of the draining cells; random among valid ones if rng given"""
    n = len(ds)
    kids = {i: [] for i in range(n)}
    for i, d in enumerate(ds):
        if d >= 0 and d != i:
            kids[d].append(i)
    frontier = pits(ds)
    out = []
    while frontier:
        j = rng.randrange(len(frontier)) if rng else 0
        i = frontier.pop(j)
        out.append(i)
        frontier.extend(kids[i])
    return out


def random_forest(rng, n, p_nodata=0.1, p_pit=0.15, shape=None):
    """random loop-free network: cell i drains to a random already-placed cell (after a
    random relabelling), so there are no cycles"""
    perm = list(range(n))
    rng.shuffle(perm)
    ds = [-1] * n
    placed = []
    for idx in perm:
        if rng.random() < p_nodata:
            continue
        if not placed or rng.random() < p_pit:
            ds[idx] = idx
        else:
            # prefer few targets to create junctions of high degree sometimes
            ds[idx] = rng.choice(placed[-4:]) if rng.random() < 0.5 else rng.choice(placed)
        placed.append(idx)
    if not pits(ds):
        ds[perm[0]] = perm[0]
    return ds


def random_graph(rng, n, p_nodata=0.1):
    """arbitrary functional graph (may contain cycles) that is closed (wf)"""
    valid = [i for i in range(n) if rng.random() >= p_nodata]
    if not valid:
        valid = [0]
    ds = [-1] * n
    for i in valid:
        ds[i] = i if rng.random() < 0.2 else rng.choice(valid)
    return ds


D8 = {(0, 1): 1, (1, 1): 2, (1, 0): 4, (1, -1): 8, (0, -1): 16, (-1, -1): 32, (-1, 0): 64, (-1, 1): 128}


def random_d8_raster(rng, nr, nc, p_nodata=0.1, loopfree=True):
    """random D8 raster (list of codes) whose network is loop-free: built from a random DEM-like
    potential so that every link goes to a strictly lower (potential, index) neighbour"""
    n = nr * nc
    pot = [rng.randint(0, 6) for _ in range(n)]
    flw = []
    for i in range(n):
        if rng.random() < p_nodata:
            flw.append(247); continue
        r, c = divmod(i, nc)
        cands = []
        for (dr, dc), code in D8.items():
            r1, c1 = r + dr, c + dc
            if 0 <= r1 < nr and 0 <= c1 < nc:
                j = r1 * nc + c1
                if not loopfree or (pot[j], j) < (pot[i], i):
                    cands.append(code)
        if not cands or rng.random() < 0.1:
            flw.append(rng.choice([0, 255]) if (loopfree or rng.random() < 0.8) else rng.choice(list(D8.values())))
        else:
            flw.append(rng.choice(cands))
    return flw


def d8_decode(flw, nr, nc):
    inv = {v: k for k, v in D8.items()}
    n = nr * nc
    ds = []
    for i in range(n):
        v = flw[i]
        if v == 247:
            ds.append(-1); continue
        if v in (0, 255):
            ds.append(i); continue
        dr, dc = inv[v]
        r, c = divmod(i, nc)
        r1, c1 = r + dr, c + dc
        if not (0 <= r1 < nr and 0 <= c1 < nc) or flw[r1 * nc + c1] == 247:
            ds.append(i)
        else:
            ds.append(r1 * nc + c1)
    return ds


def structured(rng):
    """chains, stars, combs, nested confluences"""
    out = []
    for n in (2, 3, 6):
        out.append([max(i - 1, 0) for i in range(n)])                 # chain to pit 0
        out.append([min(i + 1, n - 1) for i in range(n)])             # chain to pit n-1
    for k in range(2, 9):
        out.append([0] + [0] * k)                                      # star of degree k
    out.append([0, 0, 1, 1, 2, 2, 3, 3])                               # binary tree
    out.append([0, 0, 1, 2, 3, 1, 2, 3, 4])                            # comb
    out.append([i for i in range(5)])                                  # all pits
    out.append([0, 0, -1, 1, -1, 3, 6, 6])                             # nodata islands, two basins
    return out


def rshape(rng, lo, hi, narrow=0.2):
    """a raster shape: both sides in lo..hi, or (with probability `narrow`) one side only 1 or 2 cells wide -- many index
    shortcuts (a step of +-1 is east / west, the offsets -ncol+1 and -1 differ) hold only for three or more columns"""
    if rng.random() < narrow:
        a, b = rng.randint(1, 2), rng.randint(max(2, lo), hi + 3)
        return (a, b) if rng.random() < 0.5 else (b, a)
    return rng.randint(lo, hi), rng.randint(lo, hi)
