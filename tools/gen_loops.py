"""Fail-closed translator for simple array kernels (one `for` loop over the cell order with element updates):
Python `ast`  ->  Gallina fold (coq/generated/GenLoops.v).  Registered into gen.GENERATORS on import.

The subset understood (anything else raises GenError):
  prologue   x = y.copy()                       |  x = np.full(<arr>.size, <value>, dtype=...)
  loop       for v in seq | seq[::-1] | range(<arr>.size):
  body       name = expr | arr[i] = expr | arr[i] += expr | if / elif / else | continue
  exprs      names, integer constants, arr[i], == != < <= > >=, and / or / not, + -, min / max,
             `m is None or m[i]`, `m is not None and (m[i] | not m[i] | m[i] != 1 | m[i] == False)` for an optional boolean
             mask (an identity test `m[i] is False` is rejected), comparison with the missing value mv
  epilogue   return x | return np.array(<list state>, dtype=...)
  floats     a float array parameter of type fz / a float scalar parameter of type fZ is NOT modelled: its values belong to
             an abstract type F (a parameter of the definition, with a default element fdef for reads).  The only forms
             understood are  <float> ** <float>  and  <float> cmp <float>:  they become the abstract operations
             fval Fpow x y : Z  and  fbool Fge x y : bool  (parameters like `steplen`; the operator is a constructor of
             the generated type fop, so that a change of operator or operands changes the term, not just a name)
  isnan      np.isnan(<name or arr[i]>) of an integer-modelled value (a parameter of type Z, an element of a `list Z` array) is
             the constant `false`: the modelled fields are integer-valued, the model's domain has no NaN.  The rule applies to
             exactly that call form and to nothing else (np.isnan of any other expression raises GenError).  A prologue
             `flag = np.isnan(<scalar parameter>)` is a let-bound boolean (`let flag := false in`) and every use of `flag` stays
             in the term, so that `flag and c`, `flag or c` and `not flag` are different terms
  lists      x = [] with x.append(i) (list nat) or x.append(np.array([i, j], dtype=...)) (list (list nat))
  no loop    x = upstream_count(...); return np.where(x cmp c)[0].astype(...)  ->  filter over the cell numbers

Index arrays are `list nat` whose missing value is the array length (so `x == mv` is `length <= x`); all other
arrays are `list Z`; the optional mask is `option (list bool)` read with Stream.mget.
Each generated definition is proved equal to the hand-written model in theories/GenLoopsEq.v; the theorems of the
properties are about those models, so a change of the source that changes the generated text breaks that proof."""
import ast, os, sys

import gen
from gen import GenError, fail, parse, find_def

# kernel -> (file, parameter typing).  types: idx = index array, z = Z array, Z = Z scalar, seq = cell order,
# omask = optional bool mask, mv/skip = not a Gallina parameter
KERNELS = [
    ("core.py", "fillnodata_upstream", {"idxs_ds": "idx", "seq": "seq", "data": "z", "nodata": "Z"}),
    ("core.py", "main_upstream", {"idxs_ds": "idx", "uparea": "z", "upa_min": "Z", "mv": "mv"}),
    ("streams.py", "accuflux", {"idxs_ds": "idx", "seq": "seq", "data": "z", "nodata": "Z"}),
    ("streams.py", "accuflux_ds", {"idxs_ds": "idx", "seq": "seq", "data": "z", "nodata": "Z"}),
    ("arithmetics.py", "upstream_sum", {"idxs_ds": "idx", "data": "z", "nodata": "Z", "mv": "mv"}),
    ("core.py", "upstream_count", {"idxs_ds": "idx", "mv": "mv", "mask": "omask"}),
    ("streams.py", "stream_order", {"idxs_ds": "idx", "seq": "seq", "idxs_us_main": "idx", "mask": "omask", "mv": "mv"}),
    ("streams.py", "strahler_order", {"idxs_ds": "idx", "seq": "seq", "mask": "omask"}),
    ("core.py", "fillnodata_downstream", {"idxs_ds": "idx", "seq": "seq", "data": "z", "nodata": "Z", "how": "str"}),
    ("dem.py", "height_above_nearest_drain", {"idxs_ds": "idx", "seq": "seq", "drain": "b", "elevtn": "z"}),
    ("subgrid.py", "ucat_area", {"idxs_out": "idx", "idxs_ds": "idx", "seq": "seq", "area": "z", "mv": "mv"}),
    ("basins.py", "subbasins_area", {"idxs_ds": "idx", "seq": "seq", "idxs_us_main": "idx", "uparea": "z", "area_min": "Z"}),
    ("basins.py", "subbasins_streamorder", {"idxs_ds": "idx", "seq": "seq", "strord": "z", "mask": "omask", "min_sto": "Z"}),
    # the step length gis_utils.distance(idx0, idx_ds, ncol, latlon, transform) is an abstract function `steplen`
    ("streams.py", "stream_distance", {"idxs_ds": "idx", "seq": "seq", "ncol": "skip", "mask": "omask", "real_length": "boolp",
                                        "latlon": "skip", "transform": "skip"}),
    # uparea, upa_min and b are floats that are not modelled (fz = float array, fZ = float scalar): `uparea[i] >= upa_min`
    # and `uparea[i] ** b` are abstract operations on an abstract type
    ("dem.py", "floodplains", {"idxs_ds": "idx", "seq": "seq", "elevtn": "z", "uparea": "fz", "upa_min": "fZ", "b": "fZ"}),
    ("core.py", "pit_indices", {"idxs_ds": "idx"}),
    ("core.py", "flwdir_tuples", {"idxs_ds": "idx", "mask": "omask", "mv": "mv"}),
    ("core.py", "inflow_idxs", {"idxs_ds": "idx", "seq": "seq", "region": "b"}),
    ("core.py", "outflow_idxs", {"idxs_ds": "idx", "seq": "seq", "region": "b"}),
    ("core.py", "headwater_indices", {"idxs_ds": "idx", "mask": "omask", "mv": "mv"}),
    ("core.py", "confluence_indices", {"idxs_ds": "idx", "mask": "omask", "mv": "mv"}),
]
# string-valued options are integers in the models (the harness uses the same table)
STRINGS = {"how": {"min": 0, "max": 1, "sum": 2}}
# calls to other translated kernels allowed in a prologue: callee -> (module alias, result type, argument order)
CALLS = {"upstream_count": ("core", "z", ["idxs_ds", "mask"])}
# operators on two un-modelled float values -> constructor of the generated type fop
FOPS = {ast.Pow: "Fpow", ast.Lt: "Flt", ast.LtE: "Fle", ast.Gt: "Fgt", ast.GtE: "Fge", ast.Eq: "Feq", ast.NotEq: "Fne"}
FLOAT_DECL = """(* operators on float values that are not modelled: a definition with float parameters takes the type F of the values, a
   default element fdef (for reads of arrays) and the operations fbool (comparisons) and fval (integer-modelled results) *)
Inductive fop : Set := """ + " | ".join(FOPS.values()) + "."
FLOAT_NAMES = ["F", "fdef", "fbool", "fval", "fop"] + list(FOPS.values())


class K:
    """translation context of one kernel"""

    def __init__(self, fn, fd, typing):
        self.fn, self.fd, self.ty = fn, fd, dict(typing)
        self.state = []          # arrays updated in the loop, in order of initialisation
        self.init = {}           # array -> Gallina initial value
        self.uses_float = any(t in ("fz", "fZ") for t in typing.values())    # float parameters that are not modelled

    # ---------------------------------------------------------------- expressions
    def typ(self, e):
        if isinstance(e, ast.Name):
            t = self.ty.get(e.id)
            if t is None:
                fail(e, self.fn, f"untyped name {e.id}")
            return {"idx": "idxarr", "z": "zarr", "b": "barr", "l": "natlist", "Z": "Z", "nat": "nat", "mv": "mv", "omask": "omask", "bool": "bool", "boolp": "bool", "str": "str", "skip": "skip",
                    "fz": "farr", "fZ": "F", "ll": "natll"}[t]
        if isinstance(e, ast.Constant) and isinstance(e.value, bool):
            return "bool"
        if isinstance(e, ast.Constant) and isinstance(e.value, str):
            return "strconst"
        if isinstance(e, ast.Constant) and (isinstance(e.value, int) or (isinstance(e.value, float) and e.value.is_integer())):
            return "Z"
        if isinstance(e, ast.UnaryOp) and isinstance(e.op, ast.USub):
            return "Z"
        if isinstance(e, ast.Subscript):
            t = self.typ(e.value)
            return {"idxarr": "nat", "zarr": "Z", "barr": "bool", "farr": "F"}.get(t) or fail(e, self.fn, "subscript of a non-array")
        if isinstance(e, (ast.Compare, ast.BoolOp)) or (isinstance(e, ast.UnaryOp) and isinstance(e.op, ast.Not)):
            return "bool"
        if isinstance(e, ast.BinOp):
            return "Z"
        if isinstance(e, ast.Call) and isinstance(e.func, ast.Name) and e.func.id in ("min", "max"):
            return "Z"
        if (isinstance(e, ast.Call) and isinstance(e.func, ast.Name) and e.func.id == "len" and len(e.args) == 1
                and isinstance(e.args[0], ast.Name) and self.ty.get(e.args[0].id) == "l"):
            return "Z"
        if self.is_distance(e):
            return "Z"
        if self.is_isnan(e):
            return "bool"
        fail(e, self.fn, f"unsupported expression {ast.dump(e)[:60]}")

    def is_distance(self, e):
        """gis_utils.distance(a, b, ncol, latlon, transform) with the kernel's own ncol / latlon / transform"""
        return (isinstance(e, ast.Call) and isinstance(e.func, ast.Attribute) and e.func.attr == "distance"
                and isinstance(e.func.value, ast.Name) and e.func.value.id == "gis_utils" and len(e.args) == 5 and not e.keywords
                and all(isinstance(x, ast.Name) for x in e.args) and [x.id for x in e.args[2:]] == ["ncol", "latlon", "transform"]
                and self.typ(e.args[0]) == "nat" and self.typ(e.args[1]) == "nat")

    def is_isnan(self, e):
        """np.isnan(<name or arr[i]>) of an integer-modelled value (see the rule `isnan` above); nothing else"""
        return (gen.is_np_call(e, ("isnan",)) and len(e.args) == 1 and not e.keywords
                and isinstance(e.args[0], (ast.Name, ast.Subscript)) and self.typ(e.args[0]) == "Z")

    def index(self, e):
        """an array index: a cell index / loop counter, or integer arithmetic on a stored label (`lab - 1`)"""
        t = self.typ(e)
        if t == "nat":
            return self.ex(e)
        if t == "Z" and isinstance(e, ast.BinOp):
            return f"(Z.to_nat {self.ex(e)})"
        fail(e, self.fn, "array index is not a cell index")

    def ex(self, e):
        if isinstance(e, ast.Name):
            if self.ty.get(e.id) == "mv":
                fail(e, self.fn, "missing value outside a comparison")
            if self.ty.get(e.id) == "skip":
                fail(e, self.fn, f"parameter {e.id} is not modelled")
            return RENAME.get(e.id, e.id)
        if isinstance(e, ast.Constant) and isinstance(e.value, bool):
            return "true" if e.value else "false"
        if isinstance(e, ast.Constant) and (isinstance(e.value, int) or (isinstance(e.value, float) and e.value.is_integer())):
            v = int(e.value)
            return f"({v})%Z" if v < 0 else f"{v}%Z"
        if (isinstance(e, ast.UnaryOp) and isinstance(e.op, ast.USub) and isinstance(e.operand, ast.Constant)
                and not isinstance(e.operand.value, bool)
                and (isinstance(e.operand.value, int) or (isinstance(e.operand.value, float) and e.operand.value.is_integer()))):
            return f"(-{int(e.operand.value)})%Z"
        if isinstance(e, ast.Subscript):
            arr = e.value
            if not isinstance(arr, ast.Name):
                fail(e, self.fn, "subscript of an expression")
            i = self.index(e.slice)
            t = self.typ(arr)
            if t == "idxarr":
                return f"(nth {i} {arr.id} NMV)"
            if t == "zarr":
                return f"(nth {i} {arr.id} 0%Z)"
            if t == "barr":
                return f"(nth {i} {arr.id} false)"
            if t == "farr":
                return f"(nth {i} {arr.id} fdef)"
            fail(e, self.fn, "subscript of a non-array")
        if isinstance(e, ast.UnaryOp) and isinstance(e.op, ast.Not):
            return f"(negb {self.ex(e.operand)})"
        if isinstance(e, ast.BoolOp):
            # `m is None or m[i]`  ->  mget m i
            if isinstance(e.op, ast.Or) and len(e.values) == 2:
                a, b = e.values
                if (isinstance(a, ast.Compare) and len(a.ops) == 1 and isinstance(a.ops[0], ast.Is)
                        and isinstance(a.left, ast.Name) and self.ty.get(a.left.id) == "omask"
                        and isinstance(a.comparators[0], ast.Constant) and a.comparators[0].value is None
                        and isinstance(b, ast.Subscript) and isinstance(b.value, ast.Name) and b.value.id == a.left.id):
                    return f"(mget {a.left.id} {self.ex(b.slice)})"
            # `m is not None and m[i]`  ->  the mask is given and set at i
            if isinstance(e.op, ast.And) and len(e.values) == 2:
                a, b = e.values
                if (isinstance(a, ast.Compare) and len(a.ops) == 1 and isinstance(a.ops[0], ast.IsNot)
                        and isinstance(a.left, ast.Name) and self.ty.get(a.left.id) == "omask"
                        and isinstance(a.comparators[0], ast.Constant) and a.comparators[0].value is None
                        and isinstance(b, ast.Subscript) and isinstance(b.value, ast.Name) and b.value.id == a.left.id):
                    return f"(match {a.left.id} with None => false | Some m_ => nth {self.ex(b.slice)} m_ false end)"
            # `m is not None and not m[i]`  ->  negb (mget m i)
            if isinstance(e.op, ast.And) and len(e.values) == 2:
                a, b = e.values
                if (isinstance(a, ast.Compare) and len(a.ops) == 1 and isinstance(a.ops[0], ast.IsNot)
                        and isinstance(a.left, ast.Name) and self.ty.get(a.left.id) == "omask"
                        and isinstance(a.comparators[0], ast.Constant) and a.comparators[0].value is None
                        and isinstance(b, ast.UnaryOp) and isinstance(b.op, ast.Not) and isinstance(b.operand, ast.Subscript)
                        and isinstance(b.operand.value, ast.Name) and b.operand.value.id == a.left.id):
                    return f"(negb (mget {a.left.id} {self.ex(b.operand.slice)}))"
            # `m is not None and m[i] != 1` (a boolean mask: True == 1)  ->  negb (mget m i)
            if isinstance(e.op, ast.And) and len(e.values) == 2:
                a, b = e.values
                if (isinstance(a, ast.Compare) and len(a.ops) == 1 and isinstance(a.ops[0], ast.IsNot)
                        and isinstance(a.left, ast.Name) and self.ty.get(a.left.id) == "omask"
                        and isinstance(a.comparators[0], ast.Constant) and a.comparators[0].value is None
                        and isinstance(b, ast.Compare) and len(b.ops) == 1 and isinstance(b.ops[0], ast.NotEq)
                        and isinstance(b.left, ast.Subscript) and isinstance(b.left.value, ast.Name) and b.left.value.id == a.left.id
                        and isinstance(b.comparators[0], ast.Constant) and b.comparators[0].value == 1
                        and type(b.comparators[0].value) in (int, bool)):
                    return f"(negb (mget {a.left.id} {self.ex(b.left.slice)}))"
            if isinstance(e.op, ast.And) and len(e.values) == 2:
                a, b = e.values
                if (isinstance(a, ast.Compare) and len(a.ops) == 1 and isinstance(a.ops[0], ast.IsNot)
                        and isinstance(a.left, ast.Name) and self.ty.get(a.left.id) == "omask"
                        and isinstance(a.comparators[0], ast.Constant) and a.comparators[0].value is None
                        and isinstance(b, ast.Compare) and len(b.ops) == 1 and isinstance(b.ops[0], ast.Eq)
                        and isinstance(b.left, ast.Subscript) and isinstance(b.left.value, ast.Name) and b.left.value.id == a.left.id
                        and isinstance(b.comparators[0], ast.Constant) and b.comparators[0].value is False):
                    # `m is not None and m[i] == False`  ->  negb (mget m i).  (An identity test `m[i] is False` is NOT
                    # translated: it falls through to the generic comparison, which rejects `is`.)
                    return f"(negb (mget {a.left.id} {self.ex(b.left.slice)}))"
            op = " && " if isinstance(e.op, ast.And) else " || "
            for v in e.values:
                if self.typ(v) != "bool":
                    fail(v, self.fn, "non-boolean operand of and/or")
            parts = [self.ex(v) for v in e.values]
            for v in e.values:
                if self.typ(v) != "bool":
                    fail(v, self.fn, "non-boolean operand of and/or")
            out = parts[0]
            for p in parts[1:]:
                out = f"({out}{op}{p})"
            return out
        if isinstance(e, ast.Compare):
            if len(e.ops) != 1:
                fail(e, self.fn, "chained comparison")
            a, b, op = e.left, e.comparators[0], e.ops[0]
            ta, tb = self.typ(a), self.typ(b)
            if ta == "str" and tb == "strconst" and isinstance(op, ast.Eq):
                table = STRINGS.get(a.id)
                if table is None or b.value not in table:
                    fail(e, self.fn, "unknown string option")
                return f"({a.id} =? {table[b.value]})%Z"
            if (ta == "bool" and isinstance(a, ast.Subscript) and isinstance(b, ast.Constant) and b.value == 1
                    and not isinstance(b.value, bool) and isinstance(op, (ast.Eq, ast.NotEq))):
                return self.ex(a) if isinstance(op, ast.Eq) else f"(negb {self.ex(a)})"
            if "mv" in (ta, tb):
                x = b if ta == "mv" else a
                if self.typ(x) != "nat" or not isinstance(op, (ast.Eq, ast.NotEq)):
                    fail(e, self.fn, "comparison with the missing value")
                c = f"(NMV <=? {self.ex(x)})%nat"
                return c if isinstance(op, ast.Eq) else f"(negb {c})"
            if ta != tb:
                fail(e, self.fn, f"comparison of {ta} with {tb}")
            if ta == "F":
                # two float values that are not modelled: an abstract comparison
                return f"(fbool {FOPS[type(op)]} {self.ex(a)} {self.ex(b)})" if type(op) in FOPS else fail(e, self.fn, "unsupported comparison")
            if ta == "nat":
                if not isinstance(op, (ast.Eq, ast.NotEq)):
                    fail(e, self.fn, "ordering of cell indices")
                c = f"({self.ex(a)} =? {self.ex(b)})%nat"
                return c if isinstance(op, ast.Eq) else f"(negb {c})"
            if ta == "Z":
                sym = {ast.Eq: "=?", ast.Lt: "<?", ast.LtE: "<=?", ast.Gt: ">?", ast.GtE: ">=?"}.get(type(op))
                if isinstance(op, ast.NotEq):
                    return f"(negb ({self.ex(a)} =? {self.ex(b)})%Z)"
                if sym is None:
                    fail(e, self.fn, "unsupported comparison")
                return f"({self.ex(a)} {sym} {self.ex(b)})%Z"
            fail(e, self.fn, "comparison of booleans")
        if isinstance(e, ast.BinOp) and isinstance(e.op, (ast.Add, ast.Sub)):
            tl, tr = self.typ(e.left), self.typ(e.right)
            if {tl, tr} - {"Z", "nat"} or (tl, tr) == ("nat", "nat"):
                fail(e, self.fn, "arithmetic on non-Z operands")
            # a loop counter in integer arithmetic (`i + 1`)
            l = self.ex(e.left) if tl == "Z" else f"(Z.of_nat {self.ex(e.left)})"
            r = self.ex(e.right) if tr == "Z" else f"(Z.of_nat {self.ex(e.right)})"
            return f"({l} {'+' if isinstance(e.op, ast.Add) else '-'} {r})%Z"
        if isinstance(e, ast.BinOp) and isinstance(e.op, ast.Pow) and self.typ(e.left) == "F" and self.typ(e.right) == "F":
            # a power of two float values that are not modelled: an abstract operation with an (integer-modelled) result
            return f"(fval {FOPS[ast.Pow]} {self.ex(e.left)} {self.ex(e.right)})"
        if (isinstance(e, ast.Call) and isinstance(e.func, ast.Name) and e.func.id in ("min", "max") and len(e.args) == 2 and not e.keywords
                and self.typ(e.args[0]) == "Z" and self.typ(e.args[1]) == "Z"):
            return f"(Z.{e.func.id} {self.ex(e.args[0])} {self.ex(e.args[1])})"
        if (isinstance(e, ast.Call) and isinstance(e.func, ast.Name) and e.func.id == "len" and len(e.args) == 1
                and isinstance(e.args[0], ast.Name) and self.ty.get(e.args[0].id) == "l"):
            return f"(Z.of_nat (length {e.args[0].id}))"
        if self.is_distance(e):
            self.uses_steplen = True
            return f"(steplen {self.ex(e.args[0])} {self.ex(e.args[1])})"
        if self.is_isnan(e):
            self.ex(e.args[0])       # the argument must itself be understood
            return "false"           # integer-valued fields: no NaN in the model's domain
        fail(e, self.fn, f"unsupported expression {ast.dump(e)[:60]}")

    # ---------------------------------------------------------------- statements
    def tuple(self):
        return self.state[0] if len(self.state) == 1 else "(" + ", ".join(self.state) + ")"

    def store(self, tgt, val, node):
        if not (isinstance(tgt, ast.Subscript) and isinstance(tgt.value, ast.Name)):
            fail(node, self.fn, "unsupported assignment target")
        arr = tgt.value.id
        if arr not in self.state:
            fail(node, self.fn, f"store into {arr}, which is not a local array")
        t = self.typ(tgt.value)
        tv = self.typ(val) if not isinstance(val, str) else None
        if tv is not None and ((t == "zarr" and tv != "Z") or (t == "idxarr" and tv != "nat") or (t == "barr" and tv != "bool")):
            fail(node, self.fn, "element type mismatch in store")
        return arr, self.index(tgt.slice)

    def pure_stores(self, body):
        for s in body:
            if isinstance(s, ast.Assign) and len(s.targets) == 1 and isinstance(s.targets[0], ast.Subscript):
                continue
            if isinstance(s, ast.AugAssign) and isinstance(s.target, ast.Subscript):
                continue
            if isinstance(s, ast.If) and self.pure_stores(s.body) and self.pure_stores(s.orelse):
                continue
            return False
        return True

    def stmts(self, body, ind):
        if not body:
            return " " * ind + self.tuple()
        s, rest = body[0], body[1:]
        pad = " " * ind
        if isinstance(s, ast.Continue):
            return pad + self.tuple()
        if (isinstance(s, ast.Assign) and len(s.targets) == 1 and isinstance(s.targets[0], ast.Tuple)
                and isinstance(s.value, ast.Tuple) and len(s.targets[0].elts) == len(s.value.elts)
                and all(isinstance(t, ast.Name) for t in s.targets[0].elts)):
            # a, b = x, y with fresh names a, b that do not occur in x, y: sequential lets
            names = [t.id for t in s.targets[0].elts]
            used = {nd.id for v in s.value.elts for nd in ast.walk(v) if isinstance(nd, ast.Name)}
            if used & set(names) or any(nm in self.ty for nm in names):
                fail(s, self.fn, "tuple assignment to names in use")
            seqs = [ast.Assign(targets=[t], value=v) for t, v in zip(s.targets[0].elts, s.value.elts)]
            for q in seqs:
                ast.copy_location(q, s)
            return self.stmts(seqs + rest, ind)
        if isinstance(s, ast.Assign) and len(s.targets) == 1:
            t = s.targets[0]
            if isinstance(t, ast.Name):
                if t.id in self.ty and t.id not in self.locals:
                    fail(s, self.fn, f"assignment to parameter {t.id}")
                if t.id in [c for c, _ in getattr(self, "consts", [])] and getattr(self, "inv", 0) == 0:
                    # a scalar set before the loop may only be re-bound under a loop-invariant switch (a boolean parameter):
                    # otherwise its value would be carried from one iteration to the next
                    fail(s, self.fn, f"loop-carried scalar {t.id}")
                ty = self.typ(s.value)
                if ty not in ("nat", "Z", "bool"):
                    fail(s, self.fn, "unsupported local value")
                self.ty[t.id] = ty
                self.locals.add(t.id)
                return f"{pad}let {t.id} := {self.ex(s.value)} in\n" + self.stmts(rest, ind)
            arr, i = self.store(t, s.value, s)
            return f"{pad}let {arr} := upd {arr} {i} {self.ex(s.value)} in\n" + self.stmts(rest, ind)
        if isinstance(s, ast.AugAssign) and isinstance(s.op, (ast.Add, ast.Sub)):
            arr, i = self.store(s.target, s.value, s)
            if self.typ(s.target.value) != "zarr":
                fail(s, self.fn, "+= on a non-Z array")
            op = "+" if isinstance(s.op, ast.Add) else "-"
            return f"{pad}let {arr} := upd {arr} {i} ((nth {i} {arr} 0%Z) {op} {self.ex(s.value)})%Z in\n" + self.stmts(rest, ind)
        if (isinstance(s, ast.Expr) and isinstance(s.value, ast.Call) and isinstance(s.value.func, ast.Attribute) and s.value.func.attr == "append"
                and isinstance(s.value.func.value, ast.Name) and self.ty.get(s.value.func.value.id) == "l" and s.value.func.value.id in self.state
                and len(s.value.args) == 1 and self.typ(s.value.args[0]) == "nat"):
            lst = s.value.func.value.id
            return f"{pad}let {lst} := {lst} ++ [{self.ex(s.value.args[0])}] in\n" + self.stmts(rest, ind)
        if (isinstance(s, ast.Expr) and isinstance(s.value, ast.Call) and isinstance(s.value.func, ast.Attribute) and s.value.func.attr == "append"
                and isinstance(s.value.func.value, ast.Name) and self.ty.get(s.value.func.value.id) == "ll" and s.value.func.value.id in self.state
                and len(s.value.args) == 1 and not s.value.keywords and gen.is_np_call(s.value.args[0], ("array",))
                and len(s.value.args[0].args) == 1 and isinstance(s.value.args[0].args[0], ast.List) and s.value.args[0].args[0].elts
                and all(kw.arg == "dtype" for kw in s.value.args[0].keywords)
                and all(self.typ(x) == "nat" for x in s.value.args[0].args[0].elts)):
            # lst.append(np.array([i, j], dtype=...))
            lst = s.value.func.value.id
            row = "; ".join(self.ex(x) for x in s.value.args[0].args[0].elts)
            return f"{pad}let {lst} := {lst} ++ [[{row}]] in\n" + self.stmts(rest, ind)
        if isinstance(s, ast.If):
            if self.typ(s.test) != "bool":
                fail(s, self.fn, "non-boolean condition")
            if rest and self.pure_stores(s.body) and self.pure_stores(s.orelse):
                # branches that only store into the arrays: join point instead of duplicating the continuation
                a = self.stmts(list(s.body), ind + 2)
                b = self.stmts(list(s.orelse), ind + 2)
                pat = self.tuple() if len(self.state) == 1 else "'" + self.tuple()
                return f"{pad}let {pat} := if {self.ex(s.test)} then\n{a}\n{pad}else\n{b} in\n" + self.stmts(rest, ind)
            saved = (dict(self.ty), set(self.locals))
            switch = isinstance(s.test, ast.Name) and dict(KERNELS_T[(self.fn, self.fd.name)]).get(s.test.id) == "boolp"
            self.inv = getattr(self, "inv", 0) + (1 if switch else 0)
            a = self.stmts(list(s.body) + rest, ind + 2)
            self.ty, self.locals = dict(saved[0]), set(saved[1])
            b = self.stmts(list(s.orelse) + rest, ind + 2)
            self.inv -= 1 if switch else 0
            self.ty, self.locals = saved
            return f"{pad}if {self.ex(s.test)} then\n{a}\n{pad}else\n{b}"
        fail(s, self.fn, f"unsupported statement {type(s).__name__}")

    # ---------------------------------------------------------------- the kernel
    def size_of(self, e):
        if isinstance(e, ast.Attribute) and e.attr in ("size", "shape") and isinstance(e.value, ast.Name) and self.ty.get(e.value.id) in ("idx", "z", "b", "fz"):
            return f"(length {e.value.id})"
        fail(e, self.fn, "unsupported size expression")

    def callee(self, v):
        """the translated kernel called by v: `<module>.<kernel>(...)`, or `<kernel>(...)` inside the module of the kernel"""
        if not isinstance(v, ast.Call):
            return None
        if (isinstance(v.func, ast.Attribute) and isinstance(v.func.value, ast.Name) and v.func.attr in CALLS
                and v.func.value.id == CALLS[v.func.attr][0]):
            return v.func.attr
        if isinstance(v.func, ast.Name) and v.func.id in CALLS and self.fn == CALLS[v.func.id][0] + ".py":
            return v.func.id
        return None

    def where(self, e):
        """np.where(<array> cmp <value>)[0].astype(<arr>.dtype)  ->  the cell numbers at which the comparison holds, ascending"""
        if not (isinstance(e, ast.Call) and isinstance(e.func, ast.Attribute) and e.func.attr == "astype" and len(e.args) == 1
                and not e.keywords and isinstance(e.args[0], ast.Attribute) and e.args[0].attr == "dtype"
                and isinstance(e.args[0].value, ast.Name) and self.ty.get(e.args[0].value.id) == "idx"
                and isinstance(e.func.value, ast.Subscript) and isinstance(e.func.value.slice, ast.Constant)
                and e.func.value.slice.value == 0 and type(e.func.value.slice.value) is int
                and gen.is_np_call(e.func.value.value, ("where",)) and len(e.func.value.value.args) == 1
                and not e.func.value.value.keywords):
            fail(e, self.fn, "unsupported return")
        c = e.func.value.value.args[0]
        if not (isinstance(c, ast.Compare) and len(c.ops) == 1 and isinstance(c.left, ast.Name) and self.ty.get(c.left.id) == "z"
                and self.typ(c.comparators[0]) == "Z" and not any(isinstance(n, ast.Name) for n in ast.walk(c.comparators[0]))):
            fail(e, self.fn, "unsupported selection")
        if "i_" in self.ty:
            fail(e, self.fn, "name clash for the bound cell number")
        self.ty["i_"] = "nat"
        el = ast.copy_location(ast.Subscript(value=c.left, slice=ast.Name(id="i_"), ctx=ast.Load()), c)
        test = self.ex(ast.copy_location(ast.Compare(left=el, ops=c.ops, comparators=c.comparators), c))
        del self.ty["i_"]
        return f"filter (fun i_ => {test}) (seq 0 (length {c.left.id}))"

    def all_true(self, c):
        """[bool(1) for _ in range(<arr>.size)]  ->  the size, else None"""
        if not (len(c.generators) == 1 and not c.generators[0].ifs and not c.generators[0].is_async
                and isinstance(c.generators[0].target, ast.Name) and c.generators[0].target.id == "_"):
            return None
        it, el = c.generators[0].iter, c.elt
        if not (isinstance(it, ast.Call) and isinstance(it.func, ast.Name) and it.func.id == "range" and len(it.args) == 1
                and not it.keywords):
            return None
        true = ((isinstance(el, ast.Constant) and el.value is True)
                or (isinstance(el, ast.Call) and isinstance(el.func, ast.Name) and el.func.id == "bool" and len(el.args) == 1
                    and not el.keywords and isinstance(el.args[0], ast.Constant) and el.args[0].value in (1, True)
                    and not isinstance(el.args[0].value, float)))
        return self.size_of(it.args[0]) if true else None

    def kernel(self):
        fd = self.fd
        args = [a.arg for a in fd.args.args]
        for a in args:
            if a not in self.ty:
                fail(fd, self.fn, f"parameter {a} of {fd.name} has no declared type")
        body = list(fd.body)
        if body and isinstance(body[0], ast.Expr) and isinstance(getattr(body[0], "value", None), ast.Constant):
            body = body[1:]
        idxarr = [a for a in args if self.ty[a] == "idx"]
        if "idxs_ds" not in idxarr:
            fail(fd, self.fn, "the network index array idxs_ds is expected")
        idxarr = ["idxs_ds"] + [a for a in idxarr if a != "idxs_ds"]
        self.derived = []
        self.locals = set()
        loop = None
        for pos, s in enumerate(body):
            if isinstance(s, ast.For):
                loop = pos
                break
            if isinstance(s, ast.Return) and pos == len(body) - 1:
                break
            if (isinstance(s, ast.If) and not s.orelse and len(s.body) == 1 and isinstance(s.test, ast.Compare) and len(s.test.ops) == 1
                    and isinstance(s.test.ops[0], ast.Lt) and isinstance(s.test.left, ast.Name) and self.ty.get(s.test.left.id) == "Z"
                    and isinstance(s.test.comparators[0], ast.Constant) and s.test.comparators[0].value == 0
                    and isinstance(s.body[0], ast.Assign) and len(s.body[0].targets) == 1 and isinstance(s.body[0].targets[0], ast.Name)
                    and s.body[0].targets[0].id == s.test.left.id):
                # if p < 0: p = int(arr.max()) + p      (arr: a non-negative integer array, so its maximum is >= 0)
                v = s.body[0].value
                pn = s.test.left.id
                if not (isinstance(v, ast.BinOp) and isinstance(v.op, ast.Add) and isinstance(v.right, ast.Name) and v.right.id == pn
                        and isinstance(v.left, ast.Call) and isinstance(v.left.func, ast.Name) and v.left.func.id == "int" and len(v.left.args) == 1
                        and isinstance(v.left.args[0], ast.Call) and isinstance(v.left.args[0].func, ast.Attribute) and v.left.args[0].func.attr == "max"
                        and isinstance(v.left.args[0].func.value, ast.Name) and self.ty.get(v.left.args[0].func.value.id) == "z" and not v.left.args[0].args):
                    fail(s, self.fn, "unsupported prologue statement")
                arrn = v.left.args[0].func.value.id
                self.rebind = getattr(self, "rebind", []) + [(pn, f"(if ({pn} <? 0)%Z then (fold_right Z.max 0%Z {arrn} + {pn})%Z else {pn})")]
                continue
            if isinstance(s, ast.Assert):
                # `assert how in [...]`: the accepted strings must be exactly the table of the option
                t = s.test
                if not (isinstance(t, ast.Compare) and len(t.ops) == 1 and isinstance(t.ops[0], ast.In) and isinstance(t.left, ast.Name)
                        and t.left.id in STRINGS and isinstance(t.comparators[0], ast.List)
                        and sorted(c.value for c in t.comparators[0].elts if isinstance(c, ast.Constant)) == sorted(STRINGS[t.left.id])):
                    fail(s, self.fn, "unsupported assertion")
                continue
            if (isinstance(s, ast.Assign) and len(s.targets) == 1 and isinstance(s.targets[0], ast.Subscript)
                    and isinstance(s.targets[0].value, ast.Name) and s.targets[0].value.id in self.state
                    and isinstance(s.targets[0].slice, ast.Name) and self.ty.get(s.targets[0].slice.id) == "seq"
                    and self.ty[s.targets[0].value.id] == "z" and self.typ(s.value) == "Z"):
                # arr[seq] = c
                arr = s.targets[0].value.id
                sqn = RENAME.get(s.targets[0].slice.id, s.targets[0].slice.id)
                self.init[arr] = f"(fold_left (fun a i => upd a i {self.ex(s.value)}) {sqn} {self.init[arr]})"
                continue
            if not (isinstance(s, ast.Assign) and len(s.targets) == 1 and isinstance(s.targets[0], ast.Name)):
                fail(s, self.fn, "unsupported prologue statement")
            name, v = s.targets[0].id, s.value
            if isinstance(v, (ast.Constant, ast.UnaryOp)) and name not in self.ty and self.typ(v) == "Z":
                # a scalar constant used by the loop (it may be re-bound inside the loop body)
                self.ty[name] = "Z"
                self.locals.add(name)
                self.consts = getattr(self, "consts", []) + [(name, self.ex(v))]
                continue
            if name not in self.ty and isinstance(v, ast.Call) and self.is_isnan(v) and isinstance(v.args[0], ast.Name):
                # flag = np.isnan(<scalar parameter>): a let-bound boolean used by the loop
                self.ty[name] = "bool"
                self.locals.add(name)
                self.consts = getattr(self, "consts", []) + [(name, self.ex(v))]
                continue
            if (isinstance(v, ast.Compare) and len(v.ops) == 1 and isinstance(v.ops[0], ast.NotEq) and isinstance(v.left, ast.Name)
                    and self.ty.get(v.left.id) == "z" and isinstance(v.comparators[0], ast.Name) and self.ty.get(v.comparators[0].id) == "Z"):
                # flags = data != nodata
                self.ty[name] = "b"
                self.init[name] = f"(map (fun v => negb (v =? {v.comparators[0].id})%Z) {v.left.id})"
                self.state.append(name)
                continue
            if isinstance(v, ast.Call) and isinstance(v.func, ast.Attribute) and v.func.attr == "copy" and isinstance(v.func.value, ast.Name) and not v.args:
                src = v.func.value.id
                if self.ty.get(src) not in ("z", "idx"):
                    fail(s, self.fn, "copy of a non-array")
                self.ty[name] = self.ty[src]
                self.init[name] = src
            elif self.callee(v) is not None:
                # x = core.upstream_count(idxs_ds=idxs_ds, mask=mask, mv=mv): every argument passes the parameter of the same name
                # (inside the module of the callee the call is unqualified; a positional argument must be the callee's
                # parameter of that position)
                cname = self.callee(v)
                mod, rty, order = CALLS[cname]
                kws = {}
                if v.args:
                    cfn = [f_ for (f_, n_) in KERNELS_T if n_ == cname and f_ == mod + ".py"]
                    if len(cfn) != 1:
                        fail(s, self.fn, "callee is not a translated kernel")
                    cpar = [a.arg for a in find_def(parse(cfn[0]), cname, cfn[0]).args.args]
                    for k, a in enumerate(v.args):
                        if not (isinstance(a, ast.Name) and k < len(cpar) and a.id == cpar[k] and a.id in self.ty):
                            fail(s, self.fn, "unsupported argument of a kernel call")
                        kws[a.id] = a.id
                for kw in v.keywords:
                    if not (isinstance(kw.value, ast.Name) and kw.value.id == kw.arg and kw.arg in self.ty and kw.arg not in kws):
                        fail(s, self.fn, "unsupported argument of a kernel call")
                    kws[kw.arg] = kw.value.id
                if sorted(k for k in kws if self.ty[k] != "mv") != sorted(order):
                    fail(s, self.fn, "kernel call does not pass exactly the expected arguments")
                self.ty[name] = rty
                self.derived.append((name, f"(gen_{cname} {' '.join(order)})"))
                continue
            elif isinstance(v, ast.List) and not v.elts:
                # the element type of the list: cell indices, or arrays of cell indices if every append adds np.array([...])
                apps = [nd.args[0] for nd in ast.walk(fd) if isinstance(nd, ast.Call) and isinstance(nd.func, ast.Attribute)
                        and nd.func.attr == "append" and isinstance(nd.func.value, ast.Name) and nd.func.value.id == name
                        and len(nd.args) == 1]
                if apps and all(gen.is_np_call(a, ("array",)) for a in apps):
                    self.ty[name] = "ll"
                    self.init[name] = "(@nil (list nat))"
                elif any(gen.is_np_call(a, ("array",)) for a in apps):
                    fail(s, self.fn, "list of mixed element types")
                else:
                    self.ty[name] = "l"
                    self.init[name] = "(@nil nat)"
            elif (gen.is_np_call(v, ("array",)) and len(v.args) == 1 and not v.keywords and isinstance(v.args[0], ast.ListComp)
                  and self.all_true(v.args[0]) is not None):
                # x = np.array([bool(1) for _ in range(<arr>.size)]): all True
                self.ty[name] = "b"
                self.init[name] = f"(repeat true {self.all_true(v.args[0])})"
            elif gen.is_np_call(v, ("zeros",)) and len(v.args) >= 1:
                self.ty[name] = "z"
                self.init[name] = f"(repeat 0%Z {self.size_of(v.args[0])})"
            elif gen.is_np_call(v, ("full",)) and len(v.args) >= 2:
                n = self.size_of(v.args[0])
                val = v.args[1]
                if isinstance(val, ast.Name) and self.ty.get(val.id) == "mv":
                    self.ty[name] = "idx"
                    self.init[name] = f"(repeat NMV {n})"
                else:
                    if self.typ(val) != "Z":
                        fail(s, self.fn, "np.full with a non-Z value")
                    self.ty[name] = "z"
                    self.init[name] = f"(repeat {self.ex(val)} {n})"
            else:
                fail(s, self.fn, "unsupported prologue statement")
            self.state.append(name)
        if loop is None:
            # no loop: arrays obtained from translated kernels, and a selection of cell numbers
            if (self.state or getattr(self, "consts", []) or getattr(self, "rebind", []) or not self.derived
                    or not (body and isinstance(body[-1], ast.Return))):
                fail(fd, self.fn, "expected prologue, for loops, return")
            sel = self.where(body[-1].value)
            ps = [f"({RENAME.get(a, a)} : {dict(idx='list nat', omask='option (list bool)')[t0]})"
                  for a, t0 in KERNELS_T[(self.fn, fd.name)] if a in args and t0 in ("idx", "omask")]
            if any(t0 not in ("idx", "omask", "mv") for a, t0 in KERNELS_T[(self.fn, fd.name)] if a in args):
                fail(fd, self.fn, "unsupported parameter of a kernel without a loop")
            out = [f"(* {self.fn}: {fd.name} *)", f"Definition gen_{fd.name} {' '.join(ps)} : list nat :=",
                   f"  let NMV := length {idxarr[0]} in"]
            out += [f"  let {nm} := {expr} in" for nm, expr in self.derived]
            return "\n".join(out) + f"\n  {sel}."
        loops, ret = body[loop:-1], body[-1]
        alias = {}
        while loops and isinstance(loops[-1], ast.Assign):
            # x = np.array(<list state>, dtype=...): the same list as an array
            q = loops.pop()
            if not (len(q.targets) == 1 and isinstance(q.targets[0], ast.Name) and gen.is_np_call(q.value, ("array",)) and q.value.args
                    and isinstance(q.value.args[0], ast.Name) and self.ty.get(q.value.args[0].id) == "l"):
                fail(q, self.fn, "unsupported epilogue statement")
            alias[q.targets[0].id] = q.value.args[0].id
        if not loops or not all(isinstance(f, ast.For) for f in loops):
            fail(fd, self.fn, "expected prologue, for loops, return")
        params = []
        for a in args:
            t0 = dict(KERNELS_T[(self.fn, fd.name)])[a]
            if t0 in ("mv", "skip"):
                continue
            params.append(f"({RENAME.get(a, a)} : {dict(idx='list nat', z='list Z', b='list bool', Z='Z', str='Z', seq='list nat', omask='option (list bool)', boolp='bool', fz='list F', fZ='F')[t0]})")
        dparams = [f"({nm} : list Z)" for nm, _ in self.derived]
        name = f"gen_{fd.name}"
        pat = self.tuple() if len(self.state) == 1 else "'" + self.tuple()
        ctype = {"idx": "list nat", "z": "list Z", "b": "list bool", "l": "list nat", "ll": "list (list nat)"}
        sttype = " * ".join(ctype[self.ty[a]] for a in self.state)
        pnames = " ".join(RENAME.get(a, a) for a in args if dict(KERNELS_T[(self.fn, fd.name)])[a] not in ("mv", "skip"))
        dn = "".join(" " + nm for nm, _ in self.derived)
        out = [f"(* {self.fn}: {fd.name} *)"]
        doms, bodies = [], []
        base_ty, base_locals = dict(self.ty), set(self.locals)
        for li, f in enumerate(loops):
            self.ty, self.locals = dict(base_ty), set(base_locals)
            if f.orelse or not isinstance(f.target, ast.Name):
                fail(f, self.fn, "unsupported loop header")
            it = f.iter
            if isinstance(it, ast.Name) and self.ty.get(it.id) == "seq":
                dom = RENAME.get(it.id, it.id)
            elif (isinstance(it, ast.Subscript) and isinstance(it.value, ast.Name) and self.ty.get(it.value.id) == "seq"
                  and isinstance(it.slice, ast.Slice) and it.slice.lower is None and it.slice.upper is None
                  and isinstance(it.slice.step, ast.UnaryOp) and isinstance(it.slice.step.op, ast.USub)
                  and isinstance(it.slice.step.operand, ast.Constant) and it.slice.step.operand.value == 1):
                dom = f"(rev {RENAME.get(it.value.id, it.value.id)})"
            elif isinstance(it, ast.Call) and isinstance(it.func, ast.Name) and it.func.id == "range" and len(it.args) == 1:
                dom = f"(seq 0 {self.size_of(it.args[0])})"
            else:
                fail(f, self.fn, "unsupported loop domain")
            doms.append(dom)
            self.ty[f.target.id] = "nat"
            self.locals.add(f.target.id)
            bodies.append((f.target.id, self.stmts(list(f.body), 4)))
        if getattr(self, "uses_steplen", False):
            params = params + ["(steplen : nat -> nat -> Z)"]
            pnames = pnames + " steplen"
        if self.uses_float:
            # the abstract float type first, its default element and operations last
            used = {nd.id for nd in ast.walk(fd) if isinstance(nd, ast.Name)} | set(args)
            clash = [nm for nm in FLOAT_NAMES if nm in used]
            if clash:
                fail(fd, self.fn, f"name clash with the float parameters: {clash}")
            params = ["(F : Type)"] + params + ["(fdef : F)", "(fbool : fop -> F -> F -> bool)", "(fval : fop -> F -> F -> Z)"]
            pnames = "F " + pnames + " fdef fbool fval"
        consts = getattr(self, "consts", [])
        for li, (tgt, bodytxt) in enumerate(bodies):
            suffix = "" if len(loops) == 1 else str(li + 1)
            out.append(f"Definition {name}_step{suffix} {' '.join(params + dparams)} (st : {sttype}) ({tgt} : nat) : {sttype} :=")
            out.append(f"  let NMV := length {idxarr[0]} in")
            for nm, expr in consts:
                out.append(f"  let {nm} := {expr} in")
            if len(self.state) > 1:
                out.append(f"  let {pat} := st in")
            else:
                out.append(f"  let {self.state[0]} := st in")
            out.append(bodytxt + ".")
        self.ty = base_ty
        init = self.init[self.state[0]] if len(self.state) == 1 else "(" + ", ".join(self.init[a] for a in self.state) + ")"
        # the result: one array of the state or all of them in order
        if (isinstance(ret, ast.Return) and gen.is_np_call(ret.value, ("array",)) and len(ret.value.args) == 1
                and isinstance(ret.value.args[0], ast.Name) and self.ty.get(ret.value.args[0].id) == "l"
                and all(kw.arg == "dtype" for kw in ret.value.keywords)):
            # return np.array(<list state>, dtype=...): the same list as an array
            ret = ast.copy_location(ast.Return(value=ret.value.args[0]), ret)
        if isinstance(ret, ast.Return) and isinstance(ret.value, ast.Name) and ret.value.id in self.state:
            proj = ret.value.id
            rtype = ctype[self.ty[proj]]
            if len(self.state) == 1:
                res = "r"
            else:
                k = self.state.index(proj)
                res = "r"
                nn = len(self.state)      # nested pairs: (a, b, c) = ((a, b), c)
                for _ in range(nn - 1 - k):
                    res = f"(fst {res})"
                if k > 0:
                    res = f"(snd {res})"
        elif (isinstance(ret, ast.Return) and isinstance(ret.value, ast.Tuple)
              and [getattr(e, "id", None) for e in ret.value.elts] == self.state):
            rtype, res = sttype, "r"
        elif (isinstance(ret, ast.Return) and isinstance(ret.value, ast.Tuple) and len(ret.value.elts) == 2
              and isinstance(ret.value.elts[1], ast.Name) and alias.get(ret.value.elts[1].id) in self.state
              and isinstance(ret.value.elts[0], ast.Call) and isinstance(ret.value.elts[0].func, ast.Attribute)
              and ret.value.elts[0].func.attr == "fillnodata_upstream" and isinstance(ret.value.elts[0].func.value, ast.Name)
              and ret.value.elts[0].func.value.id == "core" and len(ret.value.elts[0].args) == 4 and not ret.value.elts[0].keywords):
            # return core.fillnodata_upstream(idxs_ds, seq, <array of the state>, <constant>), <the list as an array>
            c = ret.value.elts[0]
            a0, a1, a2, a3 = c.args
            if not (isinstance(a0, ast.Name) and a0.id == "idxs_ds" and isinstance(a1, ast.Name) and self.ty.get(a1.id) == "seq"
                    and isinstance(a2, ast.Name) and a2.id in self.state and self.ty[a2.id] == "z" and self.typ(a3) == "Z"):
                fail(ret, self.fn, "unsupported return")

            def proj(nm):
                k, r_, nn = self.state.index(nm), "r", len(self.state)
                for _ in range(nn - 1 - k):
                    r_ = f"(fst {r_})"
                return f"(snd {r_})" if k > 0 else r_
            rtype = "list Z * list nat"
            res = f"(gen_fillnodata_upstream idxs_ds {RENAME.get(a1.id, a1.id)} {proj(a2.id)} {self.ex(a3)}, {proj(alias[ret.value.elts[1].id])})"
        else:
            fail(ret, self.fn, "unsupported return")
        out.append(f"Definition {name} {' '.join(params)} : {rtype} :=")
        out.append(f"  let NMV := length {idxarr[0]} in")
        for nm, expr in self.derived:
            out.append(f"  let {nm} := {expr} in")
        for nm, expr in getattr(self, "rebind", []):
            out.append(f"  let {nm} := {expr} in")
        for nm, expr in consts:
            out.append(f"  let {nm} := {expr} in")
        cur = init
        for li, dom in enumerate(doms):
            suffix = "" if len(loops) == 1 else str(li + 1)
            last = li == len(doms) - 1
            var = "r" if last else f"r{li + 1}"
            out.append(f"  let {var} := fold_left ({name}_step{suffix} {pnames}{dn}) {dom} {cur} in" + (f" {res}." if last else ""))
            cur = var
        return "\n".join(out)


RENAME = {"seq": "sq"}     # `seq` is a function of the Coq standard library
KERNELS_T = {(fn, name): list(ty.items()) for fn, name, ty in KERNELS}


def gen_loops():
    parts = ["(* GENERATED by tools/gen_loops.py from /repo/pyflwdir -- do not edit *)",
             "From Coq Require Import List Arith ZArith Bool.", "Import ListNotations.",
             "From PF Require Import Arr Stream.", ""]
    trees = {}
    for fn, name, ty in KERNELS:
        # one kernel that is no longer understood must not take the others (which belong to other properties) with it: its
        # definition is left out, so that exactly the equality proofs that mention it stop compiling
        try:
            tree = trees.setdefault(fn, parse(fn))
            fd = find_def(tree, name, fn)
            k = K(fn, fd, ty)
            text = k.kernel()
        except (GenError, SyntaxError) as e:
            parts.append("(* NOT TRANSLATED: %s.%s -- %s *)" % (fn, name, str(e).replace("*)", "* )")))
            parts.append("")
            continue
        if k.uses_float and FLOAT_DECL not in parts:
            parts += [FLOAT_DECL, ""]
        parts.append(text)
        parts.append("")
    return "\n".join(parts)


gen.GENERATORS["GenLoops.v"] = gen_loops

if __name__ == "__main__":
    print(gen_loops())
