"""Fail-closed translator for simple array kernels (one `for` loop over the cell order with element updates):
Python `ast`  ->  Gallina fold (coq/generated/GenLoops.v).  Registered into gen.GENERATORS on import.

The subset understood (anything else raises GenError):
  prologue   x = y.copy()                       |  x = np.full(<arr>.size, <value>, dtype=...)
  loop       for v in seq | seq[::-1] | range(<arr>.size):
  body       name = expr | arr[i] = expr | arr[i] += expr | if / elif / else | continue
  exprs      names, integer constants, arr[i], == != < <= > >=, and / or / not, + -, min / max,
             `m is None or m[i]` for an optional boolean mask, comparison with the missing value mv
  epilogue   return x

Index arrays are `list nat` whose missing value is the array length (so `x == mv` is `length <= x`); all other
arrays are `list Z`; the optional mask is `option (list bool)` read with Stream.mget.
Each generated definition is proved equal to the hand-written model in theories/GenLoopsEq.v; the theorems of the
properties are about those models, so a change of the source that changes the generated text breaks that proof."""
import ast, os, sys

import gen
from gen import GenError, fail, parse, find_def

# kernel -> (file, parameter typing).  types: idx = index array, z = Z array, Z = Z scalar, seq = cell order,
# omask = optional bool mask, mv/skip = not a Gallina parameter
KERNELS = [
    ("core.py", "fillnodata_upstream", {"idxs_ds": "idx", "seq": "seq", "data": "z", "nodata": "Z"}),
    ("core.py", "main_upstream", {"idxs_ds": "idx", "uparea": "z", "upa_min": "Z", "mv": "mv"}),
    ("streams.py", "accuflux", {"idxs_ds": "idx", "seq": "seq", "data": "z", "nodata": "Z"}),
    ("streams.py", "accuflux_ds", {"idxs_ds": "idx", "seq": "seq", "data": "z", "nodata": "Z"}),
    ("arithmetics.py", "upstream_sum", {"idxs_ds": "idx", "data": "z", "nodata": "Z", "mv": "mv"}),
    ("core.py", "upstream_count", {"idxs_ds": "idx", "mv": "mv", "mask": "omask"}),
    ("streams.py", "stream_order", {"idxs_ds": "idx", "seq": "seq", "idxs_us_main": "idx", "mask": "omask", "mv": "mv"}),
    ("streams.py", "strahler_order", {"idxs_ds": "idx", "seq": "seq", "mask": "omask"}),
    ("core.py", "fillnodata_downstream", {"idxs_ds": "idx", "seq": "seq", "data": "z", "nodata": "Z", "how": "str"}),
    ("dem.py", "height_above_nearest_drain", {"idxs_ds": "idx", "seq": "seq", "drain": "b", "elevtn": "z"}),
]
# string-valued options are integers in the models (the harness uses the same table)
STRINGS = {"how": {"min": 0, "max": 1, "sum": 2}}
# calls to other translated kernels allowed in a prologue: callee -> (module alias, result type, argument order)
CALLS = {"upstream_count": ("core", "z", ["idxs_ds", "mask"])}


class K:
    """translation context of one kernel"""

    def __init__(self, fn, fd, typing):
        self.fn, self.fd, self.ty = fn, fd, dict(typing)
        self.state = []          # arrays updated in the loop, in order of initialisation
        self.init = {}           # array -> Gallina initial value

    # ---------------------------------------------------------------- expressions
    def typ(self, e):
        if isinstance(e, ast.Name):
            t = self.ty.get(e.id)
            if t is None:
                fail(e, self.fn, f"untyped name {e.id}")
            return {"idx": "idxarr", "z": "zarr", "b": "barr", "Z": "Z", "nat": "nat", "mv": "mv", "omask": "omask", "bool": "bool", "str": "str"}[t]
        if isinstance(e, ast.Constant) and isinstance(e.value, bool):
            return "bool"
        if isinstance(e, ast.Constant) and isinstance(e.value, str):
            return "strconst"
        if isinstance(e, ast.Constant) and (isinstance(e.value, int) or (isinstance(e.value, float) and e.value.is_integer())):
            return "Z"
        if isinstance(e, ast.UnaryOp) and isinstance(e.op, ast.USub):
            return "Z"
        if isinstance(e, ast.Subscript):
            t = self.typ(e.value)
            return {"idxarr": "nat", "zarr": "Z", "barr": "bool"}.get(t) or fail(e, self.fn, "subscript of a non-array")
        if isinstance(e, (ast.Compare, ast.BoolOp)) or (isinstance(e, ast.UnaryOp) and isinstance(e.op, ast.Not)):
            return "bool"
        if isinstance(e, ast.BinOp):
            return "Z"
        if isinstance(e, ast.Call) and isinstance(e.func, ast.Name) and e.func.id in ("min", "max"):
            return "Z"
        fail(e, self.fn, f"unsupported expression {ast.dump(e)[:60]}")

    def ex(self, e):
        if isinstance(e, ast.Name):
            if self.ty.get(e.id) == "mv":
                fail(e, self.fn, "missing value outside a comparison")
            return RENAME.get(e.id, e.id)
        if isinstance(e, ast.Constant) and isinstance(e.value, bool):
            return "true" if e.value else "false"
        if isinstance(e, ast.Constant) and (isinstance(e.value, int) or (isinstance(e.value, float) and e.value.is_integer())):
            v = int(e.value)
            return f"({v})%Z" if v < 0 else f"{v}%Z"
        if (isinstance(e, ast.UnaryOp) and isinstance(e.op, ast.USub) and isinstance(e.operand, ast.Constant)
                and not isinstance(e.operand.value, bool)
                and (isinstance(e.operand.value, int) or (isinstance(e.operand.value, float) and e.operand.value.is_integer()))):
            return f"(-{int(e.operand.value)})%Z"
        if isinstance(e, ast.Subscript):
            arr = e.value
            if not isinstance(arr, ast.Name):
                fail(e, self.fn, "subscript of an expression")
            i = self.ex(e.slice)
            if self.typ(e.slice) != "nat":
                fail(e, self.fn, "array index is not a cell index")
            t = self.typ(arr)
            if t == "idxarr":
                return f"(nth {i} {arr.id} NMV)"
            if t == "zarr":
                return f"(nth {i} {arr.id} 0%Z)"
            if t == "barr":
                return f"(nth {i} {arr.id} false)"
            fail(e, self.fn, "subscript of a non-array")
        if isinstance(e, ast.UnaryOp) and isinstance(e.op, ast.Not):
            return f"(negb {self.ex(e.operand)})"
        if isinstance(e, ast.BoolOp):
            # `m is None or m[i]`  ->  mget m i
            if isinstance(e.op, ast.Or) and len(e.values) == 2:
                a, b = e.values
                if (isinstance(a, ast.Compare) and len(a.ops) == 1 and isinstance(a.ops[0], ast.Is)
                        and isinstance(a.left, ast.Name) and self.ty.get(a.left.id) == "omask"
                        and isinstance(a.comparators[0], ast.Constant) and a.comparators[0].value is None
                        and isinstance(b, ast.Subscript) and isinstance(b.value, ast.Name) and b.value.id == a.left.id):
                    return f"(mget {a.left.id} {self.ex(b.slice)})"
            # `m is not None and not m[i]`  ->  negb (mget m i)
            if isinstance(e.op, ast.And) and len(e.values) == 2:
                a, b = e.values
                if (isinstance(a, ast.Compare) and len(a.ops) == 1 and isinstance(a.ops[0], ast.IsNot)
                        and isinstance(a.left, ast.Name) and self.ty.get(a.left.id) == "omask"
                        and isinstance(a.comparators[0], ast.Constant) and a.comparators[0].value is None
                        and isinstance(b, ast.UnaryOp) and isinstance(b.op, ast.Not) and isinstance(b.operand, ast.Subscript)
                        and isinstance(b.operand.value, ast.Name) and b.operand.value.id == a.left.id):
                    return f"(negb (mget {a.left.id} {self.ex(b.operand.slice)}))"
            op = " && " if isinstance(e.op, ast.And) else " || "
            for v in e.values:
                if self.typ(v) != "bool":
                    fail(v, self.fn, "non-boolean operand of and/or")
            parts = [self.ex(v) for v in e.values]
            for v in e.values:
                if self.typ(v) != "bool":
                    fail(v, self.fn, "non-boolean operand of and/or")
            out = parts[0]
            for p in parts[1:]:
                out = f"({out}{op}{p})"
            return out
        if isinstance(e, ast.Compare):
            if len(e.ops) != 1:
                fail(e, self.fn, "chained comparison")
            a, b, op = e.left, e.comparators[0], e.ops[0]
            ta, tb = self.typ(a), self.typ(b)
            if ta == "str" and tb == "strconst" and isinstance(op, ast.Eq):
                table = STRINGS.get(a.id)
                if table is None or b.value not in table:
                    fail(e, self.fn, "unknown string option")
                return f"({a.id} =? {table[b.value]})%Z"
            if (ta == "bool" and isinstance(a, ast.Subscript) and isinstance(b, ast.Constant) and b.value == 1
                    and not isinstance(b.value, bool) and isinstance(op, (ast.Eq, ast.NotEq))):
                return self.ex(a) if isinstance(op, ast.Eq) else f"(negb {self.ex(a)})"
            if "mv" in (ta, tb):
                x = b if ta == "mv" else a
                if self.typ(x) != "nat" or not isinstance(op, (ast.Eq, ast.NotEq)):
                    fail(e, self.fn, "comparison with the missing value")
                c = f"(NMV <=? {self.ex(x)})%nat"
                return c if isinstance(op, ast.Eq) else f"(negb {c})"
            if ta != tb:
                fail(e, self.fn, f"comparison of {ta} with {tb}")
            if ta == "nat":
                if not isinstance(op, (ast.Eq, ast.NotEq)):
                    fail(e, self.fn, "ordering of cell indices")
                c = f"({self.ex(a)} =? {self.ex(b)})%nat"
                return c if isinstance(op, ast.Eq) else f"(negb {c})"
            if ta == "Z":
                sym = {ast.Eq: "=?", ast.Lt: "<?", ast.LtE: "<=?", ast.Gt: ">?", ast.GtE: ">=?"}.get(type(op))
                if isinstance(op, ast.NotEq):
                    return f"(negb ({self.ex(a)} =? {self.ex(b)})%Z)"
                if sym is None:
                    fail(e, self.fn, "unsupported comparison")
                return f"({self.ex(a)} {sym} {self.ex(b)})%Z"
            fail(e, self.fn, "comparison of booleans")
        if isinstance(e, ast.BinOp) and isinstance(e.op, (ast.Add, ast.Sub)):
            if self.typ(e.left) != "Z" or self.typ(e.right) != "Z":
                fail(e, self.fn, "arithmetic on non-Z operands")
            return f"({self.ex(e.left)} {'+' if isinstance(e.op, ast.Add) else '-'} {self.ex(e.right)})%Z"
        if isinstance(e, ast.Call) and isinstance(e.func, ast.Name) and e.func.id in ("min", "max") and len(e.args) == 2 and not e.keywords:
            return f"(Z.{e.func.id} {self.ex(e.args[0])} {self.ex(e.args[1])})"
        fail(e, self.fn, f"unsupported expression {ast.dump(e)[:60]}")

    # ---------------------------------------------------------------- statements
    def tuple(self):
        return self.state[0] if len(self.state) == 1 else "(" + ", ".join(self.state) + ")"

    def store(self, tgt, val, node):
        if not (isinstance(tgt, ast.Subscript) and isinstance(tgt.value, ast.Name)):
            fail(node, self.fn, "unsupported assignment target")
        arr = tgt.value.id
        if arr not in self.state:
            fail(node, self.fn, f"store into {arr}, which is not a local array")
        if self.typ(tgt.slice) != "nat":
            fail(node, self.fn, "store index is not a cell index")
        t = self.typ(tgt.value)
        tv = self.typ(val) if not isinstance(val, str) else None
        if tv is not None and ((t == "zarr" and tv != "Z") or (t == "idxarr" and tv != "nat") or (t == "barr" and tv != "bool")):
            fail(node, self.fn, "element type mismatch in store")
        return arr, self.ex(tgt.slice)

    def pure_stores(self, body):
        for s in body:
            if isinstance(s, ast.Assign) and len(s.targets) == 1 and isinstance(s.targets[0], ast.Subscript):
                continue
            if isinstance(s, ast.AugAssign) and isinstance(s.target, ast.Subscript):
                continue
            if isinstance(s, ast.If) and self.pure_stores(s.body) and self.pure_stores(s.orelse):
                continue
            return False
        return True

    def stmts(self, body, ind):
        if not body:
            return " " * ind + self.tuple()
        s, rest = body[0], body[1:]
        pad = " " * ind
        if isinstance(s, ast.Continue):
            return pad + self.tuple()
        if (isinstance(s, ast.Assign) and len(s.targets) == 1 and isinstance(s.targets[0], ast.Tuple)
                and isinstance(s.value, ast.Tuple) and len(s.targets[0].elts) == len(s.value.elts)
                and all(isinstance(t, ast.Name) for t in s.targets[0].elts)):
            # a, b = x, y with fresh names a, b that do not occur in x, y: sequential lets
            names = [t.id for t in s.targets[0].elts]
            used = {nd.id for v in s.value.elts for nd in ast.walk(v) if isinstance(nd, ast.Name)}
            if used & set(names) or any(nm in self.ty for nm in names):
                fail(s, self.fn, "tuple assignment to names in use")
            seqs = [ast.Assign(targets=[t], value=v) for t, v in zip(s.targets[0].elts, s.value.elts)]
            for q in seqs:
                ast.copy_location(q, s)
            return self.stmts(seqs + rest, ind)
        if isinstance(s, ast.Assign) and len(s.targets) == 1:
            t = s.targets[0]
            if isinstance(t, ast.Name):
                if t.id in self.ty and t.id not in self.locals:
                    fail(s, self.fn, f"assignment to parameter {t.id}")
                ty = self.typ(s.value)
                if ty not in ("nat", "Z", "bool"):
                    fail(s, self.fn, "unsupported local value")
                self.ty[t.id] = ty
                self.locals.add(t.id)
                return f"{pad}let {t.id} := {self.ex(s.value)} in\n" + self.stmts(rest, ind)
            arr, i = self.store(t, s.value, s)
            return f"{pad}let {arr} := upd {arr} {i} {self.ex(s.value)} in\n" + self.stmts(rest, ind)
        if isinstance(s, ast.AugAssign) and isinstance(s.op, ast.Add):
            arr, i = self.store(s.target, s.value, s)
            if self.typ(s.target.value) != "zarr":
                fail(s, self.fn, "+= on a non-Z array")
            return f"{pad}let {arr} := upd {arr} {i} ((nth {i} {arr} 0%Z) + {self.ex(s.value)})%Z in\n" + self.stmts(rest, ind)
        if isinstance(s, ast.If):
            if self.typ(s.test) != "bool":
                fail(s, self.fn, "non-boolean condition")
            if rest and self.pure_stores(s.body) and self.pure_stores(s.orelse):
                # branches that only store into the arrays: join point instead of duplicating the continuation
                a = self.stmts(list(s.body), ind + 2)
                b = self.stmts(list(s.orelse), ind + 2)
                pat = self.tuple() if len(self.state) == 1 else "'" + self.tuple()
                return f"{pad}let {pat} := if {self.ex(s.test)} then\n{a}\n{pad}else\n{b} in\n" + self.stmts(rest, ind)
            saved = (dict(self.ty), set(self.locals))
            a = self.stmts(list(s.body) + rest, ind + 2)
            self.ty, self.locals = dict(saved[0]), set(saved[1])
            b = self.stmts(list(s.orelse) + rest, ind + 2)
            self.ty, self.locals = saved
            return f"{pad}if {self.ex(s.test)} then\n{a}\n{pad}else\n{b}"
        fail(s, self.fn, f"unsupported statement {type(s).__name__}")

    # ---------------------------------------------------------------- the kernel
    def size_of(self, e):
        if isinstance(e, ast.Attribute) and e.attr == "size" and isinstance(e.value, ast.Name) and self.ty.get(e.value.id) in ("idx", "z", "b"):
            return f"(length {e.value.id})"
        fail(e, self.fn, "unsupported size expression")

    def kernel(self):
        fd = self.fd
        args = [a.arg for a in fd.args.args]
        for a in args:
            if a not in self.ty:
                fail(fd, self.fn, f"parameter {a} of {fd.name} has no declared type")
        body = list(fd.body)
        if body and isinstance(body[0], ast.Expr) and isinstance(getattr(body[0], "value", None), ast.Constant):
            body = body[1:]
        idxarr = [a for a in args if self.ty[a] == "idx"]
        if not idxarr or idxarr[0] != "idxs_ds":
            fail(fd, self.fn, "the network index array idxs_ds is expected first")
        self.derived = []
        self.locals = set()
        loop = None
        for pos, s in enumerate(body):
            if isinstance(s, ast.For):
                loop = pos
                break
            if isinstance(s, ast.Assert):
                # `assert how in [...]`: the accepted strings must be exactly the table of the option
                t = s.test
                if not (isinstance(t, ast.Compare) and len(t.ops) == 1 and isinstance(t.ops[0], ast.In) and isinstance(t.left, ast.Name)
                        and t.left.id in STRINGS and isinstance(t.comparators[0], ast.List)
                        and sorted(c.value for c in t.comparators[0].elts if isinstance(c, ast.Constant)) == sorted(STRINGS[t.left.id])):
                    fail(s, self.fn, "unsupported assertion")
                continue
            if (isinstance(s, ast.Assign) and len(s.targets) == 1 and isinstance(s.targets[0], ast.Subscript)
                    and isinstance(s.targets[0].value, ast.Name) and s.targets[0].value.id in self.state
                    and isinstance(s.targets[0].slice, ast.Name) and self.ty.get(s.targets[0].slice.id) == "seq"
                    and self.ty[s.targets[0].value.id] == "z" and self.typ(s.value) == "Z"):
                # arr[seq] = c
                arr = s.targets[0].value.id
                sqn = RENAME.get(s.targets[0].slice.id, s.targets[0].slice.id)
                self.init[arr] = f"(fold_left (fun a i => upd a i {self.ex(s.value)}) {sqn} {self.init[arr]})"
                continue
            if not (isinstance(s, ast.Assign) and len(s.targets) == 1 and isinstance(s.targets[0], ast.Name)):
                fail(s, self.fn, "unsupported prologue statement")
            name, v = s.targets[0].id, s.value
            if (isinstance(v, ast.Compare) and len(v.ops) == 1 and isinstance(v.ops[0], ast.NotEq) and isinstance(v.left, ast.Name)
                    and self.ty.get(v.left.id) == "z" and isinstance(v.comparators[0], ast.Name) and self.ty.get(v.comparators[0].id) == "Z"):
                # flags = data != nodata
                self.ty[name] = "b"
                self.init[name] = f"(map (fun v => negb (v =? {v.comparators[0].id})%Z) {v.left.id})"
                self.state.append(name)
                continue
            if isinstance(v, ast.Call) and isinstance(v.func, ast.Attribute) and v.func.attr == "copy" and isinstance(v.func.value, ast.Name) and not v.args:
                src = v.func.value.id
                if self.ty.get(src) not in ("z", "idx"):
                    fail(s, self.fn, "copy of a non-array")
                self.ty[name] = self.ty[src]
                self.init[name] = src
            elif (isinstance(v, ast.Call) and isinstance(v.func, ast.Attribute) and isinstance(v.func.value, ast.Name)
                  and v.func.attr in CALLS and v.func.value.id == CALLS[v.func.attr][0] and not v.args):
                # x = core.upstream_count(idxs_ds=idxs_ds, mask=mask, mv=mv): every keyword passes the parameter of the same name
                mod, rty, order = CALLS[v.func.attr]
                kws = {}
                for kw in v.keywords:
                    if not (isinstance(kw.value, ast.Name) and kw.value.id == kw.arg and kw.arg in self.ty):
                        fail(s, self.fn, "unsupported argument of a kernel call")
                    kws[kw.arg] = kw.value.id
                if sorted(k for k in kws if self.ty[k] != "mv") != sorted(order):
                    fail(s, self.fn, "kernel call does not pass exactly the expected arguments")
                self.ty[name] = rty
                self.derived.append((name, f"(gen_{v.func.attr} {' '.join(order)})"))
                continue
            elif gen.is_np_call(v, ("full",)) and len(v.args) >= 2:
                n = self.size_of(v.args[0])
                val = v.args[1]
                if isinstance(val, ast.Name) and self.ty.get(val.id) == "mv":
                    self.ty[name] = "idx"
                    self.init[name] = f"(repeat NMV {n})"
                else:
                    if self.typ(val) != "Z":
                        fail(s, self.fn, "np.full with a non-Z value")
                    self.ty[name] = "z"
                    self.init[name] = f"(repeat {self.ex(val)} {n})"
            else:
                fail(s, self.fn, "unsupported prologue statement")
            self.state.append(name)
        if loop is None or loop != len(body) - 2:
            fail(fd, self.fn, "expected prologue, one for loop, return")
        f, ret = body[loop], body[loop + 1]
        if f.orelse or not isinstance(f.target, ast.Name):
            fail(f, self.fn, "unsupported loop header")
        it = f.iter
        if isinstance(it, ast.Name) and self.ty.get(it.id) == "seq":
            dom = RENAME.get(it.id, it.id)
        elif (isinstance(it, ast.Subscript) and isinstance(it.value, ast.Name) and self.ty.get(it.value.id) == "seq"
              and isinstance(it.slice, ast.Slice) and it.slice.lower is None and it.slice.upper is None
              and isinstance(it.slice.step, ast.UnaryOp) and isinstance(it.slice.step.op, ast.USub)
              and isinstance(it.slice.step.operand, ast.Constant) and it.slice.step.operand.value == 1):
            dom = f"(rev {RENAME.get(it.value.id, it.value.id)})"
        elif isinstance(it, ast.Call) and isinstance(it.func, ast.Name) and it.func.id == "range" and len(it.args) == 1:
            dom = f"(seq 0 {self.size_of(it.args[0])})"
        else:
            fail(f, self.fn, "unsupported loop domain")
        self.ty[f.target.id] = "nat"
        self.locals.add(f.target.id)
        if not (isinstance(ret, ast.Return) and isinstance(ret.value, ast.Name) and ret.value.id in self.state):
            fail(ret, self.fn, "unsupported return")
        params = []
        for a in args:
            t = self.ty[a] if a not in self.state else None
            t0 = dict(KERNELS_T[(self.fn, fd.name)])[a]
            if t0 in ("mv",):
                continue
            params.append(f"({RENAME.get(a, a)} : {dict(idx='list nat', z='list Z', b='list bool', Z='Z', str='Z', seq='list nat', omask='option (list bool)')[t0]})")
        dparams = [f"({nm} : list Z)" for nm, _ in self.derived]
        name = f"gen_{fd.name}"
        pat = self.tuple() if len(self.state) == 1 else "'" + self.tuple()
        stname = "st" if len(self.state) > 1 else self.state[0]
        bodytxt = self.stmts(list(f.body), 4)
        sttype = " * ".join({"idx": "list nat", "z": "list Z", "b": "list bool"}[self.ty[a]] for a in self.state)
        out = [f"(* {self.fn}: {fd.name} *)"]
        out.append(f"Definition {name}_step {' '.join(params + dparams)} (st : {sttype}) ({f.target.id} : nat) : {sttype} :=")
        out.append(f"  let NMV := length {idxarr[0]} in")
        if len(self.state) > 1:
            out.append(f"  let {pat} := st in")
        else:
            out.append(f"  let {self.state[0]} := st in")
        out.append(bodytxt + ".")
        init = self.init[self.state[0]] if len(self.state) == 1 else "(" + ", ".join(self.init[a] for a in self.state) + ")"
        pnames = " ".join(RENAME.get(a, a) for a in args if dict(KERNELS_T[(self.fn, fd.name)])[a] != "mv")
        proj = ret.value.id
        if len(self.state) == 1:
            res = "r"
        else:
            k = self.state.index(proj)
            res = "r"
            # nested pairs: (a, b, c) = ((a, b), c)
            nn = len(self.state)
            for _ in range(nn - 1 - k):
                res = f"(fst {res})"
            if k > 0:
                res = f"(snd {res})"
        out.append(f"Definition {name} {' '.join(params)} : {dict(idx='list nat', z='list Z', b='list bool')[self.ty[proj]]} :=")
        out.append(f"  let NMV := length {idxarr[0]} in")
        for nm, expr in self.derived:
            out.append(f"  let {nm} := {expr} in")
        dn = "".join(" " + nm for nm, _ in self.derived)
        out.append(f"  let r := fold_left ({name}_step {pnames}{dn}) {dom} {init} in {res}.")
        return "\n".join(out)


RENAME = {"seq": "sq"}     # `seq` is a function of the Coq standard library
KERNELS_T = {(fn, name): list(ty.items()) for fn, name, ty in KERNELS}


def gen_loops():
    parts = ["(* GENERATED by tools/gen_loops.py from /repo/pyflwdir -- do not edit *)",
             "From Coq Require Import List Arith ZArith Bool.", "Import ListNotations.",
             "From PF Require Import Arr Stream.", ""]
    trees = {}
    for fn, name, ty in KERNELS:
        tree = trees.setdefault(fn, parse(fn))
        fd = find_def(tree, name, fn)
        parts.append(K(fn, fd, ty).kernel())
        parts.append("")
    return "\n".join(parts)


gen.GENERATORS["GenLoops.v"] = gen_loops

if __name__ == "__main__":
    print(gen_loops())
