#!/usr/bin/env python3
"""negative tests: one small semantic change of the source per run; regenerate into a scratch copy; GenError or broken proof"""
import os, shutil, subprocess, sys, json, glob
ROOT = "/tmp/genheap"; S = ROOT + "/scratch/neg"
TESTS = [
 ("G1", "gis_utils.py", "            if ~a[r, c] or r == 0 or r == nrow - 1 or c == 0 or c == ncol - 1:", "            if ~a[r, c] or r == 0 or r == nrow or c == 0 or c == ncol - 1:"),
 ("G2", "gis_utils.py", "                edge[r, c] = False", "                edge[r, c] = True"),
 ("G3", "gis_utils.py", "            if np.all(a0[s]):", "            if np.any(a0[s]):"),
 ("G4", "gis_utils.py", "a[slice(r - 1, r + 2), slice(c - 1, c + 2)].ravel()", "a[slice(r, r + 2), slice(c - 1, c + 2)].ravel()"),
 ("G5", "gis_utils.py", "            if ~a[r, c] or r == 0 or r == nrow - 1 or c == 0 or c == ncol - 1:", "            if a[r, c] or r == 0 or r == nrow - 1 or c == 0 or c == ncol - 1:"),
 ("F10", "dem.py", "        queued = gis_utils.get_edge(~done, structure=struct)", "        queued = gis_utils.get_edge(done, structure=struct)"),
 ("F1", "dem.py", "            if dz > 0:  # check if local depression (dz>0)", "            if dz >= 0:  # check if local depression (dz>0)"),
 ("F2", "dem.py", "                    q, (np.float64(z1), np.uint8(0), np.uint32(r), np.uint32(c))\n                )\n                queued[r, c] = True\n            done", "                    q, (np.float64(z0), np.uint8(0), np.uint32(r), np.uint32(c))\n                )\n                queued[r, c] = True\n            done"),
 ("F3", "dem.py", "q, (np.float64(elevtn[r, c]), np.uint8(1), np.uint32(r), np.uint32(c))", "q, (np.float64(elevtn[r, c]), np.uint8(0), np.uint32(r), np.uint32(c))"),
 ("F4", "dem.py", "        z0, _, r0, c0 = heapq.heappop(q)", "        z0, _, r0, c0 = q.pop()"),
 ("F5", "dem.py", "            if max_depth >= 0:  # if positive", "            if max_depth >= -1:  # if positive"),
 ("F6", "dem.py", "if r < 0 or r == nrow or c < 0 or c == ncol or done[r, c]:", "if r < 0 or r > nrow or c < 0 or c == ncol or done[r, c]:"),
 ("F7", "dem.py", "        struct[0, -1], struct[-1, 0] = False, False", "        struct[0, 1], struct[-1, 0] = False, False"),
 ("F8", "dem.py", "            done[r, c] = True\n            d8[r, c]", "            done[r, c] = False\n            d8[r, c]"),
 ("F9", "dem.py", "        queued[q[0][-2], q[0][-1]] = True", "        queued[q[0][-1], q[0][-2]] = True"),
 ("S1", "gis_utils.py", "if src[r1, c1] == -1 or d < dst[r1, c1]:", "if src[r1, c1] == -1 or d <= dst[r1, c1]:"),
 ("S2", "gis_utils.py", "        if dst[r, c] < d0:", "        if dst[r, c] <= d0:"),
 ("S3", "gis_utils.py", "np.hypot(dr * dy, dc * dx) * f0", "np.hypot(dr * dx, dc * dy) * f0"),
 ("S4", "gis_utils.py", "                src[r, c] = r * ncol + c", "                src[r, c] = r * nrow + c"),
 ("S5", "gis_utils.py", "    if latlon:\n        # row centre", "    if not latlon:\n        # row centre"),
 ("S6", "gis_utils.py", "            for dc in range(-1, 2):", "            for dc in range(-1, 1):"),
 ("S7", "gis_utils.py", "heapq.heappush(q, (np.float32(d), np.uint32(r1), np.uint32(c1)))", "heapq.heappush(q, (np.float32(d0), np.uint32(r1), np.uint32(c1)))"),
 ("S8", "gis_utils.py", "                if outside or (msk is not None and ~msk[r1, c1]):", "                if outside or (msk is not None and msk[r1, c1]):"),
]
only = sys.argv[1:]
for name, fn, old, new in TESTS:
    if only and name not in only:
        continue
    shutil.rmtree(S, ignore_errors=True)
    os.makedirs(S + "/coq/theories"); os.makedirs(S + "/coq/generated")
    shutil.copytree("/tmp/wt_ihu/pyflwdir", S + "/src/pyflwdir")
    shutil.copytree(ROOT + "/tools", S + "/tools", ignore=shutil.ignore_patterns("__pycache__"))
    p = f"{S}/src/pyflwdir/{fn}"; t = open(p).read()
    assert t.count(old) == 1, (name, t.count(old))
    open(p, "w").write(t.replace(old, new))
    for f in glob.glob(ROOT + "/coq/generated/*.v*"):
        if not os.path.basename(f).startswith("GenHeap"):
            shutil.copy2(f, S + "/coq/generated")
    for f in glob.glob(ROOT + "/coq/theories/*.vo"):
        if not os.path.basename(f).startswith("GenHeap"):
            shutil.copy2(f, S + "/coq/theories")
    for f in glob.glob(ROOT + "/coq/theories/GenHeap*Eq.v"):
        shutil.copy2(f, S + "/coq/theories")
    r = subprocess.run(["python3", S + "/tools/gen.py"], env=dict(os.environ, PYFLWDIR_REPO=S + "/src"), capture_output=True, text=True)
    out = json.loads(r.stdout.strip().splitlines()[-1])
    errs = [e for e in out["errors"]]
    if errs:
        print(f"{name}: GenError  {errs}  changed={out['changed']}"); continue
    res = f"changed={out['changed']}"
    for v in ("generated/GenHeap.v", "theories/GenHeapFloodEq.v", "theories/GenHeapSpreadEq.v"):
        c = subprocess.run(["coqc", "-Q", "theories", "PF", "-Q", "generated", "PFG", v], cwd=S + "/coq", capture_output=True, text=True)
        if c.returncode != 0:
            msg = " ".join((c.stderr or c.stdout).split())[:230]
            res += f"  {v}: FAILS  {msg}"; break
        res += f"  {v}: ok;"
    print(f"{name}: {res}")
shutil.rmtree(S, ignore_errors=True)
