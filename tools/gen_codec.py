"""Fail-closed translator for the raster codecs (core_d8 / core_ldd / core_nextxy: from_array, to_array and their helpers):
Python `ast`  ->  Gallina (coq/generated/GenCodec.v).  Registered into gen.GENERATORS on import, like gen_loops.py.

Every statement of a translated function is translated or GenError is raised: nothing is guessed and nothing is skipped.
Each generated definition is proved equal to the hand-written model of theories/Codec.v in theories/GenCodec*Eq.v, so a
change of the source changes the generated text and breaks a proof.

Two shapes of functions are understood (anything else raises GenError):
  loop function     docstring? ; prologue ; ONE `for v in range(<size>):` ; `return ...`
  plain function    docstring? ; straight-line statements with if / else, every path ends in `return`

  prologue   a, b = X.shape | a, b = shape | a = shape[k] | a = X.size | X_flat = X.ravel()      (bindings)
             x = []  |  x = np.full(<size>, core._mv, dtype=...)  |  x = np.full(<size>, <int>, dtype=...)  |  n = <int>
             (the arrays / list / counters updated by the loop: its state, in order of initialisation)
  body       name = expr | a, b = e1, e2 | dr, dc = drdc(x) | name: np.<int type> = expr
             arr[i] = expr | n += expr | lst.append(i) | if / elif / else | continue | raise ValueError("...")
  exprs      names, integer constants, arr[i], table[i, j], table[k], + - * // %, int(.) and np.<int type>(.) casts,
             == != < <= > >=, and / or / not, np.logical_or, `x == mv` for the missing value of index arrays,
             calls of drdc and of functions translated earlier in the same module
  epilogue   return <state> | np.array(<list state>, dtype=...) | <array state>.reshape(shape)  (or a tuple of those)
  plain      a, b = <pair parameter> | a, b = <translated function>(...) | return <expr> | return <translated function>(...)
             | return np.stack([a, b]) | the type guard of core_nextxy.from_array (matched literally)

Conventions of the translation (they are those of the hand models and of gen_loops.py):
  * a 2-D array parameter X is its shape `X_shape : Z * Z` and its row-major content `X : list Z`  (X.ravel() is X,
    X.size is `length X`, X.reshape(shape) is X); `shape` parameters are `Z * Z`; rows / columns are integers (Z) because the
    bounds tests see negative values.
  * index arrays (`idxs_ds`) are `list nat`; their missing value core._mv is NMV := the number of cells, `x == mv` is `NMV <= x`
    (as in gen_loops.py).  Cell numbers (the loop counter, elements of index arrays) are `nat` and enter integer arithmetic
    through Z.of_nat; an integer used as an index or stored into an index array goes through Z.to_nat (the translation, like
    the hand models, is about the in-range accesses: in the source every such access is guarded by the `outside` test; a
    negative literal index, which counts from the end in Python, is rejected).
  * reads are `nth i a 0`; int(.) and np.<int type>(.) are the identity (no overflow modelling: the index type is the matter
    of property C16); a parameter with a default value that is a module constant (`_mv=_mv`) is bound to that constant, i.e. the
    function is translated as it is called with its defaults; `dtype` parameters only occur in dtype= keywords.
  * `raise ValueError(...)` makes the generated function return an option: None is the raised error.
  * module constants (_mv, _ds, _pv) and drdc are the definitions of GenTables.v / GenDrdc.v, which gen.py generates from the
    same module; a constant that is bound or mutated more than once at module level is rejected."""
import ast

import gen
from gen import GenError, fail, parse, find_def, is_np_call, zlit, const_int
from gen_loops import RENAME

MODULES = {"core_d8.py": "d8", "core_ldd.py": "ldd", "core_nextxy.py": "nextxy"}
# module constants that GenTables.v defines (as <prefix><name>) with the Gallina type used here
GLOBALS = {"d8": {"_mv": "Z", "_ds": "tab2"}, "ldd": {"_mv": "Z", "_ds": "tab2"}, "nextxy": {"_mv": "Z", "_pv": "tab1"}}
DRDC = {"d8": "d8_drdc", "ldd": "ldd_drdc"}      # GenDrdc.v
INT_CASTS = ("int8", "uint8", "int32", "intp", "int64", "uint32", "uint64")
RESERVED = {"st", "r", "o", "NMV", "fun", "let", "in", "if", "then", "else", "match", "with", "end", "as", "return", "forall",
            "exists", "fix", "cofix", "Type", "Prop", "Set", "at", "using", "where", "for", "fst", "snd", "nth", "upd", "seq",
            "length", "repeat", "fold_left", "Some", "None", "true", "false", "negb", "nil", "Z", "nat", "bool", "list"}
# names that the translation reads as the builtin / module / function of the same name
BUILTINS = ("np", "int", "core", "range", "drdc", "ValueError", "TypeError", "isinstance", "len", "tuple")
# the type guard of core_nextxy.from_array: the model's input is a pair of 2-D planes by typing
TYPEGUARD = ("not ((isinstance({0}, tuple) and len({0}) == 2) or "
             "(isinstance({0}, np.ndarray) and {0}.ndim == 3 and {0}.shape[0] == 2))")

# parameter types: z2 = 2-D integer array, z = flat integer array, z2pair = pair of equally shaped 2-D arrays, idx = index array,
# shape = (nrow, ncol), Z / nat = integer / cell number, mv = missing value of index arrays (default core._mv, not a Gallina
# parameter), default = bound to the module constant of the same name, skip = dtype
FUNCS = [
    dict(fn="core_d8.py", name="from_array", params={"flwdir": "z2", "_mv": "default", "dtype": "skip"}),
    dict(fn="core_d8.py", name="_downstream_idx", params={"idx0": "nat", "flwdir_flat": "z", "shape": "shape", "mv": "mv"},
         nmv="flwdir_flat", ret="nat"),
    dict(fn="core_d8.py", name="to_array", params={"idxs_ds": "idx", "shape": "shape", "mv": "mv"}),
    dict(fn="core_ldd.py", name="from_array", params={"flwdir": "z2", "_mv": "default", "dtype": "skip"}),
    dict(fn="core_ldd.py", name="_downstream_idx", params={"idx0": "nat", "flwdir_flat": "z", "shape": "shape", "mv": "mv"},
         nmv="flwdir_flat", ret="nat"),
    dict(fn="core_ldd.py", name="to_array", params={"idxs_ds": "idx", "shape": "shape", "mv": "mv"}),
    dict(fn="core_nextxy.py", name="ispit", params={"dd": "Z", "_pv": "default"}),
    dict(fn="core_nextxy.py", name="_from_array", params={"nextx": "z2", "nexty": "z2", "_mv": "default", "dtype": "skip"}),
    dict(fn="core_nextxy.py", name="_to_array", params={"idxs_ds": "idx", "shape": "shape", "mv": "mv"}),
    dict(fn="core_nextxy.py", name="from_array", params={"flwdir": "z2pair", "dtype": "skip"}),
    dict(fn="core_nextxy.py", name="to_array", params={"idxs_ds": "idx", "shape": "shape", "mv": "mv"}),
]
COQTY = {"z": "list Z", "z2": "list Z", "idx": "list nat", "l": "list nat", "Z": "Z", "nat": "nat", "bool": "bool",
         "shape": "Z * Z"}


def global_const(tree, name, fn):
    """the module constant `name` is bound exactly once at module level and never mutated there"""
    hits = 0
    for node in tree.body:
        tgts = node.targets if isinstance(node, ast.Assign) else [node.target] if isinstance(node, (ast.AugAssign, ast.AnnAssign)) else []
        for t in tgts:
            for nd in ast.walk(t):
                if isinstance(nd, ast.Name) and nd.id == name:
                    if not (isinstance(node, ast.Assign) and isinstance(t, ast.Name)):
                        raise GenError(f"{fn}:{node.lineno}: module constant {name} is mutated")
                    hits += 1
    if hits != 1:
        raise GenError(f"{fn}: module constant {name} is bound {hits} times")


def strip_doc(body):
    if body and isinstance(body[0], ast.Expr) and isinstance(body[0].value, ast.Constant) and isinstance(body[0].value.value, str):
        return body[1:]
    return body


def is_cast(e):
    return (isinstance(e, ast.Call) and len(e.args) == 1 and not e.keywords
            and ((isinstance(e.func, ast.Name) and e.func.id == "int") or is_np_call(e, INT_CASTS)))


def int_annotation(a):
    return isinstance(a, ast.Attribute) and isinstance(a.value, ast.Name) and a.value.id == "np" and a.attr in INT_CASTS


class Fn:
    """translation context of one function"""

    def __init__(self, spec, tree, reg):
        self.spec, self.fn, self.tree, self.reg = spec, spec["fn"], tree, reg
        self.pre = MODULES[self.fn]
        self.fd = find_def(tree, spec["name"], self.fn)
        self.coqname = f"gen_{self.pre}_{spec['name']}"
        self.env = {}            # python name -> (coq text, type)
        self.shapeof = {}        # 2-D array name -> coq text of its shape (None: not known)
        self.state = []          # names updated by the loop, in order of initialisation
        self.init = {}
        self.opt = any(isinstance(n, ast.Raise) and not self.is_typeguard_raise(n) for n in ast.walk(self.fd))
        self.assigned = set()
        for n in ast.walk(self.fd):
            if isinstance(n, ast.Name) and isinstance(n.ctx, ast.Store):
                self.assigned.add(n.id)
        for n in ast.walk(self.fd):
            if isinstance(n, (ast.Lambda, ast.FunctionDef, ast.ListComp, ast.DictComp, ast.SetComp, ast.GeneratorExp, ast.Global,
                              ast.Nonlocal, ast.While, ast.Try, ast.With, ast.NamedExpr, ast.Starred, ast.Yield, ast.Await)) and n is not self.fd:
                fail(n, self.fn, f"unsupported construct {type(n).__name__}")
        for n in ast.walk(self.fd):
            nm = n.id if isinstance(n, ast.Name) else n.arg if isinstance(n, ast.arg) else None
            if nm is not None and (nm in RESERVED or nm.endswith("_shape")):
                fail(n, self.fn, f"name {nm} clashes with a name of the generated text")
        for nm in BUILTINS:
            if nm in self.assigned or nm in spec["params"]:
                fail(self.fd, self.fn, f"{nm} is rebound inside the function")
        self.nmv_line = None
        self.ret = spec.get("ret")     # return type: None until the first return of a plain function

    # ---------------------------------------------------------------- header
    def header(self):
        """Gallina binders of the parameters and the bindings that open every definition of this function"""
        a = self.fd.args
        if a.vararg or a.kwarg or a.kwonlyargs or a.posonlyargs:
            fail(self.fd, self.fn, "unsupported parameter kind")
        names = [x.arg for x in a.args]
        if names != list(self.spec["params"]):
            fail(self.fd, self.fn, f"signature of {self.fd.name} changed: {names}")
        defaults = dict(zip(names[len(names) - len(a.defaults):], a.defaults))
        binders, lets, args = [], [], []
        for p, t in self.spec["params"].items():
            d = defaults.get(p)
            if t == "default":
                if not (isinstance(d, ast.Name) and d.id == p and p in GLOBALS[self.pre]):
                    fail(self.fd, self.fn, f"default of {p} is not the module constant {p}")
                global_const(self.tree, p, self.fn)
                lets.append(f"let {p} := {self.pre}{p} in")
                self.env[p] = (p, GLOBALS[self.pre][p])
                continue
            if t == "mv":
                if not (isinstance(d, ast.Attribute) and isinstance(d.value, ast.Name) and d.value.id == "core" and d.attr == "_mv"):
                    fail(self.fd, self.fn, f"default of {p} is not core._mv")
                self.env[p] = ("NMV", "mv")
                continue
            if t == "skip":
                if p != "dtype":
                    fail(self.fd, self.fn, "only dtype parameters are skipped")
                self.env[p] = (p, "skip")
                continue
            if d is not None:
                fail(self.fd, self.fn, f"unexpected default of {p}")
            c = RENAME.get(p, p)
            if t in ("z2", "z2pair"):
                binders.append(f"({c}_shape : Z * Z)")
                args.append(f"{c}_shape")
                self.shapeof[p] = f"{c}_shape"
            binders.append(f"({c} : {'list Z * list Z' if t == 'z2pair' else COQTY[t]})")
            args.append(c)
            self.env[p] = (c, t)
        nmv = self.spec.get("nmv") or next((p for p, t in self.spec["params"].items() if t == "idx"), None)
        if nmv is not None:
            self.nmv_line = f"let NMV := length {self.env[nmv][0]} in"
            lets.insert(0, self.nmv_line)
        return binders, lets, args

    # ---------------------------------------------------------------- expressions
    def lookup(self, e):
        if e.id in self.env:
            c, t = self.env[e.id]
            if t == "skip":
                fail(e, self.fn, f"parameter {e.id} is not modelled")
            return c, t
        if e.id in GLOBALS[self.pre] and e.id not in self.assigned and e.id not in self.spec["params"]:
            global_const(self.tree, e.id, self.fn)
            return f"{self.pre}{e.id}", GLOBALS[self.pre][e.id]
        fail(e, self.fn, f"unknown name {e.id}")

    def toZ(self, c, t, node):
        if t == "Z":
            return c
        if t == "nat":
            return f"(Z.of_nat {c})"
        fail(node, self.fn, f"integer expected, got {t}")

    def exZ(self, e):
        c, t = self.ex(e)
        return self.toZ(c, t, e)

    def tonat(self, c, t, node):
        """a value used as a cell number (array index, element of an index array)"""
        if t == "nat":
            return c
        if t == "Z":
            return f"(Z.to_nat {c})"
        if t == "mv":
            return "NMV"
        fail(node, self.fn, f"cell number expected, got {t}")

    def need_nmv(self, node):
        if self.nmv_line is None:
            fail(node, self.fn, "the missing value of index arrays is used but no index array fixes the number of cells")

    def shape_comp(self, shape, k, node):
        kk = const_int(k, self.fn)
        if kk == 0:
            return f"(fst {shape})", "Z"
        if kk in (1, -1):
            return f"(snd {shape})", "Z"
        fail(node, self.fn, "shape component out of range")

    def ex(self, e):
        """(coq text, type)"""
        if isinstance(e, ast.Constant):
            if isinstance(e.value, bool):
                return ("true" if e.value else "false"), "bool"
            if isinstance(e.value, int):
                return zlit(e.value), "Z"
            fail(e, self.fn, "unsupported constant")
        if isinstance(e, ast.Name):
            return self.lookup(e)
        if isinstance(e, ast.UnaryOp) and isinstance(e.op, ast.USub):
            if isinstance(e.operand, ast.Constant) and type(e.operand.value) is int:
                return zlit(-e.operand.value), "Z"
            return f"(- {self.exZ(e.operand)})%Z", "Z"
        if isinstance(e, ast.UnaryOp) and isinstance(e.op, ast.Not):
            c, t = self.ex(e.operand)
            if t != "bool":
                fail(e, self.fn, "not of a non-boolean")
            return f"(negb {c})", "bool"
        if isinstance(e, ast.Attribute) and isinstance(e.value, ast.Name):
            if e.value.id == "core" and e.attr == "_mv" and "core" not in self.env and "core" not in self.assigned:
                self.need_nmv(e)
                return "NMV", "mv"
            if e.attr == "size" and self.env.get(e.value.id, (None, None))[1] in ("z", "z2", "idx"):
                return f"(length {self.env[e.value.id][0]})", "nat"
            if e.attr == "shape" and self.env.get(e.value.id, (None, None))[1] == "z2":
                if self.shapeof.get(e.value.id) is None:
                    fail(e, self.fn, "shape of this array is not known")
                return self.shapeof[e.value.id], "shape"
            fail(e, self.fn, f"unsupported attribute {e.value.id}.{e.attr}")
        if isinstance(e, ast.Subscript):
            bc, bt = self.ex(e.value)
            if bt in ("z", "z2"):
                return f"(nth {self.tonat(*self.ex_idx(e.slice), e)} {bc} 0%Z)", "Z"
            if bt == "idx":
                self.need_nmv(e)
                return f"(nth {self.tonat(*self.ex_idx(e.slice), e)} {bc} NMV)", "nat"
            if bt == "tab2":
                if not (isinstance(e.slice, ast.Tuple) and len(e.slice.elts) == 2):
                    fail(e, self.fn, "a 3x3 table takes two indices")
                i, j = (self.exZ(x) for x in e.slice.elts)
                return f"(nth (Z.to_nat {j}) (nth (Z.to_nat {i}) {bc} []) 0%Z)", "Z"
            if bt == "tab1":
                k = const_int(e.slice, self.fn)
                if k < 0:
                    fail(e, self.fn, "negative table index")
                return f"(nth {k} {bc} 0%Z)", "Z"
            if bt == "shape":
                return self.shape_comp(bc, e.slice, e)
            fail(e, self.fn, f"subscript of a value of type {bt}")
        if is_cast(e):
            return self.exZ(e.args[0]), "Z"
        if is_np_call(e, ("logical_or",)) and len(e.args) == 2 and not e.keywords:
            (a, ta), (b, tb) = self.ex(e.args[0]), self.ex(e.args[1])
            if (ta, tb) != ("bool", "bool"):
                fail(e, self.fn, "np.logical_or of non-booleans")
            return f"({a} || {b})", "bool"
        if isinstance(e, ast.Call) and isinstance(e.func, ast.Name):
            if e.func.id == "drdc":
                return self.call_drdc(e), "ZZ"
            return self.call(e)
        if isinstance(e, ast.BinOp):
            op = {ast.Add: "+", ast.Sub: "-", ast.Mult: "*", ast.FloorDiv: "/", ast.Mod: "mod"}.get(type(e.op))
            if op is None:
                fail(e, self.fn, f"unsupported operator {type(e.op).__name__}")
            return f"({self.exZ(e.left)} {op} {self.exZ(e.right)})%Z", "Z"
        if isinstance(e, ast.Compare):
            if len(e.ops) != 1:
                fail(e, self.fn, "chained comparison")
            (a, ta), (b, tb), op = self.ex(e.left), self.ex(e.comparators[0]), type(e.ops[0])
            if "mv" in (ta, tb):
                x, tx = (b, tb) if ta == "mv" else (a, ta)
                if tx != "nat" or op not in (ast.Eq, ast.NotEq):
                    fail(e, self.fn, "comparison with the missing value")
                c = f"(NMV <=? {x})%nat"
                return (c if op is ast.Eq else f"(negb {c})"), "bool"
            if ta == "nat" and tb == "nat" and op in (ast.Eq, ast.NotEq):
                c = f"({a} =? {b})%nat"
                return (c if op is ast.Eq else f"(negb {c})"), "bool"
            a, b = self.toZ(a, ta, e), self.toZ(b, tb, e)
            if op is ast.NotEq:
                return f"(negb ({a} =? {b})%Z)", "bool"
            sym = {ast.Eq: "=?", ast.Lt: "<?", ast.LtE: "<=?", ast.Gt: ">?", ast.GtE: ">=?"}.get(op)
            if sym is None:
                fail(e, self.fn, "unsupported comparison")
            return f"({a} {sym} {b})%Z", "bool"
        if isinstance(e, ast.BoolOp):
            op = " && " if isinstance(e.op, ast.And) else " || "
            parts = []
            for v in e.values:
                c, t = self.ex(v)
                if t != "bool":
                    fail(v, self.fn, "non-boolean operand of and / or")
                parts.append(c)
            out = parts[0]
            for p in parts[1:]:
                out = f"({out}{op}{p})"
            return out, "bool"
        fail(e, self.fn, f"unsupported expression {ast.dump(e)[:80]}")

    def ex_idx(self, e):
        """an array index.  A negative literal would count from the end in Python: rejected (an integer variable used as an index
        goes through Z.to_nat: the translation is about the in-range accesses, like the hand models)"""
        if isinstance(e, ast.UnaryOp) and isinstance(e.op, ast.USub):
            fail(e, self.fn, "negative array index")
        c, t = self.ex(e)
        if t not in ("nat", "Z"):
            fail(e, self.fn, "array index is not an integer")
        return c, t

    def call_drdc(self, e):
        if self.pre not in DRDC or "drdc" in self.env or "drdc" in self.assigned or len(e.args) != 1 or e.keywords:
            fail(e, self.fn, "unsupported call of drdc")
        if sum(isinstance(n, ast.FunctionDef) and n.name == "drdc" for n in self.tree.body) != 1:
            fail(e, self.fn, "drdc is not defined exactly once in the module")     # GenDrdc.v translates that definition
        return f"({DRDC[self.pre]} {self.exZ(e.args[0])})"

    def call(self, e):
        """call of a function of the same module that was translated before"""
        callee = self.reg.get((self.fn, e.func.id))
        if callee is None or e.func.id in self.env or e.func.id in self.assigned:
            fail(e, self.fn, f"unsupported call {e.func.id}")
        if callee["opt"]:
            fail(e, self.fn, "call of a function that may raise")
        pnames = list(callee["params"])
        if len(e.args) > len(pnames):
            fail(e, self.fn, "too many arguments")
        actual = dict(zip(pnames, e.args))
        for kw in e.keywords:
            if kw.arg is None or kw.arg not in pnames or kw.arg in actual:
                fail(e, self.fn, "unsupported keyword argument")
            actual[kw.arg] = kw.value
        out = []
        for p, t in callee["params"].items():
            a = actual.get(p)
            if t in ("skip", "mv"):
                if a is not None and not (isinstance(a, ast.Name) and self.env.get(a.id, (None, None))[1] == t):
                    fail(e, self.fn, f"argument {p} is not the caller's own {t} parameter")
                continue
            if t == "default":
                if a is not None:
                    fail(e, self.fn, f"argument {p} overrides the default the callee was translated with")
                continue
            if a is None:
                fail(e, self.fn, f"argument {p} missing")
            c, ta = self.ex(a)
            if t == "z2":
                if ta != "z2" or not isinstance(a, ast.Name) or self.shapeof.get(a.id) is None:
                    fail(e, self.fn, f"argument {p}: a 2-D array of known shape is expected")
                out += [self.shapeof[a.id], c]
            elif t == "z":
                if ta not in ("z", "z2"):
                    fail(e, self.fn, f"argument {p}: array expected")
                out.append(c)
            elif t == "Z":
                out.append(self.toZ(c, ta, a))
            elif t == ta and t in ("idx", "shape", "nat"):
                out.append(c)
            else:
                fail(e, self.fn, f"argument {p}: {t} expected, got {ta}")
        return f"({callee['coq']} {' '.join(out)})", callee["ret"]

    # ---------------------------------------------------------------- statements
    def bind(self, name, c, t, node):
        if name in self.spec["params"]:
            fail(node, self.fn, f"assignment to parameter {name}")
        if name in self.state:
            if t != self.env[name][1]:
                fail(node, self.fn, f"state variable {name} changes type")
        elif name in self.consts:
            fail(node, self.fn, f"loop-carried scalar {name} is not part of the state")
        self.env[name] = (RENAME.get(name, name), t)
        return f"let {RENAME.get(name, name)} := {c} in"

    def lets(self, s):
        """the bindings of a statement that only binds names, else None"""
        if isinstance(s, ast.AnnAssign) and s.simple and isinstance(s.target, ast.Name) and s.value is not None:
            if not int_annotation(s.annotation):
                fail(s, self.fn, "unsupported annotation")
            s = ast.copy_location(ast.Assign(targets=[s.target], value=s.value), s)
        if not (isinstance(s, ast.Assign) and len(s.targets) == 1):
            return None
        t, v = s.targets[0], s.value
        if isinstance(t, ast.Name):
            if isinstance(v, ast.Call) and isinstance(v.func, ast.Attribute) and v.func.attr == "ravel" and not v.args and not v.keywords:
                c, ty = self.ex(v.func.value)
                if ty != "z2":
                    fail(s, self.fn, "ravel of a value that is not a 2-D array")
                return [self.bind(t.id, c, "z", s)]
            c, ty = self.ex(v)
            if ty == "mv":
                c, ty = "NMV", "nat"
            if ty not in ("nat", "Z", "bool"):
                fail(s, self.fn, f"unsupported local value of type {ty}")
            return [self.bind(t.id, c, ty, s)]
        if isinstance(t, ast.Tuple) and all(isinstance(x, ast.Name) for x in t.elts):
            names = [x.id for x in t.elts]
            if len(set(names)) != len(names):
                fail(s, self.fn, "repeated name in a tuple assignment")
            if isinstance(v, ast.Tuple):
                # a, b = x, y with names a, b that do not occur in x, y: sequential bindings
                used = {nd.id for nd in ast.walk(v) if isinstance(nd, ast.Name)}
                if len(v.elts) != len(names) or used & set(names):
                    fail(s, self.fn, "tuple assignment to names in use")
                out = []
                for x, y in zip(t.elts, v.elts):
                    out += self.lets(ast.copy_location(ast.Assign(targets=[x], value=y), s))
                return out
            c, ty = self.ex(v)
            if ty in ("ZZ", "shape") and len(names) == 2:
                for nm in names:
                    self.bind(nm, "", "Z", s)
                return [f"let '({', '.join(RENAME.get(nm, nm) for nm in names)}) := {c} in"]
            if ty == "z2pair" and len(names) == 2 and isinstance(v, ast.Name):
                for nm in names:
                    self.bind(nm, "", "z2", s)
                    self.shapeof[nm] = self.shapeof[v.id]
                return [f"let '({', '.join(RENAME.get(nm, nm) for nm in names)}) := {c} in"]
            if isinstance(ty, tuple) and len(ty) == len(names) and all(x in ("z2", "idx", "l", "Z", "nat", "bool") for x in ty):
                for nm, x in zip(names, ty):
                    self.bind(nm, "", x, s)
                    if x == "z2":
                        self.shapeof[nm] = None
                pat = ", ".join(RENAME.get(nm, nm) for nm in names)
                return [f"let '({pat}) := {c} in"]
            fail(s, self.fn, "unsupported tuple assignment")
        return None

    def result(self):
        tup = self.env[self.state[0]][0] if len(self.state) == 1 else "(" + ", ".join(self.env[x][0] for x in self.state) + ")"
        return f"Some {tup}" if self.opt else tup

    def is_typeguard_raise(self, n):
        return (isinstance(n.exc, ast.Call) and isinstance(n.exc.func, ast.Name) and n.exc.func.id == "TypeError")

    def typeguard(self, s):
        """if not (<the object is a pair of planes>): raise TypeError("...")   for a z2pair parameter"""
        if not (isinstance(s, ast.If) and not s.orelse and len(s.body) == 1 and isinstance(s.body[0], ast.Raise)):
            return None
        r = s.body[0]
        if not (self.is_typeguard_raise(r) and r.cause is None and len(r.exc.args) == 1 and not r.exc.keywords
                and isinstance(r.exc.args[0], ast.Constant) and isinstance(r.exc.args[0].value, str)):
            return None
        for p, t in self.spec["params"].items():
            if t == "z2pair" and ast.dump(s.test) == ast.dump(ast.parse(TYPEGUARD.format(p), mode="eval").body):
                return p
        fail(s, self.fn, "type guard not understood")

    def terminal_last(self, body):
        """continue / raise / return end the block they occur in (block() drops what follows them: it is the continuation of
        an enclosing block, never a statement of the same block)"""
        for k, s in enumerate(body):
            if isinstance(s, (ast.Continue, ast.Raise, ast.Return)) and k != len(body) - 1:
                fail(body[k + 1], self.fn, "unreachable statement")
            if isinstance(s, ast.If):
                self.terminal_last(s.body)
                self.terminal_last(s.orelse)

    def block(self, body, ind, loop):
        pad = " " * ind
        if not body:
            if not loop:
                fail(self.fd, self.fn, "a path of the function ends without return")
            return pad + self.result()
        s, rest = body[0], body[1:]
        if isinstance(s, ast.Continue) and loop:
            return pad + self.result()          # `rest` is the continuation of an enclosing block (see terminal_last)
        if isinstance(s, ast.Raise) and not self.is_typeguard_raise(s):
            x = s.exc
            if not (self.opt and s.cause is None and isinstance(x, ast.Call) and isinstance(x.func, ast.Name) and x.func.id == "ValueError"
                    and len(x.args) == 1 and not x.keywords and isinstance(x.args[0], ast.Constant) and isinstance(x.args[0].value, str)):
                fail(s, self.fn, "unsupported raise")
            return pad + "None"
        if isinstance(s, ast.Return):
            if loop:
                fail(s, self.fn, "return inside the loop")
            return pad + self.ret_value(s)
        ls = self.lets(s)
        if ls is not None:
            return "".join(pad + l + "\n" for l in ls) + self.block(rest, ind, loop)
        if loop and isinstance(s, ast.Assign) and len(s.targets) == 1 and isinstance(s.targets[0], ast.Subscript) and isinstance(s.targets[0].value, ast.Name):
            arr = s.targets[0].value.id
            if arr not in self.state or self.env[arr][1] not in ("idx", "z"):
                fail(s, self.fn, f"store into {arr}, which is not an array of the loop state")
            i = self.tonat(*self.ex_idx(s.targets[0].slice), s)
            c, t = self.ex(s.value)
            v = self.tonat(c, t, s) if self.env[arr][1] == "idx" else self.toZ(c, t, s)
            a = self.env[arr][0]
            return f"{pad}let {a} := upd {a} {i} {v} in\n" + self.block(rest, ind, loop)
        if loop and isinstance(s, ast.AugAssign) and isinstance(s.target, ast.Name) and isinstance(s.op, (ast.Add, ast.Sub)):
            nm = s.target.id
            if nm not in self.state or self.env[nm][1] != "Z":
                fail(s, self.fn, f"{nm} is not an integer of the loop state")
            op = "+" if isinstance(s.op, ast.Add) else "-"
            return f"{pad}let {self.env[nm][0]} := ({self.env[nm][0]} {op} {self.exZ(s.value)})%Z in\n" + self.block(rest, ind, loop)
        if (loop and isinstance(s, ast.Expr) and isinstance(s.value, ast.Call) and isinstance(s.value.func, ast.Attribute)
                and s.value.func.attr == "append" and isinstance(s.value.func.value, ast.Name) and len(s.value.args) == 1 and not s.value.keywords):
            lst = s.value.func.value.id
            if lst not in self.state or self.env[lst][1] != "l":
                fail(s, self.fn, f"{lst} is not a list of the loop state")
            c, t = self.ex(s.value.args[0])
            if t != "nat":
                fail(s, self.fn, "only cell numbers are appended")
            return f"{pad}let {self.env[lst][0]} := {self.env[lst][0]} ++ [{c}] in\n" + self.block(rest, ind, loop)
        if isinstance(s, ast.If):
            g = self.typeguard(s) if not loop else None
            if g is not None:
                return f"{pad}(* type guard: {g} is a pair of 2-D arrays *)\n" + self.block(rest, ind, loop)
            c, t = self.ex(s.test)
            if t != "bool":
                fail(s, self.fn, "non-boolean condition")
            saved = (dict(self.env), dict(self.shapeof))
            a = self.block(list(s.body) + rest, ind + 2, loop)
            self.env, self.shapeof = dict(saved[0]), dict(saved[1])
            b = self.block(list(s.orelse) + rest, ind + 2, loop)
            self.env, self.shapeof = saved
            return f"{pad}if {c} then\n{a}\n{pad}else\n{b}"
        fail(s, self.fn, f"unsupported statement {type(s).__name__}")

    def ret_value(self, s):
        """the value of `return e` of a plain function, of the declared (or first seen) return type"""
        v = s.value
        if v is None:
            fail(s, self.fn, "return without a value")
        if (is_np_call(v, ("stack",)) and len(v.args) == 1 and not v.keywords and isinstance(v.args[0], ast.List) and len(v.args[0].elts) == 2):
            # np.stack([a, b]) of two 2-D arrays: the pair of planes
            parts = [self.ex(x) for x in v.args[0].elts]
            if [t for _, t in parts] != ["z2", "z2"]:
                fail(s, self.fn, "np.stack of values that are not 2-D arrays")
            c, t = "(" + ", ".join(c for c, _ in parts) + ")", ("z2", "z2")
        else:
            c, t = self.ex(v)
        if self.ret == "nat" and t in ("nat", "Z", "mv"):
            c, t = self.tonat(c, t, s), "nat"
        if not (t in ("nat", "Z", "bool") or (isinstance(t, tuple) and all(x in ("z2", "idx", "l", "Z", "nat", "bool") for x in t))):
            fail(s, self.fn, f"unsupported return value of type {t}")
        if self.ret is None:
            self.ret = t
        if self.ret != t:
            fail(s, self.fn, f"return type {t} differs from {self.ret}")
        return c

    @staticmethod
    def coq_type(t):
        if isinstance(t, tuple):
            return " * ".join(COQTY[x] for x in t)
        return COQTY[t]

    # ---------------------------------------------------------------- plain functions
    def plain(self):
        binders, lets, _ = self.header()
        self.consts = set()
        self.terminal_last(self.fd.body)
        body = self.block(strip_doc(list(self.fd.body)), 2, False)
        out = [f"(* {self.fn}: {self.fd.name} *)",
               f"Definition {self.coqname} {' '.join(binders)} : {self.coq_type(self.ret)} :="]
        out += ["  " + l for l in lets]
        return "\n".join(out) + "\n" + body + "."

    # ---------------------------------------------------------------- loop functions
    def loopfn(self):
        binders, lets, args = self.header()
        body = strip_doc(list(self.fd.body))
        fors = [k for k, s in enumerate(body) if isinstance(s, ast.For)]
        if len(fors) != 1 or fors[0] != len(body) - 2 or not isinstance(body[-1], ast.Return):
            fail(self.fd, self.fn, "expected prologue, one for loop, return")
        loop, ret = body[-2], body[-1]
        stored = set()           # names bound or updated inside the loop
        for n in ast.walk(loop):
            if isinstance(n, ast.Name) and isinstance(n.ctx, ast.Store):
                stored.add(n.id)
            if isinstance(n, ast.Call) and isinstance(n.func, ast.Attribute) and n.func.attr == "append" and isinstance(n.func.value, ast.Name):
                stored.add(n.func.value.id)
            if isinstance(n, ast.Subscript) and isinstance(n.ctx, ast.Store) and isinstance(n.value, ast.Name):
                stored.add(n.value.id)
        self.consts = set()      # scalars bound before the loop and not updated by it
        for s in body[:-2]:
            if not (isinstance(s, ast.Assign) and len(s.targets) == 1):
                fail(s, self.fn, "unsupported prologue statement")
            t, v = s.targets[0], s.value
            if isinstance(t, ast.Name) and t.id in self.env:
                fail(s, self.fn, f"{t.id} is bound twice before the loop")
            if isinstance(t, ast.Name) and isinstance(v, ast.List) and not v.elts:
                self.env[t.id] = (RENAME.get(t.id, t.id), "l")
                self.init[t.id] = "(@nil nat)"
                self.state.append(t.id)
                continue
            if isinstance(t, ast.Name) and is_np_call(v, ("full",)):
                if len(v.args) != 2 or any(kw.arg != "dtype" for kw in v.keywords):
                    fail(s, self.fn, "unsupported np.full")
                n, tn = self.ex(v.args[0])
                if tn != "nat":
                    fail(s, self.fn, "np.full: the size is not a number of cells")
                a = v.args[1]
                if isinstance(a, ast.Attribute) and isinstance(a.value, ast.Name) and a.value.id == "core" and a.attr == "_mv":
                    line = f"let NMV := {n} in"
                    if self.nmv_line is None:
                        self.nmv_line = line
                        lets.append(line)
                    elif self.nmv_line != line:
                        fail(s, self.fn, "index arrays of different sizes")
                    self.env[t.id] = (RENAME.get(t.id, t.id), "idx")
                    self.init[t.id] = f"(repeat NMV {n})"
                else:
                    self.env[t.id] = (RENAME.get(t.id, t.id), "z")
                    self.init[t.id] = f"(repeat {self.exZ(a)} {n})"
                self.state.append(t.id)
                continue
            if isinstance(t, ast.Name) and t.id in stored:
                c, ty = self.ex(v)
                if ty != "Z" or any(isinstance(nd, ast.Name) for nd in ast.walk(v)):
                    fail(s, self.fn, "a counter of the loop must start from an integer constant")
                self.env[t.id] = (RENAME.get(t.id, t.id), "Z")
                self.init[t.id] = c
                self.state.append(t.id)
                continue
            ls = self.lets(s)
            if ls is None:
                fail(s, self.fn, "unsupported prologue statement")
            lets += ls
            for nd in ast.walk(t):
                if isinstance(nd, ast.Name):
                    if nd.id in stored:
                        fail(s, self.fn, f"{nd.id} is bound before the loop and again inside it")
                    self.consts.add(nd.id)
        if not self.state:
            fail(self.fd, self.fn, "the loop updates nothing")
        for nm in stored:
            if nm in self.spec["params"] or nm in self.consts:
                fail(loop, self.fn, f"the loop rebinds {nm}")
        # the loop header
        it = loop.iter
        if (loop.orelse or not isinstance(loop.target, ast.Name) or not (isinstance(it, ast.Call) and isinstance(it.func, ast.Name)
                and it.func.id == "range" and len(it.args) == 1 and not it.keywords)):
            fail(loop, self.fn, "unsupported loop header")
        dom, td = self.ex(it.args[0])
        if td != "nat":
            fail(loop, self.fn, "the loop bound is not a number of cells")
        var = loop.target.id
        if var in self.env:
            fail(loop, self.fn, "the loop variable is in use")
        base_env, base_shape = dict(self.env), dict(self.shapeof)
        self.env[var] = (RENAME.get(var, var), "nat")
        self.terminal_last(loop.body)
        bodytxt = self.block(list(loop.body), 4, True)
        self.env, self.shapeof = base_env, base_shape
        types = [COQTY[self.env[x][1]] for x in self.state]
        sttype = " * ".join(types)
        pat = self.env[self.state[0]][0] if len(self.state) == 1 else "'(" + ", ".join(self.env[x][0] for x in self.state) + ")"
        out = [f"(* {self.fn}: {self.fd.name} *)",
               f"Definition {self.coqname}_step {' '.join(binders)} (st : {sttype}) ({RENAME.get(var, var)} : nat) : "
               + (f"option ({sttype})" if self.opt else sttype) + " :="]
        out += ["  " + l for l in lets]
        out.append(f"  let {pat} := st in")
        out.append(bodytxt + ".")
        # the result
        elts = ret.value.elts if isinstance(ret.value, ast.Tuple) else [ret.value]
        rcs, rts = [], []
        for x in elts:
            if isinstance(x, ast.Name) and x.id in self.state and self.env[x.id][1] in ("idx", "Z", "z"):
                rcs.append(self.env[x.id][0])
                rts.append(self.env[x.id][1])
            elif (is_np_call(x, ("array",)) and len(x.args) == 1 and all(kw.arg == "dtype" for kw in x.keywords)
                  and isinstance(x.args[0], ast.Name) and x.args[0].id in self.state and self.env[x.args[0].id][1] == "l"):
                rcs.append(self.env[x.args[0].id][0])
                rts.append("l")
            elif (isinstance(x, ast.Call) and isinstance(x.func, ast.Attribute) and x.func.attr == "reshape" and len(x.args) == 1
                  and not x.keywords and isinstance(x.func.value, ast.Name) and x.func.value.id in self.state
                  and self.env[x.func.value.id][1] == "z" and isinstance(x.args[0], ast.Name)
                  and self.env.get(x.args[0].id, (None, None))[1] == "shape"):
                rcs.append(self.env[x.func.value.id][0])
                rts.append("z2")
            else:
                fail(ret, self.fn, "unsupported return")
        self.ret = tuple(rts) if len(rts) > 1 else rts[0]
        rtype = self.coq_type(self.ret)
        res = rcs[0] if len(rcs) == 1 else "(" + ", ".join(rcs) + ")"
        init = self.init[self.state[0]] if len(self.state) == 1 else "(" + ", ".join(self.init[x] for x in self.state) + ")"
        step = f"{self.coqname}_step {' '.join(args)}"
        out.append(f"Definition {self.coqname} {' '.join(binders)} : " + (f"option ({rtype})" if self.opt else rtype) + " :=")
        out += ["  " + l for l in lets]
        if self.opt:
            out.append(f"  let r := fold_left (fun o {RENAME.get(var, var)} => match o with Some st => {step} st {RENAME.get(var, var)} | None => None end) (seq 0 {dom}) (Some {init}) in")
            out.append(f"  match r with Some {pat} => Some {res} | None => None end.")
        else:
            out.append(f"  let r := fold_left ({step}) (seq 0 {dom}) {init} in")
            out.append(f"  let {pat} := r in {res}.")
        return "\n".join(out)

    def translate(self):
        text = self.loopfn() if any(isinstance(n, ast.For) for n in ast.walk(self.fd)) else self.plain()
        return text, dict(coq=self.coqname, params=self.spec["params"], ret=self.ret, opt=self.opt)


def gen_codec():
    parts = ["(* GENERATED by tools/gen_codec.py from /repo/pyflwdir -- do not edit *)",
             "From Coq Require Import List Arith ZArith Bool.", "Import ListNotations.",
             "From PF Require Import Arr.", "From PFG Require Import GenTables GenDrdc.", ""]
    trees, reg = {}, {}
    # one function that is no longer understood must not take the others (which belong to other properties) with it: it is left
    # out, so that exactly the equality proofs that mention it (or a function calling it) stop compiling
    for spec in FUNCS:
        fn = spec["fn"]
        try:
            tree = trees.setdefault(fn, parse(fn))
            if sum(isinstance(n, ast.FunctionDef) and n.name == spec["name"] for n in tree.body) != 1:
                raise GenError(f"{fn}: {spec['name']} is not defined exactly once")
            text, info = Fn(spec, tree, reg).translate()
        except GenError as e:
            parts += ["(* NOT TRANSLATED: %s.%s -- %s *)" % (fn, spec["name"], str(e).replace("*)", "* )")), ""]
            continue
        reg[(fn, spec["name"])] = info
        parts += [text, ""]
    return "\n".join(parts)


gen.GENERATORS["GenCodec.v"] = gen_codec

if __name__ == "__main__":
    print(gen_codec())
