"""Fail-closed translator for the kernels of core.py that contain `while` loops, `for` loops with `break`, lists used as
stacks / queues and nested loops:  Python `ast`  ->  Gallina (coq/generated/GenCore.v).  Registered into gen.GENERATORS on
import, like gen_codec.py.

Every statement of a translated function is translated or GenError is raised: nothing is guessed and nothing is skipped.
Each generated definition is proved equal to the hand-written model (Rank.v, Trace.v, Ops.v; for path / snap, which have no
hand-written model, to a model stated with Trace.trace) in theories/GenCore*Eq.v, so a change of the source changes the
generated text and breaks a proof.

The translation is a state-passing one.  A function body is a sequence of statements; a loop statement becomes one (or
two) top-level definitions that are generated before the definition of the function:

  for v in <domain>:            (no `break` in the body)
      Definition <f>_loop<k>_step <fixed> <consts> (st : <state>) (v : nat) : <state>     and     fold_left ... <domain> st
  for v in <domain>:            (with `break`)
      Fixpoint <f>_loop<k> <fixed> <consts> (l_ : list nat) (st : <state>) {struct l_} : <state>   (recursion on the domain)
  while <cond>:
      Fixpoint <f>_loop<k> <fixed> <consts> (fuel : nat) (st : <state>) {struct fuel} : option <out>
        := if <cond> then <body> else Some st
      where the end of the body (and `continue`) is  match fuel with O => None | S fuel' => <f>_loop<k> ... fuel' st' end
      and `break` is Some st'.  The fuel counts the jumps back to the loop head, as in the hand models (Rank.walk,
      Trace.trace): with fuel 0 the condition and the body are still evaluated once.  None = the fuel is used up (the
      error value); the fuel that the enclosing definition passes is declared per loop in FUNCS (the amount the hand
      model passes: a length, or a parameter `fuel` of the generated function when the model takes the fuel as a parameter).

  <fixed>    the parameters of the function that are never assigned in it
  <consts>   the other names that are bound at the loop entry and only read by the loop
  <state>    the names that are bound at the loop entry and assigned by the loop (in order of binding): a tuple
  <out>      the state, followed by the names that are first bound inside a `while True` loop and read after it; each of
             them must be bound on every path to every `break` (else GenError)
  a name that is first bound inside a loop is local to one iteration (a read before the binding is an unknown name: GenError).

A definition that contains a while loop, a pop, np.max or a call of such a definition returns an option; None propagates.
None is also the result of the two modelled errors: pop from an empty list, np.max of an empty array.

Statements  name = expr | a, b = e1, e2 | name = [] | name = np.full(size, value, dtype) | np.full((n, d), mv, dtype=...)
            name = np.zeros(size, dtype=...) | name = List()  (numba.typed.List: a list of index arrays)
            name = <translated function>(...) | name = <translated function>(...)[k] | a, b = <translated function>(...)
            name = int(np.max(arr))
            name = upstream_count(idxs_ds, mv=mv)  (the kernel of GenLoops.v)
            arr[i] = expr | arr[i, j] = expr | arr[:] = expr | arr[i] += expr | name += expr | name -= expr
            arr[lst.pop(-1)] = expr | lst.append(expr) | if / elif / else | for | while | break | continue | return
Expressions names, integer constants, float constants with an integer value (lengths are integers, as in Trace.v),
            arr[i], arr[i, j], + - * // %, int(.) and np.<int type>(.) casts, == != < <= > >=, and / or / not,
            len(lst), x in lst, arr.size, x == mv, b == False | True, arr[-1] (the last element of an index array),
            `X is None` / `X is not None` for optional parameters: in `X is None or E`, `X is not None and E`,
            `A if X is None else B` the expression E (B) is translated under `match X with Some X_ => ...` and reads the
            content X_; a read of an optional value outside such a guard is rejected,
            gis_utils.distance(a, b, ncol, latlon, transform) with the function's own parameters: the abstract step length
            `steplen a b` (a parameter of the generated definitions, as in Trace.v and gen_loops.py)
Returns     expr | tuples | np.array(<list>, dtype=...) | arr[:k]

Conventions (those of gen_codec.py / gen_loops.py and of the hand models):
  * index arrays are `list nat` whose missing value mv is NMV := length of the first index-array parameter, or of the one
    declared as `nmv` in FUNCS (`x == mv` is `NMV <= x`); reads are `nth i a NMV`; other integer arrays are `list Z` read with `nth i a 0`; cell numbers are nat and
    enter integer arithmetic through Z.of_nat; an integer used as an index goes through Z.to_nat (the translation is about
    the in-range accesses; a negative literal index is rejected); casts are the identity.  The module constant _mv must be a
    negative integer literal (so that it is never equal to a cell number).
  * a Python list of cell numbers is a Coq list; its orientation is declared in FUNCS (that of the hand model):
    "stack" = the head is the element appended last (append is cons, pop(-1) takes the head), "queue" = the head is the
    element appended first (append is ++ [x]).  The declaration does not change the meaning, only the representation.
  * a `for` loop evaluates its domain once; the array it iterates over must not be assigned in the loop; the loop variable
    may be re-bound in the body (the next iteration takes the next element, as in Python) and is not visible after the loop."""
import ast

import gen
from gen import GenError, fail, parse, find_def, find_assign, const_int, is_np_call, zlit
from gen_codec import global_const, strip_doc, is_cast, INT_CASTS
import gen_loops

SRC = "core.py"
RESERVED = {"st", "r_", "p_", "l_", "fuel", "NMV", "fun", "let", "in", "if", "then", "else", "match", "with", "end", "as",
            "return", "forall", "exists", "fix", "cofix", "Type", "Prop", "Set", "at", "using", "where", "for", "fst", "snd",
            "nth", "upd", "upd2", "seq", "length", "repeat", "fold_left", "ofold", "np_max", "firstn", "rev", "memb", "last",
            "Some", "None", "true", "false", "negb", "nil", "Z", "nat", "bool", "list", "option", "O", "S", "steplen", "mget"}
BUILTINS = ("np", "int", "range", "len", "gis_utils", "List", "upstream_count")

# parameter types: idx = index array, z = integer array, nat = cell number / count, Z = integer, bool, omask = optional
# boolean array, oz = optional integer array, oZ = optional integer, given = optional value of which only `is None` is
# modelled (a boolean <name>_given), mv = missing value of index arrays (default _mv; NMV), skip = not modelled
# lists: orientation of the Python lists; fuel: one entry per while loop in source order: ("len", <name>) or ("param",)
# nmv: the index array whose length is the number of cells (default: the first one); takes_fuel: the function has a
# parameter `fuel` that it passes to the functions it calls
FUNCS = [
    dict(name="rank", params={"idxs_ds": "idx", "mv": "mv"}, lists={"idxs_lst": "stack"},
         fuel=[("len", "idxs_ds"), ("len", "idxs_lst"), ("len", "idxs_lst")]),
    dict(name="loop_indices", params={"idxs_ds": "idx", "mv": "mv"}, lists={"idxs": "queue"}),
    dict(name="_trace", params={"idx0": "nat", "idxs_nxt": "idx", "ncol": "given", "mask": "omask", "max_length": "oZ",
                                "real_length": "bool", "latlon": "skip", "transform": "skip", "mv": "mv"},
         lists={"idxs": "queue"}, fuel=[("param",)]),
    dict(name="_window", params={"idx0": "nat", "n": "nat", "idxs_ds": "idx", "idxs_us_main": "idx", "strord": "oz",
                                 "mv": "mv"}),
    dict(name="upstream_matrix", params={"idxs_ds": "idx", "mv": "mv"}),
    dict(name="idxs_seq", params={"idxs_ds": "idx", "idxs_pit": "idx", "mv": "mv"}, fuel=[("len", "idxs_ds")]),
    dict(name="path", params={"idxs0": "idx", "idxs_nxt": "idx", "ncol": "given", "mask": "omask", "max_length": "oZ",
                              "real_length": "bool", "latlon": "skip", "transform": "skip", "mv": "mv"},
         nmv="idxs_nxt", lists={"paths": "queue"}, takes_fuel=True),
    dict(name="snap", params={"idxs0": "idx", "idxs_nxt": "idx", "ncol": "given", "mask": "omask", "max_length": "oZ",
                              "real_length": "bool", "latlon": "skip", "transform": "skip", "mv": "mv"},
         nmv="idxs_nxt", takes_fuel=True),
]
COQTY = {"nat": "nat", "Z": "Z", "bool": "bool", "z": "list Z", "idx": "list nat", "idx2": "list (list nat)",
         "lq": "list nat", "ls": "list nat", "lql": "list (list nat)", "omask": "option (list bool)", "oz": "option (list Z)", "oZ": "option Z",
         "b": "list bool", "given": "bool"}
OPTIONAL = {"omask": "b", "oz": "z", "oZ": "Z"}        # optional type -> type of the content

PRELUDE = """(* a loop whose body may fail: None propagates *)
Definition ofold {A B : Type} (f : A -> B -> option A) (l : list B) (a : A) : option A :=
  fold_left (fun o x => match o with Some s => f s x | None => None end) l (Some a).
(* np.max: an error on an empty array *)
Definition np_max (l : list Z) : option Z := match l with [] => None | h :: t => Some (fold_left Z.max t h) end.
(* a[i, j] = v *)
Definition upd2 {A : Type} (a : list (list A)) (i j : nat) (v : A) : list (list A) := upd a i (upd (nth i a []) j v)."""


def coq_type(t):
    if isinstance(t, tuple):
        return " * ".join(COQTY[x] for x in t)
    return COQTY[t]


def tup(xs):
    xs = list(xs)
    return xs[0] if len(xs) == 1 else "(" + ", ".join(xs) + ")"


def pat(xs):
    xs = list(xs)
    return xs[0] if len(xs) == 1 else "'(" + ", ".join(xs) + ")"


def names_in(node):
    return {n.id for n in ast.walk(node) if isinstance(n, ast.Name)}


def stored_in(node):
    """the names that the statements under `node` bind or update"""
    out = set()
    for n in ast.walk(node):
        if isinstance(n, ast.Name) and isinstance(n.ctx, ast.Store):
            out.add(n.id)
        if isinstance(n, ast.Subscript) and isinstance(n.ctx, ast.Store) and isinstance(n.value, ast.Name):
            out.add(n.value.id)
        if (isinstance(n, ast.Call) and isinstance(n.func, ast.Attribute) and isinstance(n.func.value, ast.Name)
                and n.func.value.id not in ("np", "gis_utils")):
            out.add(n.func.value.id)          # any method call on a name (append, pop, ...) counts as an update
    return out


def is_none(e):
    return isinstance(e, ast.Constant) and e.value is None


def none_test(e):
    """`X is None` -> (X, True);  `X is not None` -> (X, False);  else None"""
    if (isinstance(e, ast.Compare) and len(e.ops) == 1 and isinstance(e.ops[0], (ast.Is, ast.IsNot))
            and isinstance(e.left, ast.Name) and is_none(e.comparators[0])):
        return e.left.id, isinstance(e.ops[0], ast.Is)
    return None


class Ctx:
    """what the end of a block, `break` and `continue` mean in the definition that is being generated"""

    def __init__(self, kind, state=(), types=(), opt=False, call=None, exports=(), join=None):
        self.kind = kind                  # fn | step | fix | while | join
        self.state, self.types = list(state), list(types)
        self.opt, self.call = opt, call
        self.exports, self.export_types = list(exports), {}
        self.join = join                  # names of a join point
        self.breaks = 0


class Fn:
    """translation context of one function"""

    def __init__(self, spec, tree, reg):
        self.spec, self.fn, self.tree, self.reg = spec, SRC, tree, reg
        self.fd = find_def(tree, spec["name"], self.fn)
        self.coqname = f"gen_{spec['name']}"
        self.env = {}              # python name -> (coq text, type), in order of binding
        self.refined = {}          # optional name -> True inside `match X with Some X_ => ...`
        self.defs = []             # the loop definitions, in order of completion
        self.cache = {}            # id(loop node) -> text of its definitions (a loop may be reached on several paths)
        self.uses_steplen = False
        self.kinds = []            # the kinds of the loop definitions that are being generated, outermost first
        self.ret = None
        fd = self.fd
        for n in ast.walk(fd):
            if isinstance(n, (ast.Lambda, ast.FunctionDef, ast.AsyncFunctionDef, ast.ClassDef, ast.ListComp, ast.DictComp, ast.SetComp,
                              ast.GeneratorExp, ast.Global, ast.Nonlocal, ast.Try, ast.With, ast.NamedExpr, ast.Starred, ast.Yield,
                              ast.YieldFrom, ast.Await, ast.Raise, ast.Assert, ast.Delete, ast.Import, ast.ImportFrom)) and n is not fd:
                fail(n, self.fn, f"unsupported construct {type(n).__name__}")
            if isinstance(n, (ast.While, ast.For)) and n.orelse:
                fail(n, self.fn, "loop with an else clause")
        for n in ast.walk(fd):
            nm = n.id if isinstance(n, ast.Name) else n.arg if isinstance(n, ast.arg) else None
            if nm is not None and (nm in RESERVED or nm.endswith("_given") or nm.startswith("gen_")):
                fail(n, self.fn, f"name {nm} clashes with a name of the generated text")
        self.assigned = stored_in(fd)
        for nm in BUILTINS:
            if nm in self.assigned or nm in spec["params"]:
                fail(fd, self.fn, f"{nm} is rebound inside the function")
        # loops in source order
        loops = sorted((n for n in ast.walk(fd) if isinstance(n, (ast.For, ast.While))), key=lambda n: (n.lineno, n.col_offset))
        self.loopno = {id(n): k + 1 for k, n in enumerate(loops)}
        whiles = [n for n in loops if isinstance(n, ast.While)]
        fuels = spec.get("fuel", [])
        if len(fuels) != len(whiles):
            fail(fd, self.fn, f"{len(whiles)} while loops, {len(fuels)} fuel declarations")
        self.fuel = {id(n): f for n, f in zip(whiles, fuels)}
        self.fuel_param = any(f == ("param",) for f in fuels) or bool(spec.get("takes_fuel"))
        # loads of every name, by node (a read through += counts)
        self.loads = []
        for n in ast.walk(fd):
            if isinstance(n, ast.Name) and isinstance(n.ctx, ast.Load):
                self.loads.append(n)
            if isinstance(n, ast.AugAssign) and isinstance(n.target, ast.Name):
                self.loads.append(n.target)
        self.opt = self.is_opt(fd)

    # ---------------------------------------------------------------- option results
    def is_opt(self, node):
        """does the definition generated for `node` return an option?"""
        for n in ast.walk(node):
            if isinstance(n, ast.While):
                return True
            if isinstance(n, ast.Call):
                if isinstance(n.func, ast.Attribute) and n.func.attr == "pop":
                    return True
                if is_np_call(n, ("max",)):
                    return True
                if isinstance(n.func, ast.Name) and n.func.id in self.reg and self.reg[n.func.id]["opt"]:
                    return True
        return False

    # ---------------------------------------------------------------- header
    def header(self):
        a = self.fd.args
        if a.vararg or a.kwarg or a.kwonlyargs or a.posonlyargs:
            fail(self.fd, self.fn, "unsupported parameter kind")
        names = [x.arg for x in a.args]
        if names != list(self.spec["params"]):
            fail(self.fd, self.fn, f"signature of {self.fd.name} changed: {names}")
        defaults = dict(zip(names[len(names) - len(a.defaults):], a.defaults))
        self.binders, self.fixed = [], []      # (coq name, type) of all / of the never-assigned parameters
        self.nmv = None
        for p, t in self.spec["params"].items():
            d = defaults.get(p)
            if t == "mv":
                if not (isinstance(d, ast.Name) and d.id == "_mv") or p in self.assigned:
                    fail(self.fd, self.fn, f"{p}: the missing value must be a parameter with default _mv that is never assigned")
                global_const(self.tree, "_mv", self.fn)
                if const_int(find_assign(self.tree, "_mv", self.fn), self.fn) >= 0:
                    fail(self.fd, self.fn, "the missing value _mv could be a cell number")     # NMV: never equal to a cell number
                self.env[p] = ("NMV", "mv")
                continue
            if t == "skip":
                if p in self.assigned:
                    fail(self.fd, self.fn, f"parameter {p} is assigned")
                self.env[p] = (p, "skip")
                continue
            if t in OPTIONAL or t == "given":
                if d is not None and not is_none(d):
                    fail(self.fd, self.fn, f"default of the optional parameter {p} is not None")
                if p in self.assigned:
                    fail(self.fd, self.fn, f"optional parameter {p} is assigned")
                if f"{p}_" in names_in(self.fd) | set(names):
                    fail(self.fd, self.fn, f"name {p}_ clashes with a name of the generated text")
            if t not in COQTY:
                fail(self.fd, self.fn, f"unknown parameter type {t}")
            if t in ("idx", "z") and p in self.assigned:
                # the caller would see the update: the generated functions return values only
                fail(self.fd, self.fn, f"the parameter array {p} is updated")
            c = f"{p}_given" if t == "given" else p
            self.binders.append((c, t))
            if p not in self.assigned:
                self.fixed.append((c, t))
            self.env[p] = (c, t)
            if t == "idx" and self.nmv is None and self.spec.get("nmv", p) == p:
                self.nmv = f"let NMV := length {c} in"
                self.nmv_param = p
        if self.nmv is None:
            fail(self.fd, self.fn, "no index array fixes the number of cells")

    def extra_binders(self, kind):
        """the parameter `fuel` of the function is passed on to the definitions of its for loops (a while loop has its own)"""
        return (["(fuel : nat)"] if self.fuel_param and kind != "while" else []) + (["(steplen : nat -> nat -> Z)"] if self.uses_steplen else [])

    def extra_args(self, kind):
        return (["fuel"] if self.fuel_param and kind != "while" else []) + (["steplen"] if self.uses_steplen else [])

    # ---------------------------------------------------------------- expressions
    def lookup(self, e):
        if e.id not in self.env:
            fail(e, self.fn, f"unknown name {e.id}")
        c, t = self.env[e.id]
        if t == "skip":
            fail(e, self.fn, f"parameter {e.id} is not modelled")
        return c, t

    def toZ(self, c, t, node):
        if t == "Z":
            return c
        if t == "nat":
            return f"(Z.of_nat {c})"
        fail(node, self.fn, f"integer expected, got {t}")

    def exZ(self, e):
        return self.toZ(*self.ex(e), e)

    def tonat(self, c, t, node):
        if t == "nat":
            return c
        if t == "Z":
            return f"(Z.to_nat {c})"
        if t == "mv":
            return "NMV"
        fail(node, self.fn, f"cell number expected, got {t}")

    def ex_idx(self, e):
        """an array index as a nat; a negative literal (counting from the end in Python) is rejected"""
        if isinstance(e, ast.UnaryOp) and isinstance(e.op, ast.USub):
            fail(e, self.fn, "negative array index")
        if isinstance(e, (ast.Slice, ast.Tuple)):
            fail(e, self.fn, "unsupported index")
        c, t = self.ex(e)
        if t not in ("nat", "Z"):
            fail(e, self.fn, "array index is not an integer")
        return self.tonat(c, t, e)

    def is_distance(self, e):
        return (isinstance(e, ast.Call) and isinstance(e.func, ast.Attribute) and e.func.attr == "distance"
                and isinstance(e.func.value, ast.Name) and e.func.value.id == "gis_utils")

    def boolseq(self, values, is_or, node):
        """a and b and ... / a or b or ...; a test of an optional value against None guards the operands that follow it"""
        if not values:
            fail(node, self.fn, "empty boolean operation")
        v, rest = values[0], values[1:]
        nt = none_test(v)
        if nt is not None and nt[0] in self.env and self.env[nt[0]][1] in OPTIONAL and not self.refined.get(nt[0]):
            x, isnone = nt
            if not rest:
                return f"(match {self.env[x][0]} with None => {'true' if isnone else 'false'} | Some _ => {'false' if isnone else 'true'} end)"
            if isnone != is_or:
                fail(v, self.fn, "a test against None that does not guard the operands that follow it")
            # X is None or <rest>   |   X is not None and <rest>:  <rest> is evaluated only when X is not None
            saved = (dict(self.env), dict(self.refined))
            cx, tx = self.env[x]
            self.env[x] = (f"{x}_", OPTIONAL[tx])
            self.refined[x] = True
            r = self.boolseq(rest, is_or, node)
            self.env, self.refined = saved
            return f"(match {cx} with None => {'true' if is_or else 'false'} | Some {x}_ => {r} end)"
        c, t = self.ex(v)
        if t != "bool":
            fail(v, self.fn, "non-boolean operand of and / or")
        if not rest:
            return c
        return f"({c} {'||' if is_or else '&&'} {self.boolseq(rest, is_or, node)})"

    def ex(self, e):
        """(coq text, type)"""
        if isinstance(e, ast.Constant):
            if isinstance(e.value, bool):
                return ("true" if e.value else "false"), "bool"
            if isinstance(e.value, int):
                return zlit(e.value), "Z"
            if isinstance(e.value, float) and e.value.is_integer():
                return zlit(int(e.value)), "Z"          # lengths are integers (Trace.v)
            fail(e, self.fn, "unsupported constant")
        if isinstance(e, ast.Name):
            c, t = self.lookup(e)
            if t in OPTIONAL:
                fail(e, self.fn, f"the optional value {e.id} is read outside a test against None")
            if t == "given":
                fail(e, self.fn, f"the value of {e.id} is not modelled")
            return c, t
        if isinstance(e, ast.UnaryOp) and isinstance(e.op, ast.USub):
            if isinstance(e.operand, ast.Constant) and type(e.operand.value) is int:
                return zlit(-e.operand.value), "Z"
            return f"(- {self.exZ(e.operand)})%Z", "Z"
        if isinstance(e, ast.UnaryOp) and isinstance(e.op, ast.Not):
            c, t = self.ex(e.operand)
            if t != "bool":
                fail(e, self.fn, "not of a non-boolean")
            return f"(negb {c})", "bool"
        if isinstance(e, ast.Attribute) and isinstance(e.value, ast.Name):
            if e.attr == "size" and self.env.get(e.value.id, (None, None))[1] in ("z", "idx"):
                return f"(length {self.env[e.value.id][0]})", "nat"
            fail(e, self.fn, f"unsupported attribute {e.value.id}.{e.attr}")
        if isinstance(e, ast.Subscript):
            if not isinstance(e.value, ast.Name):
                fail(e, self.fn, "subscript of an expression")
            bc, bt = self.lookup(e.value)
            if (bt == "idx" and isinstance(e.slice, ast.UnaryOp) and isinstance(e.slice.op, ast.USub)
                    and isinstance(e.slice.operand, ast.Constant) and e.slice.operand.value == 1 and type(e.slice.operand.value) is int):
                return f"(last {bc} NMV)", "nat"          # arr[-1]: the last element (of a non-empty array)
            if bt == "idx2":
                if not (isinstance(e.slice, ast.Tuple) and len(e.slice.elts) == 2):
                    fail(e, self.fn, "a 2-D array takes two indices")
                i, j = (self.ex_idx(x) for x in e.slice.elts)
                return f"(nth {j} (nth {i} {bc} []) NMV)", "nat"
            i = self.ex_idx(e.slice)
            if bt == "z":
                return f"(nth {i} {bc} 0%Z)", "Z"
            if bt == "idx":
                return f"(nth {i} {bc} NMV)", "nat"
            if bt == "b":
                return f"(nth {i} {bc} false)", "bool"
            fail(e, self.fn, f"subscript of a value of type {bt}")
        if is_cast(e):
            return self.exZ(e.args[0]), "Z"
        if self.is_distance(e):
            # gis_utils.distance(a, b, ncol, latlon, transform) with the function's own ncol / latlon / transform
            if not (len(e.args) == 5 and not e.keywords and all(isinstance(x, ast.Name) for x in e.args[2:])
                    and [x.id for x in e.args[2:]] == ["ncol", "latlon", "transform"]
                    and all(x.id in self.spec["params"] and x.id not in self.assigned for x in e.args[2:])
                    and "gis_utils" not in self.env):
                fail(e, self.fn, "unsupported call of gis_utils.distance")
            (a, ta), (b, tb) = self.ex(e.args[0]), self.ex(e.args[1])
            if (ta, tb) != ("nat", "nat"):
                fail(e, self.fn, "gis_utils.distance of values that are not cell numbers")
            self.uses_steplen = True
            return f"(steplen {a} {b})", "Z"
        if isinstance(e, ast.Call) and isinstance(e.func, ast.Name) and e.func.id == "len" and len(e.args) == 1 and not e.keywords:
            c, t = self.ex(e.args[0])
            if t not in ("lq", "ls"):
                fail(e, self.fn, "len of a value that is not a list")
            return f"(Z.of_nat (length {c}))", "Z"
        if isinstance(e, ast.BinOp):
            op = {ast.Add: "+", ast.Sub: "-", ast.Mult: "*", ast.FloorDiv: "/", ast.Mod: "mod"}.get(type(e.op))
            if op is None:
                fail(e, self.fn, f"unsupported operator {type(e.op).__name__}")
            return f"({self.exZ(e.left)} {op} {self.exZ(e.right)})%Z", "Z"
        if isinstance(e, ast.Compare):
            if len(e.ops) != 1:
                fail(e, self.fn, "chained comparison")
            op = type(e.ops[0])
            nt = none_test(e)
            if nt is not None:
                x, isnone = nt
                if x not in self.env:
                    fail(e, self.fn, f"unknown name {x}")
                cx, tx = self.env[x]
                if self.refined.get(x):
                    return ("false" if isnone else "true"), "bool"
                if tx == "given":
                    return (f"(negb {cx})" if isnone else cx), "bool"
                if tx in OPTIONAL:
                    return self.boolseq([e], True, e), "bool"
                fail(e, self.fn, f"test of {x} against None")
            if op in (ast.In, ast.NotIn):
                (a, ta), (b, tb) = self.ex(e.left), self.ex(e.comparators[0])
                if ta != "nat" or tb not in ("lq", "ls"):
                    fail(e, self.fn, "unsupported membership test")
                return (f"(memb {a} {b})" if op is ast.In else f"(negb (memb {a} {b}))"), "bool"
            (a, ta), (b, tb) = self.ex(e.left), self.ex(e.comparators[0])
            if "mv" in (ta, tb):
                x, tx = (b, tb) if ta == "mv" else (a, ta)
                if tx != "nat" or op not in (ast.Eq, ast.NotEq):
                    fail(e, self.fn, "comparison with the missing value")
                c = f"(NMV <=? {x})%nat"
                return (c if op is ast.Eq else f"(negb {c})"), "bool"
            if ta == "bool" and tb == "bool" and op in (ast.Eq, ast.NotEq):
                c = f"(Bool.eqb {a} {b})"
                return (c if op is ast.Eq else f"(negb {c})"), "bool"
            if ta == "nat" and tb == "nat" and op in (ast.Eq, ast.NotEq):
                c = f"({a} =? {b})%nat"
                return (c if op is ast.Eq else f"(negb {c})"), "bool"
            a, b = self.toZ(a, ta, e), self.toZ(b, tb, e)
            if op is ast.NotEq:
                return f"(negb ({a} =? {b})%Z)", "bool"
            sym = {ast.Eq: "=?", ast.Lt: "<?", ast.LtE: "<=?", ast.Gt: ">?", ast.GtE: ">=?"}.get(op)
            if sym is None:
                fail(e, self.fn, "unsupported comparison")
            return f"({a} {sym} {b})%Z", "bool"
        if isinstance(e, ast.BoolOp):
            return self.boolseq(list(e.values), isinstance(e.op, ast.Or), e), "bool"
        if isinstance(e, ast.IfExp):
            # A if X is None else B   |   A if X is not None else B
            nt = none_test(e.test)
            if nt is None or nt[0] not in self.env or self.env[nt[0]][1] not in OPTIONAL or self.refined.get(nt[0]):
                fail(e, self.fn, "unsupported conditional expression")
            x, isnone = nt
            e_none, e_some = (e.body, e.orelse) if isnone else (e.orelse, e.body)
            a, ta = self.ex(e_none)
            saved = (dict(self.env), dict(self.refined))
            cx, tx = self.env[x]
            self.env[x] = (f"{x}_", OPTIONAL[tx])
            self.refined[x] = True
            b, tb = self.ex(e_some)
            self.env, self.refined = saved
            if ta != tb or ta not in ("nat", "Z", "bool"):
                fail(e, self.fn, "branches of a conditional expression of different types")
            return f"(match {cx} with None => {a} | Some {x}_ => {b} end)", ta
        fail(e, self.fn, f"unsupported expression {ast.dump(e)[:80]}")

    # ---------------------------------------------------------------- calls of translated functions
    def call(self, e):
        """call of a function translated earlier: (coq text, type, opt)"""
        if not (isinstance(e, ast.Call) and isinstance(e.func, ast.Name)):
            return None
        f = e.func.id
        if f == "upstream_count":
            # the kernel of GenLoops.v: upstream_count(idxs_ds, mv=mv, mask=None)
            if ("core.py", f) not in gen_loops.KERNELS_T or dict(gen_loops.KERNELS_T[("core.py", f)]) != {"idxs_ds": "idx", "mv": "mv", "mask": "omask"}:
                fail(e, self.fn, "upstream_count is not the kernel that gen_loops.py translates")
            cdef = find_def(self.tree, f, self.fn)
            cpar = [a.arg for a in cdef.args.args]
            cdft = cdef.args.defaults
            if (cpar != ["idxs_ds", "mv", "mask"] or f in self.env or f in self.assigned or len(cdft) != 2
                    or not (isinstance(cdft[0], ast.Name) and cdft[0].id == "_mv") or not is_none(cdft[1])):
                fail(e, self.fn, "signature of upstream_count changed")
            actual = self.actuals(e, cpar)
            a = actual.get("idxs_ds")
            if not (isinstance(a, ast.Name) and self.env.get(a.id, (None, None))[1] == "idx"):
                fail(e, self.fn, "upstream_count: an index array is expected")
            if self.nmv != f"let NMV := length {self.env[a.id][0]} in":
                fail(e, self.fn, "upstream_count of an array that does not fix the number of cells")
            self.own_mv(actual.get("mv"), e)
            if actual.get("mask") is not None and not is_none(actual["mask"]):
                fail(e, self.fn, "upstream_count with a mask")
            return f"(gen_upstream_count {self.env[a.id][0]} None)", "z", False
        callee = self.reg.get(f)
        if callee is None or f in self.env or f in self.assigned:
            return None
        actual = self.actuals(e, list(callee["params"]))
        out = ["fuel"] if callee["fuel_param"] else []
        if callee["fuel_param"] and (not self.fuel_param or "while" in self.kinds):
            fail(e, self.fn, "call of a function that takes fuel from a definition that has no fuel to pass on")
        for p, t in callee["params"].items():
            a = actual.get(p)
            if t == "mv":
                self.own_mv(a, e)
                continue
            if t == "skip":
                if a is not None and not (isinstance(a, ast.Name) and self.env.get(a.id, (None, None))[1] == "skip"):
                    fail(e, self.fn, f"argument {p} is not the caller's own parameter")
                continue
            if a is None:
                fail(e, self.fn, f"argument {p} missing (the defaults are not modelled)")
            if t in OPTIONAL or t == "given":
                if not (isinstance(a, ast.Name) and self.env.get(a.id, (None, None))[1] == t and not self.refined.get(a.id)):
                    fail(e, self.fn, f"argument {p}: the caller's own optional parameter is expected")
                out.append(self.env[a.id][0])
                continue
            c, ta = self.ex(a)
            if t == "idx" and p == callee["nmv"]:
                if self.nmv != f"let NMV := length {c} in":
                    fail(e, self.fn, f"argument {p} does not fix the same number of cells")
            if t == "nat" and ta == "nat" or t == ta:
                out.append(c)
            elif t == "Z":
                out.append(self.toZ(c, ta, a))
            else:
                fail(e, self.fn, f"argument {p}: {t} expected, got {ta}")
        if callee["steplen"]:
            self.uses_steplen = True
            out.append("steplen")
        return f"({callee['coq']} {' '.join(out)})", callee["ret"], callee["opt"]

    def actuals(self, e, pnames):
        if len(e.args) > len(pnames):
            fail(e, self.fn, "too many arguments")
        actual = dict(zip(pnames, e.args))
        for kw in e.keywords:
            if kw.arg is None or kw.arg not in pnames or kw.arg in actual:
                fail(e, self.fn, "unsupported keyword argument")
            actual[kw.arg] = kw.value
        return actual

    def own_mv(self, a, node):
        if a is not None and not (isinstance(a, ast.Name) and self.env.get(a.id, (None, None))[1] == "mv"):
            fail(node, self.fn, "the missing value passed on is not the caller's own")

    # ---------------------------------------------------------------- blocks
    def wrap(self, ctx, c):
        return f"Some {c}" if ctx.opt else c

    def state_tuple(self, ctx, node, names=None):
        names = ctx.state if names is None else names
        for nm, t in zip(ctx.state, ctx.types):
            if nm not in self.env or self.env[nm][1] != t:
                fail(node, self.fn, f"state variable {nm} changes type")
        return tup(self.env[nm][0] for nm in names)

    def out_tuple(self, ctx, node):
        for nm in ctx.exports:
            if nm not in self.env:
                fail(node, self.fn, f"{nm} is read after the loop but is not bound on this way out of it")
            t = self.env[nm][1]
            if t not in ("nat", "Z", "bool") or ctx.export_types.setdefault(nm, t) != t:
                fail(node, self.fn, f"{nm} leaves the loop with different types")
        return self.state_tuple(ctx, node, ctx.state + ctx.exports)

    def goes_on(self, ctx, node, pad):
        """the end of the body of a loop, and `continue`"""
        if ctx.kind == "step":
            return pad + self.wrap(ctx, self.state_tuple(ctx, node))
        if ctx.kind == "fix":
            return pad + f"{ctx.call} l_' {self.state_tuple(ctx, node)}"
        if ctx.kind == "while":
            return pad + f"match fuel with O => None | S fuel' => {ctx.call} fuel' {self.state_tuple(ctx, node)} end"
        fail(node, self.fn, "`continue` outside a loop")

    def fall(self, ctx, node, pad):
        if ctx.kind == "fn":
            fail(node, self.fn, "a path of the function ends without return")
        if ctx.kind == "join":
            for nm, t in zip(ctx.join, ctx.types):
                if self.env[nm][1] != t:
                    fail(node, self.fn, f"{nm} changes type in a branch")
            return pad + tup(self.env[nm][0] for nm in ctx.join)
        return self.goes_on(ctx, node, pad)

    def terminal_last(self, body):
        for k, s in enumerate(body):
            if isinstance(s, (ast.Continue, ast.Break, ast.Return)) and k != len(body) - 1:
                fail(body[k + 1], self.fn, "unreachable statement")
            if isinstance(s, ast.If):
                self.terminal_last(s.body)
                self.terminal_last(s.orelse)
            if isinstance(s, (ast.For, ast.While)):
                self.terminal_last(s.body)

    def bind(self, name, c, t, node):
        if name in self.env and self.env[name][1] in ("mv", "skip", "given") + tuple(OPTIONAL):
            fail(node, self.fn, f"assignment to the parameter {name}")
        if self.refined.get(name):
            fail(node, self.fn, f"assignment to {name} under a test against None")
        self.env[name] = (name, t)
        return f"let {name} := {c} in"

    def simple(self, body):
        """statements that only bind names that are bound already or store into arrays (no control transfer, no loop, no
        statement with an error result): the branches of such an `if` meet in a join point"""
        for s in body:
            if isinstance(s, ast.Assign) and len(s.targets) == 1:
                t, v = s.targets[0], s.value
                if any(isinstance(n, ast.Call) and not is_cast(n) and not self.is_distance(n) for n in ast.walk(s)):
                    return False
                if isinstance(v, (ast.List, ast.Tuple)) or isinstance(t, ast.Tuple):
                    return False
                if isinstance(t, ast.Name) and t.id in self.env:
                    continue
                if isinstance(t, ast.Subscript) and isinstance(t.value, ast.Name) and not isinstance(t.slice, ast.Slice):
                    continue
                return False
            if isinstance(s, ast.AugAssign) and not any(isinstance(n, ast.Call) and not is_cast(n) for n in ast.walk(s)):
                if isinstance(s.target, ast.Name) and s.target.id in self.env:
                    continue
                if isinstance(s.target, ast.Subscript) and isinstance(s.target.value, ast.Name):
                    continue
                return False
            if isinstance(s, ast.If) and self.simple(s.body) and self.simple(s.orelse):
                continue
            return False
        return True

    def assign_value(self, name, v, s, pad, rest_fn, ctx):
        """name = <value>: the special forms of a value first, then plain expressions.  Returns the text of the statement
        followed by the text of the rest of the block (rest_fn())"""
        # name = []
        if isinstance(v, ast.List):
            if v.elts:
                fail(s, self.fn, "unsupported list display")
            o = self.spec.get("lists", {}).get(name)
            if o not in ("stack", "queue"):
                fail(s, self.fn, f"the orientation of the list {name} is not declared")
            return pad + self.bind(name, "(@nil nat)", "ls" if o == "stack" else "lq", s) + "\n" + rest_fn()
        # name = List()     (numba.typed.List: a list of arrays)
        if isinstance(v, ast.Call) and isinstance(v.func, ast.Name) and v.func.id == "List" and not v.args and not v.keywords:
            self.numba_list(s)
            if self.spec.get("lists", {}).get(name) != "queue":
                fail(s, self.fn, f"the orientation of the list {name} is not declared")
            return pad + self.bind(name, "(@nil (list nat))", "lql", s) + "\n" + rest_fn()
        # name = np.zeros(size, dtype=...)
        if is_np_call(v, ("zeros",)):
            if len(v.args) != 1 or [kw.arg for kw in v.keywords] != ["dtype"] or not self.is_dtype(v.keywords[0].value, True):
                fail(s, self.fn, "unsupported np.zeros")
            n = self.tonat(*self.ex(v.args[0]), v.args[0])
            return pad + self.bind(name, f"(repeat 0%Z {n})", "z", s) + "\n" + rest_fn()
        # name = np.full(size, value, dtype)
        if is_np_call(v, ("full",)):
            args = list(v.args)
            kws = {kw.arg: kw.value for kw in v.keywords}
            if len(args) == 3 and not kws:
                kws["dtype"] = args.pop()
            if len(args) != 2 or set(kws) != {"dtype"}:
                fail(s, self.fn, "unsupported np.full")
            if not self.is_dtype(kws["dtype"], False):
                fail(s, self.fn, "unsupported dtype")
            val, tv = self.ex(args[1])
            if isinstance(args[0], ast.Tuple):
                if len(args[0].elts) != 2 or tv != "mv":
                    fail(s, self.fn, "unsupported 2-D np.full")
                n, d2 = (self.tonat(*self.ex(x), x) for x in args[0].elts)
                return pad + self.bind(name, f"(repeat (repeat NMV {d2}) {n})", "idx2", s) + "\n" + rest_fn()
            n = self.tonat(*self.ex(args[0]), args[0])
            if tv == "mv":
                return pad + self.bind(name, f"(repeat NMV {n})", "idx", s) + "\n" + rest_fn()
            return pad + self.bind(name, f"(repeat {self.toZ(val, tv, s)} {n})", "z", s) + "\n" + rest_fn()
        # name = int(np.max(arr))
        w = v
        while is_cast(w):
            w = w.args[0]
        if is_np_call(w, ("max",)):
            if not (len(w.args) == 1 and not w.keywords and isinstance(w.args[0], ast.Name) and self.env.get(w.args[0].id, (None, None))[1] == "z"):
                fail(s, self.fn, "unsupported np.max")
            src = self.env[w.args[0].id][0]
            self.bind(name, "", "Z", s)
            return (f"{pad}match np_max {src} with\n{pad}| None => None\n{pad}| Some {name} =>\n" + rest_fn() + f"\n{pad}end")
        # name = f(...)  |  name = f(...)[k]
        k = None
        w = v
        if isinstance(w, ast.Subscript) and isinstance(w.value, ast.Call) and isinstance(w.slice, ast.Constant) and type(w.slice.value) is int:
            k, w = w.slice.value, w.value
        cl = self.call(w)
        if cl is not None:
            c, t, opt = cl
            if k is not None:
                if not (isinstance(t, tuple) and len(t) == 2 and k in (0, 1)):
                    fail(s, self.fn, "unsupported component of a result")
                proj = ("fst", "snd")[k]
                t = t[k]
            if isinstance(t, tuple):
                fail(s, self.fn, "a tuple result must be taken apart")
            if not opt:
                return pad + self.bind(name, c if k is None else f"({proj} {c})", t, s) + "\n" + rest_fn()
            if k is None:
                self.bind(name, "", t, s)
                return f"{pad}match {c} with\n{pad}| None => None\n{pad}| Some {name} =>\n" + rest_fn() + f"\n{pad}end"
            b = self.bind(name, f"({proj} r_)", t, s)
            return f"{pad}match {c} with\n{pad}| None => None\n{pad}| Some r_ =>\n{pad}{b}\n" + rest_fn() + f"\n{pad}end"
        c, t = self.ex(v)
        if t == "mv":
            c, t = "NMV", "nat"
        if t not in ("nat", "Z", "bool"):
            fail(s, self.fn, f"unsupported local value of type {t}")
        return pad + self.bind(name, c, t, s) + "\n" + rest_fn()

    def block(self, body, ind, ctx):
        pad = " " * ind
        if not body:
            return self.fall(ctx, self.fd, pad)
        s, rest = body[0], body[1:]
        rest_fn = lambda: self.block(rest, ind, ctx)
        if isinstance(s, ast.Continue):
            return self.goes_on(ctx, s, pad)
        if isinstance(s, ast.Break):
            if ctx.kind not in ("fix", "while"):
                fail(s, self.fn, "`break` outside a loop")
            ctx.breaks += 1
            return pad + self.wrap(ctx, self.out_tuple(ctx, s))
        if isinstance(s, ast.Return):
            if ctx.kind != "fn":
                fail(s, self.fn, "return inside a loop or a branch")
            return pad + self.wrap(ctx, self.ret_value(s))
        if isinstance(s, ast.AnnAssign):
            fail(s, self.fn, "annotated assignment")
        if isinstance(s, ast.Assign):
            if len(s.targets) != 1:
                fail(s, self.fn, "chained assignment")
            t, v = s.targets[0], s.value
            if isinstance(t, ast.Name):
                return self.assign_value(t.id, v, s, pad, rest_fn, ctx)
            if isinstance(t, ast.Tuple) and all(isinstance(x, ast.Name) for x in t.elts):
                names = [x.id for x in t.elts]
                if len(set(names)) != len(names):
                    fail(s, self.fn, "repeated name in a tuple assignment")
                if isinstance(v, ast.Tuple):
                    # a, b = x, y with names a, b that do not occur in x, y: sequential bindings
                    if len(v.elts) != len(names) or names_in(v) & set(names):
                        fail(s, self.fn, "tuple assignment to names in use")
                    seqs = [ast.copy_location(ast.Assign(targets=[x], value=y), s) for x, y in zip(t.elts, v.elts)]
                    return self.block(seqs + rest, ind, ctx)
                cl = self.call(v)
                if cl is None or not isinstance(cl[1], tuple) or len(cl[1]) != len(names):
                    fail(s, self.fn, "unsupported tuple assignment")
                c, ty, opt = cl
                for nm, x in zip(names, ty):
                    self.bind(nm, "", x, s)
                if opt:
                    return f"{pad}match {c} with\n{pad}| None => None\n{pad}| Some ({', '.join(names)}) =>\n" + rest_fn() + f"\n{pad}end"
                return f"{pad}let '({', '.join(names)}) := {c} in\n" + rest_fn()
            if isinstance(t, ast.Subscript) and isinstance(t.value, ast.Name):
                return self.store(t, v, s, pad, rest_fn)
            fail(s, self.fn, "unsupported assignment target")
        if isinstance(s, ast.AugAssign) and isinstance(s.op, (ast.Add, ast.Sub)):
            op = "+" if isinstance(s.op, ast.Add) else "-"
            if isinstance(s.target, ast.Name):
                nm = s.target.id
                c, t = self.lookup(s.target)
                if t != "Z":
                    fail(s, self.fn, f"{nm} is not an integer")
                return pad + self.bind(nm, f"({c} {op} {self.exZ(s.value)})%Z", "Z", s) + "\n" + rest_fn()
            if isinstance(s.target, ast.Subscript) and isinstance(s.target.value, ast.Name):
                a, ta = self.lookup(s.target.value)
                if ta != "z":
                    fail(s, self.fn, "+= on an array that is not an integer array")
                i = self.ex_idx(s.target.slice)
                return pad + self.bind(s.target.value.id, f"upd {a} {i} ((nth {i} {a} 0%Z) {op} {self.exZ(s.value)})%Z", "z", s) + "\n" + rest_fn()
            fail(s, self.fn, "unsupported augmented assignment")
        if (isinstance(s, ast.Expr) and isinstance(s.value, ast.Call) and isinstance(s.value.func, ast.Attribute)
                and s.value.func.attr == "append" and isinstance(s.value.func.value, ast.Name) and len(s.value.args) == 1 and not s.value.keywords):
            lst = s.value.func.value.id
            lc, lt = self.lookup(s.value.func.value)
            if lt not in ("lq", "ls", "lql"):
                fail(s, self.fn, f"{lst} is not a list")
            c, t = self.ex(s.value.args[0])
            if t != ("idx" if lt == "lql" else "nat") or not isinstance(s.value.args[0], ast.Name if lt == "lql" else ast.AST):
                fail(s, self.fn, "unsupported element of a list")
            if lt == "lql":
                # the list holds the array itself: it must not be updated in place afterwards
                an = s.value.args[0].id
                for n in ast.walk(self.fd):
                    if isinstance(n, ast.Subscript) and isinstance(n.ctx, ast.Store) and isinstance(n.value, ast.Name) and n.value.id == an:
                        fail(n, self.fn, f"{an} is appended to a list and updated in place")
            new = f"{c} :: {lc}" if lt == "ls" else f"{lc} ++ [{c}]"
            return pad + self.bind(lst, new, lt, s) + "\n" + rest_fn()
        if isinstance(s, ast.If):
            c, t = self.ex(s.test)
            if t != "bool":
                fail(s, self.fn, "non-boolean condition")
            if rest and self.simple(s.body) and self.simple(s.orelse):
                names = [nm for nm in self.env if nm in stored_in(s)]
                if not names:
                    fail(s, self.fn, "a conditional without effect")
                j = Ctx("join", join=names, types=[self.env[nm][1] for nm in names])
                saved = dict(self.env)
                a = self.block(list(s.body), ind + 2, j)
                self.env = dict(saved)
                b = self.block(list(s.orelse), ind + 2, j)
                self.env = saved
                return f"{pad}let {pat(names)} := if {c} then\n{a}\n{pad}else\n{b} in\n" + rest_fn()
            if ctx.kind == "join":
                fail(s, self.fn, "unsupported conditional in a branch")
            saved = dict(self.env)
            a = self.block(list(s.body) + rest, ind + 2, ctx)
            self.env = dict(saved)
            b = self.block(list(s.orelse) + rest, ind + 2, ctx)
            self.env = saved
            return f"{pad}if {c} then\n{a}\n{pad}else\n{b}"
        if isinstance(s, (ast.For, ast.While)):
            if ctx.kind == "join":
                fail(s, self.fn, "loop in a branch")
            return self.loop(s, pad, rest_fn, ctx)
        fail(s, self.fn, f"unsupported statement {type(s).__name__}")

    def store(self, t, v, s, pad, rest_fn):
        arr = t.value.id
        a, ta = self.lookup(t.value)
        # arr[:] = c
        if isinstance(t.slice, ast.Slice):
            if t.slice.lower is not None or t.slice.upper is not None or t.slice.step is not None or ta != "z":
                fail(s, self.fn, "unsupported slice assignment")
            c, tc = self.ex(v)
            if tc != "Z" or names_in(v):
                fail(s, self.fn, "a slice is filled with an integer constant")
            return pad + self.bind(arr, f"repeat {c} (length {a})", "z", s) + "\n" + rest_fn()
        # arr[lst.pop(-1)] = v
        i = t.slice
        if isinstance(i, ast.Call) and isinstance(i.func, ast.Attribute) and i.func.attr == "pop":
            if not (isinstance(i.func.value, ast.Name) and len(i.args) == 1 and not i.keywords and isinstance(i.args[0], ast.UnaryOp)
                    and isinstance(i.args[0].op, ast.USub) and isinstance(i.args[0].operand, ast.Constant) and i.args[0].operand.value == 1
                    and type(i.args[0].operand.value) is int):
                fail(s, self.fn, "unsupported pop")
            lst = i.func.value.id
            lc, lt = self.lookup(i.func.value)
            if lt != "ls":
                fail(s, self.fn, f"pop(-1) from {lst}, which is not a list with the orientation of a stack")
            if lst in names_in(v) or arr == lst:
                fail(s, self.fn, "the value stored depends on the list that is popped")
            c, tc = self.ex(v)            # Python evaluates the value first, then pops
            val = self.elem(ta, c, tc, s)
            self.bind(lst, "", lt, s)
            b = self.bind(arr, f"upd {a} p_ {val}", ta, s)
            return f"{pad}match {lc} with\n{pad}| [] => None\n{pad}| p_ :: {lst} =>\n{pad}{b}\n" + rest_fn() + f"\n{pad}end"
        c, tc = self.ex(v)
        if ta == "idx2":
            if not (isinstance(i, ast.Tuple) and len(i.elts) == 2):
                fail(s, self.fn, "a 2-D array takes two indices")
            r, k = (self.ex_idx(x) for x in i.elts)
            return pad + self.bind(arr, f"upd2 {a} {r} {k} {self.tonat(c, tc, s)}", ta, s) + "\n" + rest_fn()
        if ta not in ("z", "idx"):
            fail(s, self.fn, f"store into {arr}, which is not an array")
        return pad + self.bind(arr, f"upd {a} {self.ex_idx(i)} {self.elem(ta, c, tc, s)}", ta, s) + "\n" + rest_fn()

    def is_dtype(self, d, floats):
        """np.<int type> | <array>.dtype | (for arrays of lengths, which are integers in the models) np.float32 / np.float64"""
        return (isinstance(d, ast.Attribute) and isinstance(d.value, ast.Name)
                and (d.value.id == "np" and (d.attr in INT_CASTS or floats and d.attr in ("float32", "float64"))
                     or d.attr == "dtype" and self.env.get(d.value.id, (None, None))[1] in ("idx", "z")))

    def numba_list(self, node):
        """`List` is numba.typed.List"""
        imps = [n for n in self.tree.body if isinstance(n, ast.ImportFrom) and any((a.asname or a.name) == "List" for a in n.names)]
        if (len(imps) != 1 or imps[0].module != "numba.typed" or imps[0].level != 0
                or [(a.name, a.asname) for a in imps[0].names if (a.asname or a.name) == "List"] != [("List", None)]):
            fail(node, self.fn, "List is not numba.typed.List")
        global_names = stored_in(ast.Module(body=[n for n in self.tree.body if not isinstance(n, (ast.FunctionDef, ast.ImportFrom))], type_ignores=[]))
        if "List" in global_names or sum(isinstance(n, ast.FunctionDef) and n.name == "List" for n in self.tree.body):
            fail(node, self.fn, "List is rebound in the module")

    def elem(self, ta, c, tc, node):
        if ta == "idx":
            return self.tonat(c, tc, node)
        if ta == "z":
            return self.toZ(c, tc, node)
        fail(node, self.fn, "store into a value that is not an array")

    # ---------------------------------------------------------------- loops
    def domain(self, it, node, stored):
        """the list a for loop runs over (evaluated once)"""
        if isinstance(it, ast.Call) and isinstance(it.func, ast.Name) and it.func.id == "range" and len(it.args) == 1 and not it.keywords:
            return f"(seq 0 {self.tonat(*self.ex(it.args[0]), it)})"
        if isinstance(it, ast.Name) and self.env.get(it.id, (None, None))[1] == "idx":
            if it.id in stored:
                fail(node, self.fn, "the loop assigns the array it runs over")
            return self.env[it.id][0]
        if (isinstance(it, ast.Subscript) and isinstance(it.value, ast.Name) and self.env.get(it.value.id, (None, None))[1] == "idx2"
                and isinstance(it.slice, ast.Tuple) and len(it.slice.elts) == 2 and isinstance(it.slice.elts[1], ast.Slice)
                and it.slice.elts[1].lower is None and it.slice.elts[1].upper is None and it.slice.elts[1].step is None):
            if it.value.id in stored:
                fail(node, self.fn, "the loop assigns the array it runs over")
            return f"(nth {self.ex_idx(it.slice.elts[0])} {self.env[it.value.id][0]} [])"
        fail(node, self.fn, "unsupported loop domain")

    def loop(self, s, pad, rest_fn, ctx):
        isfor = isinstance(s, ast.For)
        k = self.loopno[id(s)]
        name = f"{self.coqname}_loop{k}"
        stored = stored_in(s)
        for nm in stored:
            if nm in self.env and self.env[nm][1] in ("mv", "skip", "given") + tuple(OPTIONAL):
                fail(s, self.fn, f"the loop assigns the parameter {nm}")
        if isfor:
            if not isinstance(s.target, ast.Name):
                fail(s, self.fn, "unsupported loop target")
            var = s.target.id
            if var in self.env:
                fail(s, self.fn, f"the loop variable {var} is in use")
            stored = stored - {var}
        inside = {id(n) for n in ast.walk(s)}
        # reads after the loop in source order (a read before it can only follow the loop in a later iteration of an enclosing
        # loop, where the name is bound again or unknown)
        end = (s.end_lineno, s.end_col_offset)
        loaded_out = {n.id for n in self.loads if id(n) not in inside and (n.lineno, n.col_offset) >= end}
        loaded_in = {n.id for st_ in s.body for n in ast.walk(st_) if isinstance(n, ast.Name)}      # the domain of a for loop is
        if not isfor:                                                                                 # evaluated outside
            loaded_in |= names_in(s.test)
        state = [nm for nm in self.env if nm in stored]
        types = [self.env[nm][1] for nm in state]
        if not state:
            fail(s, self.fn, "the loop updates nothing")
        for t in types:
            if t not in COQTY:
                fail(s, self.fn, "unsupported type of a state variable")
        exports = sorted(nm for nm in stored if nm not in self.env and nm in loaded_out)
        while_true = (not isfor) and isinstance(s.test, ast.Constant) and s.test.value is True
        if exports and not while_true:
            fail(s, self.fn, f"{exports[0]} is bound inside a loop that may run zero times and read after it")
        fixed = [(c, t) for c, t in self.fixed]
        fixed_py = {p for p in self.spec["params"] if p not in self.assigned}
        consts = [nm for nm in self.env if nm in loaded_in and nm not in stored and nm not in fixed_py]
        for nm in consts:
            if self.env[nm][1] not in COQTY:
                fail(s, self.fn, f"unsupported type of {nm}")
        opt = self.is_opt(s)
        entry = dict(self.env)
        has_break = any(isinstance(n, ast.Break) for n in self.own_nodes(s))
        if isfor:
            dom = self.domain(s.iter, s, stored_in(s))
            kind = "fix" if has_break else "step"
            fuel_arg = None
        else:
            kind = "while"
            fuel_arg = self.fuel_text(self.fuel[id(s)], s)
        defname = name + ("_step" if kind == "step" else "")
        fargs = [c for c, _ in fixed]
        cargs = [self.env[nm][0] for nm in consts]
        inner = Ctx(kind, state=state, types=types, opt=opt, exports=exports)
        # the body
        self.env = dict(entry)
        if isfor:
            self.env[var] = (var, "nat")
        lines = []
        if kind == "while" and not while_true:
            c, t = self.ex(s.test)
            if t != "bool":
                fail(s, self.fn, "non-boolean loop condition")
        # `call` is completed below (steplen is known only after the body is translated): a placeholder is substituted
        inner.call = "\0CALL\0"
        self.kinds.append(kind)
        body = self.block(list(s.body), 6 if kind == "fix" else 4, inner)
        self.kinds.pop()
        if kind == "while" and not while_true:
            self.env = dict(entry)
            body = f"  if {c} then\n{body}\n  else\n    Some {self.state_tuple(inner, s)}"
        if kind == "while" and while_true and inner.breaks == 0:
            fail(s, self.fn, "`while True` without break")
        self.env = entry
        call = " ".join([defname] + fargs + self.extra_args(kind) + cargs)
        body = body.replace("\0CALL\0", call)
        sttype = " * ".join(COQTY[t] for t in types)
        for nm in exports:
            if nm not in inner.export_types:
                fail(s, self.fn, f"{nm} is read after the loop but never leaves it")
        outtypes = types + [inner.export_types[nm] for nm in exports]
        outtype = " * ".join(COQTY[t] for t in outtypes)
        rtype = f"option ({outtype})" if opt else outtype
        binders = [f"({c} : {COQTY[t]})" for c, t in fixed] + self.extra_binders(kind) + [f"({self.env[nm][0]} : {COQTY[self.env[nm][1]]})" for nm in consts]
        spat = pat(self.env[nm][0] for nm in state)
        if kind == "step":
            text = (f"Definition {defname} {' '.join(binders)} (st : {sttype}) ({var} : nat) : {rtype} :=\n"
                    f"  {self.nmv}\n  let {spat} := st in\n{body}.")
        elif kind == "fix":
            text = (f"Fixpoint {defname} {' '.join(binders)} (l_ : list nat) (st : {sttype}) {{struct l_}} : {rtype} :=\n"
                    f"  {self.nmv}\n  match l_ with\n  | [] => {self.wrap(inner, 'st')}\n  | {var} :: l_' =>\n    let {spat} := st in\n{body}\n  end.")
        else:
            text = (f"Fixpoint {defname} {' '.join(binders)} (fuel : nat) (st : {sttype}) {{struct fuel}} : {rtype} :=\n"
                    f"  {self.nmv}\n  let {spat} := st in\n{body}.")
        if id(s) in self.cache:
            if self.cache[id(s)] != text:
                fail(s, self.fn, "the loop is reached on two paths with different translations")
        else:
            self.cache[id(s)] = text
            self.defs.append(text)
        # the loop in the enclosing definition
        init = tup(self.env[nm][0] for nm in state)
        for nm in exports:
            self.env[nm] = (nm, inner.export_types[nm])
        opat = ", ".join(self.env[nm][0] for nm in state + exports)
        opat = f"({opat})" if len(state + exports) > 1 else opat
        if kind == "step":
            run = f"ofold ({call}) {dom} {init}" if opt else f"fold_left ({call}) {dom} {init}"
        elif kind == "fix":
            run = f"{call} {dom} {init}"
        else:
            run = f"{call} {fuel_arg} {init}"
        if opt:
            if not ctx.opt:
                fail(s, self.fn, "internal: a loop with an error result in a definition without")
            return f"{pad}match {run} with\n{pad}| None => None\n{pad}| Some {opat} =>\n" + rest_fn() + f"\n{pad}end"
        return f"{pad}let {pat(self.env[nm][0] for nm in state)} := {run} in\n" + rest_fn()

    def fuel_text(self, f, s):
        """the fuel that the enclosing definition passes to the while loop `s` (declared in FUNCS)"""
        if f == ("param",):
            return "fuel"
        if f[0] == "len" and f[1] in self.env and self.env[f[1]][1] in ("idx", "z", "lq", "ls"):
            return f"(length {self.env[f[1]][0]})"
        fail(s, self.fn, f"fuel declaration {f} not understood")

    def own_nodes(self, loop):
        """the nodes of the body of `loop` that are not inside a nested loop"""
        out = []

        def walk(n):
            for c in ast.iter_child_nodes(n):
                out.append(c)
                if not isinstance(c, (ast.For, ast.While)):
                    walk(c)
        for st in loop.body:
            out.append(st)
            if not isinstance(st, (ast.For, ast.While)):
                walk(st)
        return out

    # ---------------------------------------------------------------- results
    def ret_one(self, v, s):
        # np.array(<list>, dtype=...)
        if is_np_call(v, ("array",)) and len(v.args) == 1 and all(kw.arg == "dtype" for kw in v.keywords):
            c, t = self.ex(v.args[0])
            if t == "lq":
                return c, "idx"
            if t == "ls":
                return f"(rev {c})", "idx"
            fail(s, self.fn, "np.array of a value that is not a list")
        # arr[:k]
        if (isinstance(v, ast.Subscript) and isinstance(v.value, ast.Name) and isinstance(v.slice, ast.Slice) and v.slice.lower is None
                and v.slice.step is None and v.slice.upper is not None):
            a, ta = self.lookup(v.value)
            if ta not in ("idx", "z"):
                fail(s, self.fn, "slice of a value that is not an array")
            if isinstance(v.slice.upper, ast.UnaryOp):
                fail(s, self.fn, "negative slice bound")
            return f"(firstn {self.tonat(*self.ex(v.slice.upper), s)} {a})", ta
        c, t = self.ex(v)
        if t not in ("nat", "Z", "bool", "z", "idx", "idx2", "lql"):
            fail(s, self.fn, f"unsupported return value of type {t}")
        return c, t

    def ret_value(self, s):
        v = s.value
        if v is None:
            fail(s, self.fn, "return without a value")
        if isinstance(v, ast.Tuple):
            parts = [self.ret_one(x, s) for x in v.elts]
            c, t = tup(c for c, _ in parts), tuple(t for _, t in parts)
        else:
            c, t = self.ret_one(v, s)
        if self.ret is None:
            self.ret = t
        if self.ret != t:
            fail(s, self.fn, f"return type {t} differs from {self.ret}")
        return c

    # ---------------------------------------------------------------- the function
    def translate(self):
        self.header()
        body = strip_doc(list(self.fd.body))
        self.terminal_last(body)
        text = self.block(body, 2, Ctx("fn", opt=self.opt))
        if self.ret is None:
            fail(self.fd, self.fn, "no return")
        binders = (["(fuel : nat)"] if self.fuel_param else []) + [f"({c} : {COQTY[t]})" for c, t in self.binders] + self.extra_binders("while")
        rtype = coq_type(self.ret)
        out = [f"(* {self.fn}: {self.fd.name} *)"] + self.defs
        out.append(f"Definition {self.coqname} {' '.join(binders)} : " + (f"option ({rtype})" if self.opt else rtype) + " :=")
        out.append(f"  {self.nmv}")
        nmv = self.nmv_param
        return "\n".join(out) + "\n" + text + ".", dict(coq=self.coqname, params=self.spec["params"], ret=self.ret, opt=self.opt,
                                                         fuel_param=self.fuel_param, steplen=self.uses_steplen, nmv=nmv)


def gen_core():
    parts = ["(* GENERATED by tools/gen_core.py from /repo/pyflwdir -- do not edit *)",
             "From Coq Require Import List Arith ZArith Bool.", "Import ListNotations.",
             "From PF Require Import Arr.", "From PFG Require Import GenLoops.", "", PRELUDE, ""]
    tree, reg = parse(SRC), {}
    # one function that is no longer understood must not take the others (which belong to other properties) with it: it is left
    # out, so that exactly the equality proofs that mention it (or a function calling it) stop compiling
    for spec in FUNCS:
        try:
            if sum(isinstance(n, ast.FunctionDef) and n.name == spec["name"] for n in tree.body) != 1:
                raise GenError(f"{SRC}: {spec['name']} is not defined exactly once")
            text, info = Fn(spec, tree, reg).translate()
        except GenError as e:
            parts += ["(* NOT TRANSLATED: %s -- %s *)" % (spec["name"], str(e).replace("*)", "* )")), ""]
            continue
        reg[spec["name"]] = info
        parts += [text, ""]
    return "\n".join(parts)


gen.GENERATORS["GenCore.v"] = gen_core

if __name__ == "__main__":
    print(gen_core())
