"""C16 — results do not depend on the integer type used for cell indices."""
import numpy as np
import nets

PID = "C16"
THEOREMS = ["dtype_selection_sound", "sentinel_roundtrip", "selected_roundtrip", "usub_wraps", "usub_ok", "dtype_thresholds"]
RULE = ("random loop-free D8 rasters (2x2 .. 7x7, nodata, many basins) are wrapped into FlwdirRaster objects whose "
        "downstream indices are int32, int64, uint32 and uint64 (sentinel -1 or the type's maximum); ~45 public "
        "operations are run on all four and every result must equal the int32 result (index outputs compared with the "
        "sentinel mapped to -1); operations: ordering, rank, pits, main upstream, stream orders, accumulation, basins and "
        "sub-basins, outlets, paths/snaps, fill/downstream/upstream_sum/moving windows, stream distance, HAND, floodplains, "
        "dem_adjust, dem_dig_d4, streams/vectorize, unit catchments and river statistics, upscaling (4 methods) with the "
        "connection check, to_array (3 formats), add_pits, repair_loops, inflow/outflow, dump/load; non-trivial = raster "
        "has links")
ASSUMPTIONS = ["the theorem part covers dtype selection, the sentinel round trip and same-type unsigned subtraction; that the "
               "kernels behave identically on all four types is decided by this differential run (NumPy promotion is not modelled)"]
DTYPES = ["int32", "int64", "uint32", "uint64"]


def corpus():
    # round-6 seed C16-r6bug1: a coarse cell without outlet pixel (the sentinel in the outlet array) and a stream that turns in the
    # bottom-right pixel of the raster without that pixel being an outlet: the connection check must not depend on where the
    # sentinel sorts
    N, E, S, X, P = 64, 1, 4, 247, 0
    d8 = [X, X, X, E, E, P,
          X, X, X, E, E, N,
          X, X, X, E, E, N,
          S, S, S, S, S, N,
          S, S, S, S, S, N,
          E, E, E, E, E, N]
    return [{"k": 1600, "args": [[-1 - j]], "call": {"nr": 6, "nc": 6, "flw": d8, "seed": 11 + j, "cs": 3}, "group": "corpus-sentinel-sorts-first"} for j in range(2)]


def cases(tier, rng):
    n = 60 if tier == "quick" else 500
    for t in range(n):
        nr, nc = nets.rshape(rng, 2, 7)
        if t % 3 == 0:
            nr, nc = rng.randint(4, 9), rng.randint(4, 9)
        flw = nets.random_d8_raster(rng, nr, nc, p_nodata=rng.choice([0, 0.1, 0.25]))
        if t % 3 == 0:
            # blocks of missing cells: coarse cells without outlet pixel, i.e. the sentinel inside outlet arrays (round-6 seeds)
            from props_c09 import _punch
            flw = _punch(rng, flw, nr, nc)
        ds = nets.d8_decode(flw, nr, nc)
        if not nets.pits(ds) or sum(1 for d in ds if d >= 0) < 2:
            continue
        yield {"k": 1600, "args": [[t]], "call": {"nr": nr, "nc": nc, "flw": flw, "seed": rng.randrange(10**9)}, "group": f"raster-{nr}x{nc}"}


def _canon(v, n):
    """canonical python value; integer arrays that may hold a sentinel are mapped through `idx`"""
    if isinstance(v, tuple) or isinstance(v, list):
        return [_canon(x, n) for x in v]
    if isinstance(v, dict):
        return {k: _canon(x, n) for k, x in sorted(v.items())}
    if isinstance(v, np.ndarray):
        if v.dtype.kind in "iu":
            out = []
            for x in v.ravel().tolist():
                x = int(x)
                out.append(-1 if (x == 4294967295 or x == 18446744073709551615 or x == -1) else x)
            return [list(v.shape), out]
        if v.dtype.kind == "b":
            return [list(v.shape), [int(x) for x in v.ravel()]]
        return [list(v.shape), [("nan" if x != x else float(x)) for x in v.ravel().tolist()]]
    if isinstance(v, (np.integer,)):
        x = int(v)
        return -1 if x in (4294967295, 18446744073709551615) else x
    if isinstance(v, (np.floating, float)):
        return "nan" if v != v else float(v)
    if isinstance(v, (bool, np.bool_)):
        return bool(v)
    return v if isinstance(v, (int, str, type(None))) else str(type(v))


def _ops(nr, nc, ds, rng, cs_fixed=None):
    """list of (name, callable(flw) -> value)"""
    n = nr * nc
    R = lambda a: np.asarray(a).reshape(nr, nc)
    valid = [i for i in range(n) if ds[i] >= 0]
    elv = R([rng.randint(0, 20) for _ in range(n)]).astype(np.float32)
    data = R([(-9999 if rng.random() < 0.2 else rng.randint(0, 9)) for _ in range(n)]).astype(np.float64)
    full = R([rng.randint(1, 9) for _ in range(n)]).astype(np.float64)
    mask = R([rng.random() < 0.3 for _ in range(n)])
    starts = np.array(rng.sample(valid, min(3, len(valid))))
    outl = np.array(rng.sample(valid, min(3, len(valid))))
    ids = np.arange(5, 5 + outl.size, dtype=np.uint32)
    cs = rng.choice([2, 3])
    if cs_fixed:
        cs = cs_fixed
    upa0 = R([rng.randint(0, 2) for _ in range(n)]).astype(np.float64)       # zeros: the threshold of main_upstream
    ops = [
        ("main_upstream_zero", lambda f: f.main_upstream(uparea=upa0)),
        ("main_upstream_acc0", lambda f: f.main_upstream(uparea=f.upstream_area() - 1)),
        ("classic_zero", lambda f: f.stream_order(type="classic", mask=upa0 > 0)),
        ("moving_average3", lambda f: f.moving_average(full, 3)), ("moving_median2", lambda f: f.moving_median(full, 2)),
        ("subbasins_area_zero", lambda f: f.subbasins_area(2, uparea=upa0 + 1)),
        ("vector_zero_area", lambda f: _vector(f, upa0)),
        ("idxs_seq_walk", lambda f: (f.order_cells("walk"), sorted(int(x) for x in f.idxs_seq))[1]),
        ("idxs_seq_sort", lambda f: (f.order_cells("sort"), sorted(int(x) for x in f.idxs_seq))[1]),
        ("rank", lambda f: f.rank), ("isvalid", lambda f: f.isvalid), ("idxs_pit", lambda f: f.idxs_pit), ("nnodes", lambda f: f.nnodes),
        ("n_upstream", lambda f: f.n_upstream), ("idxs_us_main", lambda f: f.idxs_us_main),
        ("strahler", lambda f: f.stream_order()), ("classic", lambda f: f.stream_order(type="classic")),
        ("strahler_mask", lambda f: f.stream_order(mask=f.upstream_area() > 1)),
        ("uparea_cell", lambda f: f.upstream_area()), ("uparea_km2", lambda f: f.upstream_area("km2")),
        ("accuflux", lambda f: f.accuflux(full)), ("accuflux_down", lambda f: f.accuflux(full, direction="down")),
        ("basins", lambda f: f.basins()), ("basins_idxs", lambda f: f.basins(idxs=outl, ids=ids)),
        ("basin_outlets", lambda f: f.basin_outlets(f.basins())),
        ("subbasins_streamorder", lambda f: f.subbasins_streamorder(min_sto=1)),
        ("subbasins_area", lambda f: f.subbasins_area(3, uparea=f.upstream_area())),
        ("subbasins_pfafstetter", lambda f: f.subbasins_pfafstetter(depth=1, uparea=f.upstream_area(), upa_min=0)[0] > 0),
        ("path_down", lambda f: f.path(idxs=starts)), ("path_up", lambda f: f.path(idxs=starts, direction="up")),
        ("snap_mask", lambda f: f.snap(idxs=starts, mask=mask)), ("snap_maxlen", lambda f: f.snap(idxs=starts, max_length=2)),
        ("fill_up", lambda f: f.fillnodata(data, -9999, direction="up")), ("fill_down", lambda f: f.fillnodata(data, -9999, direction="down", how="min")),
        ("downstream", lambda f: f.downstream(full)), ("upstream_sum", lambda f: f.upstream_sum(full)),
        ("moving_average", lambda f: f.moving_average(data, 2)), ("moving_median", lambda f: f.moving_median(data, 1, restrict_strord=True)),
        ("stream_distance", lambda f: f.stream_distance()), ("stream_distance_m", lambda f: f.stream_distance(mask=mask, unit="m")),
        ("hand", lambda f: f.hand(mask, elv)), ("floodplains", lambda f: f.floodplains(elv, upa_min=3, b=1.0)),
        ("dem_adjust", lambda f: f.dem_adjust(elv)), ("dem_dig_d4", lambda f: f.dem_dig_d4(elv)),
        ("streams", lambda f: sorted((ft["properties"]["idx"], ft["properties"]["idx_ds"], len(ft["geometry"]["coordinates"])) for ft in f.streams(min_sto=1))),
        ("vectorize", lambda f: len(f.vectorize())),
        ("ucat_eam", lambda f: _ucat(f, cs, "eam_plus", elv)), ("ucat_dmm", lambda f: _ucat(f, cs, "dmm", elv)),
        ("upscale_ihu", lambda f: _upscale(f, cs, "ihu")), ("upscale_eam_plus", lambda f: _upscale(f, cs, "eam_plus")),
        ("upscale_eam", lambda f: _upscale(f, cs, "eam")), ("upscale_dmm", lambda f: _upscale(f, cs, "dmm")),
        ("to_array_d8", lambda f: f.to_array("d8")), ("to_array_ldd", lambda f: f.to_array("ldd")), ("to_array_nextxy", lambda f: f.to_array("nextxy")),
        ("inflow", lambda f: f.inflow_idxs(mask)), ("outflow", lambda f: f.outflow_idxs(mask)),
        ("interbasin", lambda f: f.interbasin_mask(mask)),
        ("smooth_rivlen", lambda f: f.smooth_rivlen(full, 3.0)),
        # round-2 seeds: user-supplied upstream area that is positive outside the network; river methods
        ("ucat_outlets_dmm_upa", lambda f: f.ucat_outlets(cs, uparea=full, method="dmm")),
        ("ucat_outlets_eam_upa", lambda f: f.ucat_outlets(cs, uparea=full, method="eam_plus")),
        ("upscale_dmm_upa", lambda f: f.upscale(cs, method="dmm", uparea=full)[1]),
        ("upscale_ihu_upa", lambda f: f.upscale(cs, method="ihu", uparea=full)[1]),
        # river statistics with a river mask, upstream and downstream (round-4 seed: the sentinel used as an index)
        ("rivavg_mask_up", lambda f: f.subgrid_rivavg(f.ucat_outlets(cs), elv, mask=mask, direction="up")),
        ("rivavg_mask_down", lambda f: f.subgrid_rivavg(f.ucat_outlets(cs), elv, mask=mask, direction="down")),
        ("rivmed_mask_up", lambda f: f.subgrid_rivmed(f.ucat_outlets(cs), elv, mask=mask, direction="up")),
        ("rivlen_mask_up", lambda f: f.subgrid_rivlen(f.ucat_outlets(cs), mask=mask, direction="up")),
        ("rivlen_fullmask_up", lambda f: f.subgrid_rivlen(f.ucat_outlets(cs), mask=f.mask, direction="up")),
        ("rivavg_fullmask_up", lambda f: f.subgrid_rivavg(f.ucat_outlets(cs), elv, mask=f.mask, direction="up")),
        # the slope at EVERY cell (idxs_out=None), nodata cells included (defect fixed in the commit after 613aab5: the sentinel used as an index)
        ("rivslp_all", lambda f: f.subgrid_rivslp(None, elv, length=60.0)), ("rivslp_all_lstsq", lambda f: f.subgrid_rivslp(None, elv, length=90.0, method="lstsq")),
        ("rivslp_all_mask", lambda f: f.subgrid_rivslp(None, elv, length=60.0, mask=mask)),
        ("rivslp_up", lambda f: f.subgrid_rivslp(f.ucat_outlets(cs), elv, direction="up")), ("rivslp_down", lambda f: f.subgrid_rivslp(f.ucat_outlets(cs), elv, direction="down")),
        ("rivslp_down_lstsq_dmm", lambda f: f.subgrid_rivslp(f.ucat_outlets(cs, method="dmm"), elv, direction="down", method="lstsq")),
        ("rivslp_mask", lambda f: f.subgrid_rivslp(f.ucat_outlets(cs), elv, mask=mask)),
        ("river_depth", lambda f: f.river_depth(qbankfull=full * 10, rivwth=full + 1, rivslp=full / 1000.0)),
        ("river_depth_zs", lambda f: f.river_depth(qbankfull=full * 10, rivwth=full + 1, zs=elv, rivdst=f.distnc)),
        ("classify_estuaries", lambda f: f.classify_estuaries(elv - 5, full + 1)),
        ("distnc", lambda f: f.distnc), ("area", lambda f: f.area),
        ("add_pits", lambda f: (f.add_pits(idxs=outl[:1]), f.idxs_ds.copy(), f.idxs_pit, f.rank)[1:]),
        # a save / load round trip keeps the index type's own sentinel (round-5 seed), before and after the order is known
        ("dump_load", lambda f: _reload(f)), ("dump_load_ordered", lambda f: (f.idxs_seq, _reload(f))[1]),
    ]
    return ops


def _reload(f):
    import os
    from common import CACHE
    import pyflwdir
    d = os.path.join(CACHE, "c16")
    os.makedirs(d, exist_ok=True)
    fn = os.path.join(d, f"obj_{os.getpid()}.pkl")
    f.dump(fn)
    g = pyflwdir.FlwdirRaster.load(fn)
    os.remove(fn)
    return (g.idxs_ds, g.mask, g.rank, g.idxs_pit, g.upstream_area(), g.n_upstream, g.idxs_us_main, g.to_array("nextxy"), g.downstream(g.rank))


def _vector(f, upa0):
    """the 1-D class on the same network and index type, with zero-area nodes"""
    from pyflwdir.flwdir import Flwdir
    v = Flwdir(f.idxs_ds.copy(), area=upa0.ravel().astype(np.float32))
    return (v.idxs_us_main, v.stream_order(type="classic"), v.upstream_area(), v.rank, v.path(idxs=v.idxs_pit[:1], direction="up")[0])


def _ucat(f, cs, method, elv):
    outs = f.ucat_outlets(cs, method=method)
    m, a = f.ucat_area(outs)
    _, v = f.ucat_volume(outs, elv, depths=np.array([1.0, 5.0], dtype=np.float32))
    return (outs, m, a, v, f.subgrid_rivlen(outs), f.subgrid_rivavg(outs, elv), f.subgrid_rivmed(outs, elv), f.subgrid_rivslp(outs, elv))


def _upscale(f, cs, method):
    f1, outs = f.upscale(cs, method=method)
    return (f1.idxs_ds, outs, f.upscale_error(f1, outs), f1.to_array())


def impl(case):
    import random, warnings
    from common import call_impl
    import pyflwdir
    from affine import Affine
    call = case["call"]
    nr, nc = call["nr"], call["nc"]
    n = nr * nc
    ds = nets.d8_decode(call["flw"], nr, nc)
    tr = Affine(30.0, 0.0, 0.0, 0.0, -30.0, 0.0)
    results = {}
    bad = []
    for dt in DTYPES:
        d = np.dtype(dt)
        mv = -1 if d.kind == "i" else np.iinfo(d).max
        opsl = _ops(nr, nc, ds, random.Random(call["seed"]), call.get("cs"))
        for name, fn in opsl:
            # a fresh object per operation (C12 covers histories)
            arr = np.array([mv if x < 0 else x for x in ds], dtype=d)
            flw = pyflwdir.FlwdirRaster(idxs_ds=arr, shape=(nr, nc), ftype="d8", transform=tr)
            with warnings.catch_warnings():
                warnings.simplefilter("ignore")
                st, v = call_impl(fn, flw, timeout=20)
            val = (st, _canon(v, n) if st == "ok" else (v if st in ("ValueError", "IndexError") else str(v)[:80]))
            if dt == "int32":
                results[name] = val
            elif val != results[name]:
                if not (val[0] == results[name][0] and val[0] in ("ValueError", "IndexError")):
                    bad.append(f"{name} with {dt} indices: {str(val)[:160]} != int32 result {str(results[name])[:160]}")
    return [[0]] if not bad else [[1], sorted(set(b.split(' with ')[0] + ':' + b.split(' with ')[1].split(' ')[0] for b in bad)), bad[:4]]


def oracle(case, out):
    if out == [[0]]:
        return None
    sigs = out[1]
    return ("dtype:" + ",".join(sigs)[:200], f"{out[2]}")


def compare(case, i, m):
    return True


def nontrivial(case, out):
    return True
