"""C04 — accumulation = sum over the upstream catchment."""
import itertools
import numpy as np
import nets

PID = "C04"
THEOREMS = ["accuflux_spec", "breach_nonodata", "mass_conserved", "upstream_area_spec", "accuflux_ds_spec",
            "accuflux_ds_blocked", "uparea_outside_is_nodata", "uparea_inside_is_accuflux", "gen_accuflux_eq", "gen_accuflux_ds_eq"]
RULE = ("all loop-free closed graphs on n<=4 cells (n<=5 thorough) x fields over {-2..3, nodata} (exhaustive for n<=3, "
        "random beyond) x nodata values chosen to collide with partial sums, through streams.accuflux/accuflux_ds with "
        "random topological orders; random forests to 60 cells through FlwdirRaster.accuflux (int64 and integer-valued "
        "float64 fields, both directions; float64 fields whose nodata value is NaN, through FlwdirRaster.accuflux and "
        "through the two kernels), FlwdirRaster.upstream_area('cell'), Flwdir.upstream_area and the "
        "streams.upstream_area kernel on integer cell sizes; non-trivial = some cell receives flow")
ASSUMPTIONS = ["float fields: addition is modelled over Z; correspondence uses integer dtypes and integer-valued floats "
               "(exact in binary64); rounding-order effects on general floats are outside the model"]


def cases(tier, rng):
    maxn = 4 if tier == "quick" else 5
    nker = 0
    for n in range(2, maxn + 1):
        for ds in nets.all_graphs(n):
            if not (nets.is_wf(ds) and nets.is_loopfree(ds) and nets.pits(ds)):
                continue
            nodata = rng.choice([5, -1, 3, -9999, 0])
            vals = [-2, -1, 0, 1, 2, 3, nodata]
            if n <= 3:
                fields = itertools.product(vals, repeat=n)
            else:
                fields = [[rng.choice(vals) for _ in range(n)] for _ in range(4 if tier == "quick" else 6)]
            for data in fields:
                sq = nets.topo_order(ds, rng)
                c = {"k": 401 if rng.random() < 0.6 else 402, "args": [ds, sq, list(data), [nodata]], "group": f"exh-n{n}-kernel"}
                yield c
                nker += 1
                if nker % 5 == 0 or (n == maxn and nodata in data):
                    # the same kernel call on a float64 field whose nodata value is NaN (NaN at the nodata cells)
                    yield dict(c, call={"float_nan": 1}, group=f"exh-n{n}-kernel-float-nan")
    for ds in nets.structured(rng):
        if nets.is_loopfree(ds):
            n = len(ds)
            yield {"k": 401, "args": [ds, nets.topo_order(ds, rng), [rng.randint(0, 4) for _ in range(n)], [-9999]], "group": "structured"}
            yield {"k": 404, "args": [ds, nets.topo_order(ds), [1] * n], "call": {"api": "uparea_cell"}, "group": "structured"}
    nrand = 300 if tier == "quick" else 3000
    for t in range(nrand):
        n = rng.randint(2, 60 if t % 3 else 10)
        ds = nets.random_forest(rng, n, p_nodata=rng.choice([0, 0.1, 0.3]))
        nodata = rng.choice([-9999, -1, 7, 0])
        pn = rng.choice([0, 0, 0.15])
        data = [nodata if rng.random() < pn else rng.randint(-3, 9) for _ in range(n)]
        api = rng.choice(["accu_up_int", "accu_up_float", "accu_down_int", "uparea_cell", "vector_uparea", "kernel_uparea", "uparea_after_add_pits",
                          "uparea_ha_twice", "accu_up_narrow", "accu_down_narrow"])
        sq = nets.topo_order(ds)
        if api.endswith("narrow"):
            # fields of a narrow / unsigned dtype that cannot hold the nodata value; cells equal to its wrapped image
            dtn = rng.choice(["uint8", "uint16"])
            wrapped = {"uint8": 241, "uint16": 55537}[dtn]
            if n > 12:
                continue
            # exactly one cell holds the wrapped image of the nodata value; sums stay representable (241 + 12 < 256)
            hot = rng.randrange(n)
            data = [(wrapped if i == hot else rng.randint(0, 1)) for i in range(n)]
            yield {"k": 402 if "down" in api else 401, "args": [ds, sq, data, [-9999]],
                   "call": {"api": api, "dtype": dtn}, "group": f"rand-{api}"}
        elif api.startswith("accu"):
            k = 402 if "down" in api else 401
            yield {"k": k, "args": [ds, sq, data, [nodata]], "call": {"api": api}, "group": f"rand-{api}"}
        elif api == "kernel_uparea":
            # with an area factor (ha, km2) as well: cells outside the network keep exactly -9999 (round-4 seed)
            xres, yres, fac = rng.choice([(1, -1, 1), (2, -3, 1), (-2, 5, 1), (30, -30, 1), (100, -100, 10000), (200, -300, 10000), (-1000, 2000, 1000000)])
            yield {"k": 403, "args": [ds, nets.topo_order(ds, rng), [abs(xres * yres) // fac] * n, [-9999]],
                   "call": {"api": api, "xres": xres, "yres": yres, "factor": fac}, "group": f"rand-{api}"}
        elif api == "uparea_after_add_pits":
            nonpit = [i for i in range(n) if ds[i] >= 0 and ds[i] != i]
            if not nonpit:
                continue
            newpit = rng.choice(nonpit)
            ds2 = list(ds); ds2[newpit] = newpit
            yield {"k": 404, "args": [ds2, nets.topo_order(ds2), [1] * n], "call": {"api": api, "ds0": ds, "newpit": newpit}, "group": f"rand-{api}"}
        elif api == "vector_uparea":
            # the 1-D class with and without user node areas, memoising or not (round-3 seed: areas dropped with cache=False)
            w = [rng.randint(1, 9) for _ in range(n)] if rng.random() < 0.7 else None
            yield {"k": 404, "args": [ds, sq, w or [1] * n], "call": {"api": api, "area": w is not None, "cache": rng.randrange(2)},
                   "group": f"rand-{api}" + ("-area" if w else "")}
        else:
            yield {"k": 404, "args": [ds, sq, [1] * n], "call": {"api": api}, "group": f"rand-{api}"}
    # float fields whose nodata value is NaN (the usual missing value of float rasters): the case carries the integer-valued
    # field with a sentinel at the nodata cells (model and oracle as above); impl puts NaN there and passes nodata=np.nan
    for t in range(nrand // 5):
        n = rng.randint(2, 60 if t % 3 else 10)
        ds = nets.random_forest(rng, n, p_nodata=rng.choice([0, 0.1, 0.3]))
        nodata = rng.choice([-9999, -1, 7, 0])
        pn = rng.choice([0, 0.1, 0.25])
        data = [nodata if rng.random() < pn else rng.randint(-3, 9) for _ in range(n)]
        api = rng.choice(["accuflux_float_nan", "accuflux_down_float_nan"])
        yield {"k": 402 if "down" in api else 401, "args": [ds, nets.topo_order(ds), data, [nodata]], "call": {"api": api},
               "group": f"rand-{api}"}


def impl(case):
    from common import call_impl
    from implutil import ds_array, make_raster, make_vector
    from pyflwdir import streams
    from affine import Affine
    k, a = case["k"], case["args"]
    call = case.get("call") or {}
    api = call.get("api")
    ds, sq = a[0], a[1]
    n = len(ds)

    def outl(st, v):
        if st != "ok":
            return [[-2], [st]]
        v = np.asarray(v).ravel()
        if np.any(v != np.round(v)):
            return [[-3], ["non-integer"]]
        return [[int(x) for x in v]]

    def to_nan(vals, sentinel):
        """the integer-valued field as float64 with NaN at the cells that hold the sentinel"""
        d = np.array(vals, dtype=np.float64)
        d[np.array([x == sentinel for x in vals], dtype=bool)] = np.nan
        return d

    def from_nan(st, v, vals, sentinel):
        """NaN in the result back to the sentinel; a NaN anywhere else than at the nodata cells of the input fails the case"""
        if st != "ok":
            return [[-2], [st]]
        v = np.array(v, dtype=np.float64).ravel()
        isn = np.isnan(v)
        if v.size != len(vals) or not np.array_equal(isn, np.array([x == sentinel for x in vals], dtype=bool)):
            return [[-3], ["NaN outside the nodata cells"]]
        v[isn] = sentinel
        return outl(st, v)

    if api is None and call.get("float_nan"):
        fn = streams.accuflux if k == 401 else streams.accuflux_ds
        data = to_nan(a[2], a[3][0])
        before = data.copy()
        st, v = call_impl(fn, ds_array(ds), np.array(sq, dtype=np.int32), data, np.nan)
        if not np.array_equal(before, data, equal_nan=True):
            return [[-4], ["input mutated"]]
        if st == "ok" and v.dtype != np.float64:
            return [[-3], [str(v.dtype)]]
        return from_nan(st, v, a[2], a[3][0])
    if api is None:
        fn = streams.accuflux if k == 401 else streams.accuflux_ds
        return outl(*call_impl(fn, ds_array(ds), np.array(sq, dtype=np.int32), np.array(a[2], dtype=np.int64), a[3][0]))
    if api in ("accuflux_float_nan", "accuflux_down_float_nan"):
        flw = make_raster(ds)
        data = to_nan(a[2], a[3][0]).reshape(1, n)
        before = data.copy()
        st, v = call_impl(flw.accuflux, data, nodata=np.nan, direction="down" if "down" in api else "up")
        if not np.array_equal(before, data, equal_nan=True):
            return [[-4], ["input mutated"]]
        if st == "ok" and (v.shape != flw.shape or v.dtype != np.float64):
            return [[-3], [str(v.dtype)]]
        return from_nan(st, v, a[2], a[3][0])
    if api.startswith("accu"):
        flw = make_raster(ds)
        dt = np.dtype(call["dtype"]) if "dtype" in call else (np.float64 if "float" in api else np.int64)
        data = np.array(a[2], dtype=dt).reshape(1, n)
        before = data.copy()
        st, v = call_impl(flw.accuflux, data, nodata=a[3][0], direction="down" if "down" in api else "up")
        if not np.array_equal(before, data):
            return [[-4], ["input mutated"]]
        if st == "ok" and (v.shape != flw.shape or v.dtype != dt):
            return [[-3], [str(v.dtype)]]
        return outl(st, v)
    if api == "uparea_after_add_pits":
        flw = make_raster(call["ds0"])
        call_impl(flw.upstream_area, "cell")            # a first query on the old network
        # every other request names the new pit twice (two gauges in one cell): it is still one pit (round-5 seed)
        st, _ = call_impl(flw.add_pits, idxs=np.array([call["newpit"]] * (1 + (call["newpit"] + n) % 2)))
        if st != "ok":
            return [[-2], [st]]
        return outl(*call_impl(flw.upstream_area, "cell"))
    if api == "uparea_ha_twice":
        # 100 m cells are one hectare each: the second call in a metric unit must still be the cell count
        flw = make_raster(ds, transform=Affine(100.0, 0.0, 0.0, 0.0, -100.0, 0.0))
        call_impl(flw.upstream_area, "ha")
        st, v = call_impl(flw.upstream_area, ["ha", "Ha", "HA"][sum(ds) % 3])        # unit names are case-insensitive
        if st == "ok" and np.any((np.asarray(v) < 0) & (np.asarray(v) != -9999)):
            return [[-3], ["cells outside the network are not -9999 after a unit conversion"]]
        return outl(st, v)
    if api == "uparea_cell":
        # counting cells does not depend on the cell size or on the spelling of the unit (round-5 seed)
        sel = sum(ds) % 4
        flw = make_raster(ds) if sel == 0 else make_raster(ds, transform=Affine(100.0 * sel, 0.0, 0.0, 0.0, -50.0 * sel, 0.0))
        return outl(*call_impl(flw.upstream_area, ["cell", "Cell", "CELL", "cell"][sel]))
    if api == "vector_uparea":
        kwv = {"cache": bool(call.get("cache", 1))}
        if call.get("area"):
            kwv["area"] = np.array(a[2], dtype=np.float32)
        flw = make_vector(ds, **kwv)
        return outl(*call_impl(flw.upstream_area))
    if api == "kernel_uparea":
        tr = Affine(call["xres"], 0.0, 0.0, 0.0, call["yres"], 0.0)
        return outl(*call_impl(streams.upstream_area, ds_array(ds), np.array(sq, dtype=np.int32), n, False, tr, call.get("factor", 1), -9999.0))
    raise ValueError(api)


def _catch(ds, data, nodata, up=True):
    n = len(ds)
    out = list(data)
    for j in range(n):
        if ds[j] < 0 or data[j] == nodata:
            continue
        if up:
            tot = 0
            for x in range(n):
                if ds[x] < 0:
                    continue
                y, ok, steps = x, True, 0
                while True:
                    if data[y] == nodata:
                        ok = False; break
                    if y == j:
                        break
                    if ds[y] == y or steps > n:
                        ok = False; break
                    y = ds[y]; steps += 1
                if ok:
                    tot += data[x]
            out[j] = tot
        else:
            tot, y = 0, j
            while True:
                if data[y] == nodata:
                    break
                tot += data[y]
                if ds[y] == y:
                    break
                y = ds[y]
            out[j] = tot
    return out


def oracle(case, out):
    k, a = case["k"], case["args"]
    ds = a[0]
    if out and out[0] in ([-2], [-3], [-4]):
        return ("accu:unexpected-outcome", f"{out}")
    if k in (401, 402):
        exp = _catch(ds, a[2], a[3][0], up=(k == 401))
        return None if out == [exp] else (f"accu:{'up' if k == 401 else 'down'}", f"expected {exp} got {out}")
    if k in (403, 404):
        area = a[2]
        exp = _catch(ds, area, -9999, up=True)
        exp = [e if ds[i] >= 0 else -9999 for i, e in enumerate(exp)]
        return None if out == [exp] else ("uparea", f"expected {exp} got {out}")
    return None


def nontrivial(case, out):
    ds = case["args"][0]
    return any(d >= 0 and d != i for i, d in enumerate(ds))
