"""Fail-closed translator for the segment / stream kernels:  Python `ast`  ->  Gallina (coq/generated/GenSeg.v).
Registered into gen.GENERATORS on import, like gen_core.py, whose class Fn it extends (state-passing translation, `while`
loops as fuelled Fixpoints, lists as stacks / queues: see the header of gen_core.py for the conventions).

    streams.py  streams
    subgrid.py  segment_indices, segment_length, segment_average, segment_median, ucat_volume
    basins.py   _tributaries, subbasins_pfafstetter

Every statement of a translated function is translated or GenError is raised: nothing is guessed, nothing is skipped.  Each
section (one per source file / group of functions) is translated on its own; if one of them fails, GenError is raised for
the whole file with the messages of all the sections that failed (the generated file is then not rewritten).
Each generated definition is proved equal to the hand-written model in theories/GenSeg*Eq.v.

Constructs added to those of gen_core.py
  normalisation (an exact syntactic match, everything else is left alone and then rejected by gen_core.Fn):
      np.array([bool(0) for _ in range(E)])         ->  an array of E times False            (list bool)
      [(int(0), int(0)) for _ in range(0)]          ->  the empty list of pairs of integers
      [v for v in A if C]                           ->  filter (fun v => C) A   (A an index array, C without effects)
  statements
      x = [e]                   a list with one cell number (orientation declared in FUNCS, as for x = [])
      x = []                    for a name declared "arrays" in FUNCS: a list of index arrays (append is ++ [a])
      x.append(np.array(<list>, dtype=...)) | x.append(np.array([a, b], dtype=...))      (np.array copies)
      x = np.asarray(<list>, dtype=np.intp) | np.asarray(<list>)                          the list as an index array
      x = a[idxs] | a[np.asarray(<list>)]                                                 gather from an integer array
      b[i] = <bool>             store into a boolean array
      q[i] = arithmetics._average(a[idxs], w[idxs], nodata)     ->  Ops.wmean (combine ...) nodata     (see below)
      q[i] = np.nanmedian(np.where(s == nodata, np.nan, s))     ->  Ops.median s nodata                (see below)
      q = np.full(n, nodata, dtype=...)   for a name declared "oq" in FUNCS: n times None
      for i, v in enumerate(A): B   ->  for i in range(A.size): v = A[i]; B      (A an array that B does not assign)
      for v in seq[::-1]                 the reversed cell order
      for v in range(a, b)
      x = core.upstream_count(...) | streams.stream_order(...) | core.fillnodata_upstream(...) [% c]
                                the kernels of GenLoops.v (tools/gen_loops.py); the arguments are the function's own arrays
      x = l[a:] | l[a:b]        slices of a list (queue orientation), also inside np.array(...)
      x = a[:k]                 the first k elements of an array
      x = np.where(x cmp c, x, c2).astype(x.dtype)                   map (fun x_ => if x_ cmp c then x_ else c2) x
      x = np.zeros(n, <int type>)
      x = a[np.argsort(-u[a])] | a[np.argsort(-u[d[a]])]             ->  Subbas.sort_desc (a STABLE descending sort:
                                a documented modelling decision, NumPy's default sort is not stable)
      x = np.array([v for v in A if C], dtype=...)                   ->  filter (fun v => C) A
      p, q = l.pop(0)           for a list of pairs (the head of a queue; None when the list is empty)
      l.append((a, b))          for a list of pairs
      v = <vector expression>   np.maximum(c, V), V - c, V + c, c * V, V * c  with an integer array V and a scalar c
      m = np.full((a, b), c, dtype=...)      a 2-D integer array (a rows of b columns)
      m[:, j] = V | m[:, j] += V             a column of a 2-D integer array (setcol / addcol of the prelude)
  expressions
      bool(0) | bool(1), abs(e), ~b[i] (logical not of an element of a boolean array; ~ of a Python bool is rejected),
      a < b < c (both comparisons; the operands are names or constants, so nothing is evaluated twice),
      a ** b (Z.pow: exact for b >= 0; a negative exponent is not modelled),
      a / b (the rational inject_Z a / inject_Z b), float constants (exact rationals), q1 cmp q2 on rationals (Qle_bool),
      round(q) (Vect.py_round: round half to even), len of every kind of list

Two rules of gen_core.py are refined (SFn.cover, SFn.simple):
  * gen_core.Fn takes every read of a name after a loop as a read of the value that the loop bound.  Here a read that follows,
    in its own statement list or in an enclosing one, a plain assignment to the name (or is inside the `for` loop whose
    target the name is) is known not to see the loop's value; the variable of a comprehension is local to it.
  * an `if` whose branches only assign names that are bound already, store into arrays or append to lists of cell numbers /
    pairs becomes a join point (`let x := if c then .. else .. in`); round / abs / bool / len are calls without effect.
A call by name (`_tributaries(...)`) reaches the translated functions of the same module only.

Modelling decisions (documented in the hand models, Ucat.v / Ops.v / Vect.v / Subbas.v):
  * data values are integers (list Z); averages and medians are exact rationals.  An output array that receives averages /
    medians is `list (option Q)`; None is the nodata value (np.full(n, nodata) is n times None; _average returns nodata
    when the weights sum to 0, Ops.wmean returns None).
  * arithmetics._average(values, weights, nodata) IS Ops.wmean (combine values weights) nodata: the call is translated as a
    call of the model function.  So that a change of _average does not go unnoticed its normalised source is pinned
    (AVERAGE_FP, the fingerprint that tools/gen.py writes to fingerprints.json): a different source is a GenError.
  * np.nanmedian(np.where(s == nodata, np.nan, s)) IS Ops.median s nodata (median filters the nodata values itself): only
    this exact form, with the function's own nodata parameter, is accepted.
  * round(q) IS Vect.py_round q (round half to even) on the exact rational; a / b is the exact rational (Python computes both
    in floating point).
  * a[np.argsort(-u[a])] IS Subbas.sort_desc (fun j => u[j]) a, a STABLE descending sort (NumPy's default sort is not stable:
    the order of equal keys is a modelling decision).
  * a column assignment m[:, j] = v takes one element of v per row of m (NumPy raises when the lengths differ; setcol stops
    at the shorter one); a ** b is Z.pow (a negative exponent is not modelled).
"""
import ast, hashlib

import gen
from gen import GenError, fail, parse, find_def, find_assign, const_int, is_np_call, zlit
from gen_codec import global_const, strip_doc, is_cast, INT_CASTS
import gen_core, gen_loops
from gen_core import Ctx, OPTIONAL, tup, pat, names_in, stored_in, is_none

# additional types: b = boolean array, oq = output array of rationals / nodata, oQ = one such value, z2 = 2-D integer array,
# lpz = list of pairs of integers, pz = pair of integers
gen_core.COQTY.update({"oq": "list (option Q)", "z2": "list (list Z)", "lpz": "list (Z * Z)"})
COQTY = gen_core.COQTY

AVERAGE_FP = "e1aa761aaa984699"          # arithmetics._average (fingerprint as computed by gen.fingerprints)
MARK_FALSES, MARK_PAIRS, MARK_FILTER = "allfalse__", "nopairs__", "filter__"
BUILTINS = ("bool", "abs", "round", "enumerate", "_tributaries", "_mv", MARK_FALSES, MARK_PAIRS, MARK_FILTER)
RENAME = {"seq": "sq"}
RESERVED = {"sq", "wmean", "median", "combine", "map", "filter", "j_", "x_", "skipn", "Q", "py_round", "slice", "Qlt_le_dec",
            "sort_desc", "pow10", "vcol", "setcol", "addcol", "hd", "tl"}

PRELUDE = """(* m[:, j] = v  and  m[:, j] += v  for a 2-D array m (a list of rows) and a vector v with one element per row *)
Definition setcol (m : list (list Z)) (j : nat) (v : list Z) : list (list Z) :=
  map (fun p => upd (fst p) j (snd p)) (combine m v).
Definition addcol (m : list (list Z)) (j : nat) (v : list Z) : list (list Z) :=
  map (fun p => upd (fst p) j (nth j (fst p) 0 + snd p)%Z) (combine m v)."""


def fingerprint(fd):
    body = [s for s in fd.body if not (isinstance(s, ast.Expr) and isinstance(s.value, ast.Constant) and isinstance(s.value.value, str))]
    dump = ast.dump(ast.Module(body=body, type_ignores=[]), include_attributes=False) + ast.dump(fd.args)
    return hashlib.sha256(dump.encode()).hexdigest()[:16]


def is_name(e, name=None):
    return isinstance(e, ast.Name) and (name is None or e.id == name)


def is_int(e, v):
    return isinstance(e, ast.Constant) and type(e.value) is int and e.value == v


def is_call(e, name, nargs=None):
    return (isinstance(e, ast.Call) and isinstance(e.func, ast.Name) and e.func.id == name and not e.keywords
            and (nargs is None or len(e.args) == nargs))


# ---------------------------------------------------------------- normalisation of the comprehensions
class Normalise(ast.NodeTransformer):
    """rewrites exactly the comprehension forms listed in the module docstring into calls of marker names"""

    def __init__(self, fn):
        self.fn = fn

    def mk(self, name, args, at):
        return ast.copy_location(ast.Call(func=ast.copy_location(ast.Name(id=name, ctx=ast.Load()), at), args=args, keywords=[]), at)

    def one_gen(self, e):
        if len(e.generators) != 1:
            return None
        g = e.generators[0]
        if g.is_async or not isinstance(g.target, ast.Name):
            return None
        return g

    def visit_Call(self, e):
        # np.array([bool(0) for _ in range(E)])
        if is_np_call(e, ("array",)) and len(e.args) == 1 and not e.keywords and isinstance(e.args[0], ast.ListComp):
            lc = e.args[0]
            g = self.one_gen(lc)
            if (g is not None and not g.ifs and g.target.id == "_" and is_call(g.iter, "range", 1) and is_call(lc.elt, "bool", 1)
                    and is_int(lc.elt.args[0], 0) and "_" not in names_in(g.iter.args[0])):
                return self.mk(MARK_FALSES, [self.visit(g.iter.args[0])], e)
        return self.generic_visit(e)

    def visit_For(self, s):
        s = self.generic_visit(s)
        # for i, v in enumerate(A): B   ->   for i in range(A.size): v = A[i]; B
        if (isinstance(s.target, ast.Tuple) and len(s.target.elts) == 2 and all(isinstance(x, ast.Name) for x in s.target.elts)
                and is_call(s.iter, "enumerate", 1) and is_name(s.iter.args[0]) and not s.orelse):
            i, v, arr = s.target.elts[0].id, s.target.elts[1].id, s.iter.args[0].id
            if len({i, v, arr}) == 3 and arr not in stored_in(ast.Module(body=s.body, type_ignores=[])):
                at = s.iter
                mk = lambda n: ast.copy_location(n, at)
                size = mk(ast.Attribute(value=mk(ast.Name(id=arr, ctx=ast.Load())), attr="size", ctx=ast.Load()))
                rng = mk(ast.Call(func=mk(ast.Name(id="range", ctx=ast.Load())), args=[size], keywords=[]))
                first = mk(ast.Assign(targets=[mk(ast.Name(id=v, ctx=ast.Store()))],
                                      value=mk(ast.Subscript(value=mk(ast.Name(id=arr, ctx=ast.Load())), slice=mk(ast.Name(id=i, ctx=ast.Load())), ctx=ast.Load()))))
                return ast.copy_location(ast.For(target=mk(ast.Name(id=i, ctx=ast.Store())), iter=rng, body=[first] + s.body, orelse=[]), s)
        return s

    def visit_ListComp(self, e):
        g = self.one_gen(e)
        if g is None:
            return e
        # [(int(0), int(0)) for _ in range(0)]
        if (not g.ifs and g.target.id == "_" and is_call(g.iter, "range", 1) and is_int(g.iter.args[0], 0) and isinstance(e.elt, ast.Tuple)
                and len(e.elt.elts) == 2 and all(is_call(x, "int", 1) and is_int(x.args[0], 0) for x in e.elt.elts)):
            return self.mk(MARK_PAIRS, [], e)
        # [v for v in A if C]
        if len(g.ifs) == 1 and is_name(e.elt, g.target.id) and is_name(g.iter) and g.iter.id != g.target.id:
            for n in ast.walk(g.ifs[0]):
                if isinstance(n, (ast.Call, ast.ListComp, ast.NamedExpr, ast.Lambda, ast.IfExp)):
                    return e
            return self.mk(MARK_FILTER, [ast.copy_location(ast.Name(id=g.target.id, ctx=ast.Load()), e), g.iter, g.ifs[0]], e)
        return e


def normalised(src, fname):
    """the module `src` with the function `fname` normalised"""
    tree = parse(src)
    if sum(isinstance(n, ast.FunctionDef) and n.name == fname for n in tree.body) != 1:
        raise GenError(f"{src}: {fname} is not defined exactly once")
    fd = find_def(tree, fname, src)
    for n in ast.walk(tree):
        nm = n.id if isinstance(n, ast.Name) else n.arg if isinstance(n, ast.arg) else n.name if isinstance(n, ast.FunctionDef) else None
        if nm in (MARK_FALSES, MARK_PAIRS, MARK_FILTER):
            fail(n, src, f"name {nm} clashes with a name of the translator")
    k = tree.body.index(fd)
    tree.body[k] = ast.fix_missing_locations(Normalise(src).visit(fd))
    return tree


class SFn(gen_core.Fn):
    """gen_core.Fn with the constructs of the segment / stream kernels"""

    def __init__(self, src, spec, tree, reg):
        # `bool` (only as the function of a call) and the parameter name `seq` (renamed to sq) are admitted here
        old = gen_core.SRC, gen_core.RESERVED
        gen_core.SRC, gen_core.RESERVED = src, gen_core.RESERVED - {"bool", "seq"}
        try:
            super().__init__(spec, tree, reg)
        finally:
            gen_core.SRC, gen_core.RESERVED = old
        self.src = src
        fd = self.fd
        funcs = {id(n.func) for n in ast.walk(fd) if isinstance(n, ast.Call)}
        for n in ast.walk(fd):
            if is_name(n, "bool") and id(n) not in funcs or isinstance(n, ast.arg) and n.arg == "bool":
                fail(n, self.fn, "name bool clashes with a name of the generated text")
            if is_name(n, "seq") and "seq" not in spec["params"]:
                fail(n, self.fn, "name seq clashes with a name of the generated text")
        for n in ast.walk(fd):
            nm = n.id if isinstance(n, ast.Name) else n.arg if isinstance(n, ast.arg) else None
            if nm is not None and nm in RESERVED:
                fail(n, self.fn, f"name {nm} clashes with a name of the generated text")
        for nm in BUILTINS:
            if nm in self.assigned or nm in spec["params"]:
                fail(fd, self.fn, f"{nm} is rebound inside the function")
        self.bound_vars = {}         # variable of a filter -> text
        # gen_core.Fn takes every read of a name after a loop as a read of the value that the loop bound (the name must then
        # leave the loop).  A read that follows, in its own statement list or in an enclosing one, a plain assignment to the
        # name never sees a value bound before that assignment; the variable of a comprehension is local to it.
        covered = set()
        self.cover(strip_doc(list(fd.body)), set(), covered)
        for n in ast.walk(fd):
            if is_call(n, MARK_FILTER, 3):
                covered |= {id(m) for a in (n.args[0], n.args[2]) for m in ast.walk(a) if is_name(m, n.args[0].id)}
        self.loads = [n for n in self.loads if id(n) not in covered]
        self.bound_names = {n.id for n in ast.walk(fd) if isinstance(n, ast.Name) and not isinstance(n.ctx, ast.Load)}

    def cover(self, stmts, assigned, covered):
        assigned = set(assigned)
        for st in stmts:
            if isinstance(st, (ast.If, ast.While)):
                own = [st.test]
            elif isinstance(st, ast.For):
                own = [st.iter]
            else:
                own = [st]
            for o in own:
                covered |= {id(n) for n in ast.walk(o) if isinstance(n, ast.Name) and isinstance(n.ctx, ast.Load) and n.id in assigned}
            if isinstance(st, (ast.If, ast.While, ast.For)):
                inner = assigned | ({st.target.id} if isinstance(st, ast.For) and isinstance(st.target, ast.Name) else set())
                self.cover(st.body, inner, covered)
                self.cover(st.orelse, assigned, covered)
            if isinstance(st, ast.Assign) and len(st.targets) == 1:
                t = st.targets[0]
                if isinstance(t, ast.Name):
                    assigned.add(t.id)
                elif isinstance(t, ast.Tuple) and all(isinstance(x, ast.Name) for x in t.elts):
                    assigned |= {x.id for x in t.elts}

    # ---------------------------------------------------------------- header
    def module_mv(self, node):
        """the module constant _mv is core._mv (or the module is core.py), and core._mv is a negative integer literal"""
        if self.src != "core.py":
            global_const(self.tree, "_mv", self.fn)
            v = find_assign(self.tree, "_mv", self.fn)
            if not (isinstance(v, ast.Attribute) and is_name(v.value, "core") and v.attr == "_mv"):
                fail(v, self.fn, "_mv is not core._mv")
            self.core_module(node)
        self.core_mv(node)

    def core_module(self, node):
        self.module_check("core", node)

    def module_check(self, mod, node):
        """`mod` is the module pyflwdir.<mod>: bound by exactly one `from . import ...` and by nothing else at module level"""
        if mod in self.bound_names or mod in self.spec["params"]:
            fail(node, self.fn, f"{mod} is rebound inside the function")
        hits = 0
        for n in self.tree.body:
            if isinstance(n, ast.ImportFrom):
                for a in n.names:
                    if (a.asname or a.name) == mod:
                        if not (n.module is None and n.level == 1 and a.asname is None):
                            fail(n, self.fn, f"{mod} is not pyflwdir.{mod}")
                        hits += 1
            elif isinstance(n, ast.Import):
                if any((a.asname or a.name.split(".")[0]) == mod for a in n.names):
                    fail(n, self.fn, f"{mod} is not pyflwdir.{mod}")
            elif isinstance(n, (ast.FunctionDef, ast.ClassDef)):
                if n.name == mod:
                    fail(n, self.fn, f"{mod} is rebound in the module")
            elif mod in stored_in(n):
                fail(n, self.fn, f"{mod} is rebound in the module")
        if hits != 1:
            fail(node, self.fn, f"{mod} is not imported exactly once")

    def core_mv(self, node):
        core = parse("core.py")
        global_const(core, "_mv", "core.py")
        if const_int(find_assign(core, "_mv", "core.py"), "core.py") >= 0:
            fail(node, self.fn, "the missing value core._mv could be a cell number")     # NMV: never equal to a cell number

    def header(self):
        a = self.fd.args
        if a.vararg or a.kwarg or a.kwonlyargs or a.posonlyargs:
            fail(self.fd, self.fn, "unsupported parameter kind")
        names = [x.arg for x in a.args]
        if names != list(self.spec["params"]):
            fail(self.fd, self.fn, f"signature of {self.fd.name} changed: {names}")
        defaults = dict(zip(names[len(names) - len(a.defaults):], a.defaults))
        self.binders, self.fixed = [], []      # (coq name, type) of all / of the never-assigned parameters
        self.nmv = None
        for p, t in self.spec["params"].items():
            d = defaults.get(p)
            if t == "mv":
                if p in self.assigned:
                    fail(self.fd, self.fn, f"{p}: the missing value is assigned")
                if is_name(d, "_mv"):
                    self.module_mv(self.fd)
                elif isinstance(d, ast.Attribute) and is_name(d.value, "core") and d.attr == "_mv":
                    self.core_module(self.fd)
                    self.core_mv(self.fd)
                else:
                    fail(self.fd, self.fn, f"{p}: the missing value must be a parameter with default _mv or core._mv")
                self.env[p] = ("NMV", "mv")
                continue
            if t in OPTIONAL or t == "given":
                if d is not None and not is_none(d):
                    fail(self.fd, self.fn, f"default of the optional parameter {p} is not None")
                if p in self.assigned:
                    fail(self.fd, self.fn, f"optional parameter {p} is assigned")
                if f"{p}_" in names_in(self.fd) | set(names):
                    fail(self.fd, self.fn, f"name {p}_ clashes with a name of the generated text")
            if t not in ("idx", "z", "b", "nat", "Z", "bool") + tuple(OPTIONAL):
                fail(self.fd, self.fn, f"unknown parameter type {t}")
            if t in ("idx", "z", "b") and p in self.assigned:
                fail(self.fd, self.fn, f"the parameter array {p} is updated")      # the caller would see the update
            c = RENAME.get(p, p)
            self.binders.append((c, t))
            if p not in self.assigned:
                self.fixed.append((c, t))
            self.env[p] = (c, t)
            if t == "idx" and self.nmv is None and self.spec.get("nmv", p) == p:
                self.nmv = f"let NMV := length {c} in"
                self.nmv_param = p
        if self.nmv is None:
            fail(self.fd, self.fn, "no index array fixes the number of cells")

    # ---------------------------------------------------------------- expressions
    def list_as_array(self, e):
        """np.array(<list>, dtype) | np.asarray(<list>[, dtype=np.intp]) | np.array([a, b], dtype):  the text of the index array"""
        if not is_np_call(e, ("array", "asarray")) or not e.args or len(e.args) > 2:
            return None
        kws = {kw.arg: kw.value for kw in e.keywords}
        if len(e.args) == 2:
            if kws:
                return None
            kws = {"dtype": e.args[1]}
        if set(kws) - {"dtype"}:
            return None
        if "dtype" in kws and not self.is_dtype(kws["dtype"], False):
            fail(e, self.fn, "unsupported dtype")
        if e.func.attr == "array" and "dtype" not in kws:
            return None
        a = e.args[0]
        if isinstance(a, ast.List):
            if not a.elts:
                return None
            return "[" + "; ".join(self.tonat(*self.ex(x), x) for x in a.elts) + "]"
        if is_call(a, MARK_FILTER, 3):
            return self.filtered(a)
        sl = self.list_slice(a)
        if sl is not None:
            return sl
        if not is_name(a):
            return None
        c, t = self.ex(a)
        if t == "lq":
            return c
        if t == "ls":
            return f"(rev {c})"
        return None

    def filtered(self, a):
        """[v for v in A if C]  (normalised):  filter (fun v => C) A"""
        var, arr, cond = a.args
        if not (is_name(arr) and self.env.get(arr.id, (None, None))[1] == "idx") or var.id in self.bound_vars or var.id in RESERVED | gen_core.RESERVED:
            fail(a, self.fn, "unsupported comprehension")
        self.bound_vars[var.id] = var.id
        c, t = self.ex(cond)
        del self.bound_vars[var.id]
        if t != "bool":
            fail(a, self.fn, "the condition of a comprehension is not a boolean")
        return f"(filter (fun {var.id} => {c}) {self.env[arr.id][0]})"

    def list_slice(self, e):
        """l[a:] | l[a:b] for a list l of cell numbers (queue orientation): text of the list, or None"""
        if not (isinstance(e, ast.Subscript) and is_name(e.value) and isinstance(e.slice, ast.Slice) and self.env.get(e.value.id, (None, None))[1] == "lq"):
            return None
        sl = e.slice
        if sl.step is not None or sl.lower is None:
            fail(e, self.fn, "unsupported slice of a list")
        l = self.env[e.value.id][0]
        a = self.ex_idx(sl.lower)
        if sl.upper is None:
            return f"(skipn {a} {l})"
        b = self.ex_idx(sl.upper)
        return f"(firstn ({b} - {a}) (skipn {a} {l}))"

    def kernel_call(self, e):
        """<module>.<kernel>(...) for a kernel that tools/gen_loops.py translates (GenLoops.v): (text, type) or None"""
        if not (isinstance(e, ast.Call) and isinstance(e.func, ast.Attribute) and is_name(e.func.value)):
            return None
        mod, f = e.func.value.id, e.func.attr
        if (mod, f) not in KERNEL_CALLS:
            return None
        typing, rtype = KERNEL_CALLS[(mod, f)]
        self.module_check(mod, e)
        if dict(gen_loops.KERNELS_T.get((mod + ".py", f), [])) != typing or list(dict(gen_loops.KERNELS_T[(mod + ".py", f)])) != list(typing):
            fail(e, self.fn, f"{mod}.{f} is not the kernel that gen_loops.py translates")
        ctree = parse(mod + ".py")
        if sum(isinstance(n, ast.FunctionDef) and n.name == f for n in ast.walk(ctree)) != 1:
            fail(e, self.fn, f"{mod}.{f} is not defined exactly once")
        cdef = find_def(ctree, f, mod + ".py")
        ca = cdef.args
        cpar = [a.arg for a in ca.args]
        if ca.vararg or ca.kwarg or ca.kwonlyargs or ca.posonlyargs or cpar != list(typing):
            fail(e, self.fn, f"signature of {mod}.{f} changed")
        cdef_defaults = dict(zip(cpar[len(cpar) - len(ca.defaults):], ca.defaults))
        actual = self.actuals(e, cpar)
        out, first_idx = [], True
        for pn, t in typing.items():
            a = actual.get(pn)
            if t == "mv":
                d = cdef_defaults.get(pn)
                if not (is_name(d, "_mv") or isinstance(d, ast.Attribute) and is_name(d.value, "core") and d.attr == "_mv"):
                    fail(e, self.fn, f"{mod}.{f}: default of {pn} changed")
                self.own_mv(a, e)
                continue
            if t == "omask":
                if a is None or is_none(a):
                    if not is_none(cdef_defaults.get(pn)):
                        fail(e, self.fn, f"{mod}.{f}: default of {pn} changed")
                    out.append("None")
                    continue
                if not (is_name(a) and self.env.get(a.id, (None, None))[1] == "omask" and not self.refined.get(a.id)):
                    fail(e, self.fn, f"argument {pn}: the caller's own optional mask is expected")
                out.append(self.env[a.id][0])
                continue
            if a is None:
                fail(e, self.fn, f"argument {pn} missing (the defaults are not modelled)")
            if t in ("idx", "seq", "z"):
                want = "z" if t == "z" else "idx"
                if not (is_name(a) and self.env.get(a.id, (None, None))[1] == want):
                    fail(e, self.fn, f"argument {pn}: an array of type {want} is expected")
                if t == "idx" and first_idx:
                    first_idx = False
                    if self.nmv != f"let NMV := length {self.env[a.id][0]} in":
                        fail(e, self.fn, f"argument {pn} does not fix the same number of cells")
                out.append(self.env[a.id][0])
                continue
            if t == "Z":
                out.append(self.exZ(a))
                continue
            fail(e, self.fn, f"{mod}.{f}: parameter type {t}")
        return f"(gen_{f} {' '.join(out)})", rtype

    def vex(self, e):
        """vector expressions on integer arrays: text of a list Z, or None"""
        if is_name(e) and self.env.get(e.id, (None, None))[1] == "z":
            return self.env[e.id][0]
        if is_np_call(e, ("maximum",)) and len(e.args) == 2 and not e.keywords:
            a, b = e.args
            va, vb = self.vex(a), self.vex(b)
            if (va is None) == (vb is None):
                return None
            if va is None:
                return f"(map (fun x_ => Z.max {self.exZ(a)} x_) {vb})"
            return f"(map (fun x_ => Z.max x_ {self.exZ(b)}) {va})"
        if isinstance(e, ast.BinOp) and isinstance(e.op, (ast.Add, ast.Sub, ast.Mult)):
            op = {ast.Add: "+", ast.Sub: "-", ast.Mult: "*"}[type(e.op)]
            va, vb = self.vex(e.left), self.vex(e.right)
            if (va is None) == (vb is None):
                return None
            if va is None:
                return f"(map (fun x_ => ({self.exZ(e.left)} {op} x_)%Z) {vb})"
            return f"(map (fun x_ => (x_ {op} {self.exZ(e.right)})%Z) {va})"
        return None

    def sorted_desc(self, e):
        """a[np.argsort(-u[a])] | a[np.argsort(-u[d[a]])]:  the STABLE descending sort of a by the key u (Subbas.sort_desc)"""
        if not (isinstance(e, ast.Subscript) and is_name(e.value) and self.env.get(e.value.id, (None, None))[1] == "idx"
                and is_np_call(e.slice, ("argsort",))):
            return None
        c = e.slice
        x = e.value.id
        k = c.args[0] if len(c.args) == 1 and not c.keywords else None
        if not (isinstance(k, ast.UnaryOp) and isinstance(k.op, ast.USub) and isinstance(k.operand, ast.Subscript) and is_name(k.operand.value)
                and self.env.get(k.operand.value.id, (None, None))[1] == "z"):
            fail(e, self.fn, "unsupported np.argsort")
        u, sl = self.env[k.operand.value.id][0], k.operand.slice
        if is_name(sl, x):
            key = f"nth j_ {u} 0%Z"
        elif (isinstance(sl, ast.Subscript) and is_name(sl.value) and self.env.get(sl.value.id, (None, None))[1] == "idx" and is_name(sl.slice, x)):
            key = f"nth (nth j_ {self.env[sl.value.id][0]} NMV) {u} 0%Z"
        else:
            fail(e, self.fn, "unsupported np.argsort")
        return f"(sort_desc (fun j_ => {key}) {self.env[x][0]})"

    def gather(self, e):
        """a[idxs] | a[np.asarray(<list>)] with an integer array a:  the text of the array of the values"""
        if not (isinstance(e, ast.Subscript) and is_name(e.value) and self.env.get(e.value.id, (None, None))[1] == "z"):
            return None
        s = e.slice
        if is_name(s) and self.env.get(s.id, (None, None))[1] == "idx":
            ix = self.env[s.id][0]
        else:
            ix = self.list_as_array(s) if isinstance(s, ast.Call) and not isinstance(s.args[0] if s.args else None, ast.List) else None
        if ix is None:
            return None
        return f"(map (fun j_ => nth j_ {self.env[e.value.id][0]} 0%Z) {ix})"

    def own_nodata(self, e):
        return is_name(e, "nodata") and self.spec["params"].get("nodata") == "Z" and "nodata" not in self.assigned

    def rational(self, e):
        """the two calls that produce an average / a median: text of type option Q, or None"""
        # arithmetics._average(a[idxs], w[idxs], nodata)
        if (isinstance(e, ast.Call) and isinstance(e.func, ast.Attribute) and e.func.attr == "_average" and is_name(e.func.value, "arithmetics")):
            if len(e.args) != 3 or e.keywords or not self.own_nodata(e.args[2]):
                fail(e, self.fn, "unsupported call of arithmetics._average")
            self.check_average(e)
            v, w = self.gather(e.args[0]), self.gather(e.args[1])
            if v is None or w is None:
                fail(e, self.fn, "arithmetics._average of values that are not gathered from integer arrays")
            return f"(wmean (combine {v} {w}) nodata)"
        # np.nanmedian(np.where(s == nodata, np.nan, s))
        if is_np_call(e, ("nanmedian",)):
            w = e.args[0] if len(e.args) == 1 and not e.keywords else None
            if not (is_np_call(w, ("where",)) and len(w.args) == 3 and not w.keywords):
                fail(e, self.fn, "unsupported np.nanmedian")
            c, x, y = w.args
            if not (isinstance(c, ast.Compare) and len(c.ops) == 1 and isinstance(c.ops[0], ast.Eq) and is_name(c.left) and self.own_nodata(c.comparators[0])
                    and isinstance(x, ast.Attribute) and is_name(x.value, "np") and x.attr == "nan" and is_name(y, c.left.id)
                    and self.env.get(y.id, (None, None))[1] == "z"):
                fail(e, self.fn, "unsupported np.nanmedian")
            return f"(median {self.env[y.id][0]} nodata)"
        return None

    def check_average(self, node):
        """arithmetics is pyflwdir.arithmetics and its _average is the function that Ops.wmean models"""
        self.module_check("arithmetics", node)
        ar = parse("arithmetics.py")
        defs = [n for n in ast.walk(ar) if isinstance(n, ast.FunctionDef) and n.name == "_average"]
        if len(defs) != 1 or defs[0] not in ar.body or "_average" in stored_in(ast.Module(body=[n for n in ar.body if not isinstance(n, ast.FunctionDef)], type_ignores=[])):
            fail(node, self.fn, "arithmetics._average is not defined exactly once")
        if fingerprint(defs[0]) != AVERAGE_FP:
            fail(node, self.fn, "arithmetics._average changed: it is modelled by Ops.wmean, the model must be examined again")

    def ex(self, e):
        if isinstance(e, ast.Name) and e.id in self.bound_vars:
            return self.bound_vars[e.id], "nat"
        if is_call(e, "bool", 1) and isinstance(e.args[0], ast.Constant) and type(e.args[0].value) is int and e.args[0].value in (0, 1):
            return ("true" if e.args[0].value else "false"), "bool"
        if is_call(e, "abs", 1):
            return f"(Z.abs {self.exZ(e.args[0])})", "Z"
        if is_call(e, "len", 1) and is_name(e.args[0]) and self.env.get(e.args[0].id, (None, None))[1] in ("lpz", "lql"):
            return f"(Z.of_nat (length {self.env[e.args[0].id][0]}))", "Z"
        if isinstance(e, ast.Constant) and isinstance(e.value, float) and not e.value.is_integer():
            if e.value != e.value or e.value in (float("inf"), float("-inf")) or e.value < 0:
                fail(e, self.fn, "unsupported constant")
            num, den = e.value.as_integer_ratio()          # exact
            return f"({num} # {den})%Q", "Q"
        if isinstance(e, ast.BinOp) and isinstance(e.op, ast.Pow):
            return f"({self.exZ(e.left)} ^ {self.exZ(e.right)})%Z", "Z"
        if isinstance(e, ast.BinOp) and isinstance(e.op, ast.Div):
            return f"(inject_Z {self.exZ(e.left)} / inject_Z {self.exZ(e.right)})%Q", "Q"
        if is_call(e, "round", 1):
            c, t = self.ex(e.args[0])
            if t != "Q":
                fail(e, self.fn, "round of a value that is not a rational")
            return f"(py_round {c})", "Z"
        if isinstance(e, ast.Compare) and len(e.ops) == 1 and isinstance(e.ops[0], (ast.Lt, ast.LtE, ast.Gt, ast.GtE)):
            (a, ta), (b, tb) = self.ex(e.left), self.ex(e.comparators[0])
            if "Q" in (ta, tb):
                a = a if ta == "Q" else f"(inject_Z {self.toZ(a, ta, e)})"
                b = b if tb == "Q" else f"(inject_Z {self.toZ(b, tb, e)})"
                op = type(e.ops[0])
                return {ast.LtE: f"(Qle_bool {a} {b})", ast.GtE: f"(Qle_bool {b} {a})", ast.Lt: f"(negb (Qle_bool {b} {a}))",
                        ast.Gt: f"(negb (Qle_bool {a} {b}))"}[op], "bool"
        if isinstance(e, ast.UnaryOp) and isinstance(e.op, ast.Invert):
            # ~ of an element of a boolean array (numpy.bool_): the logical not.  ~ of a Python bool is an integer: rejected
            o = e.operand
            if not (isinstance(o, ast.Subscript) and is_name(o.value) and self.env.get(o.value.id, (None, None))[1] == "b"):
                fail(e, self.fn, "~ of a value that is not an element of a boolean array")
            return f"(negb {self.ex(o)[0]})", "bool"
        if isinstance(e, ast.Compare) and len(e.ops) == 2:
            # a < b < c: b is a name or a constant, so that nothing is evaluated twice
            if not isinstance(e.comparators[0], (ast.Name, ast.Constant)):
                fail(e, self.fn, "unsupported chained comparison")
            first = ast.copy_location(ast.Compare(left=e.left, ops=[e.ops[0]], comparators=[e.comparators[0]]), e)
            second = ast.copy_location(ast.Compare(left=e.comparators[0], ops=[e.ops[1]], comparators=[e.comparators[1]]), e)
            for c in (first, second):
                if isinstance(c.ops[0], (ast.In, ast.NotIn, ast.Is, ast.IsNot)):
                    fail(e, self.fn, "unsupported chained comparison")
            return f"({self.ex(first)[0]} && {self.ex(second)[0]})", "bool"
        return super().ex(e)

    # ---------------------------------------------------------------- statements
    def assign_value(self, name, v, s, pad, rest_fn, ctx):
        decl = self.spec.get("lists", {}).get(name)
        # name = [e]
        if isinstance(v, ast.List) and len(v.elts) == 1:
            if decl not in ("stack", "queue"):
                fail(s, self.fn, f"the orientation of the list {name} is not declared")
            c = self.tonat(*self.ex(v.elts[0]), s)
            return pad + self.bind(name, f"[{c}]", "ls" if decl == "stack" else "lq", s) + "\n" + rest_fn()
        # name = []   (a list of index arrays)
        if isinstance(v, ast.List) and not v.elts and decl == "arrays":
            return pad + self.bind(name, "(@nil (list nat))", "lql", s) + "\n" + rest_fn()
        # name = np.array([bool(0) for _ in range(n)])
        if is_call(v, MARK_FALSES, 1):
            n = self.tonat(*self.ex(v.args[0]), v.args[0])
            return pad + self.bind(name, f"(repeat false {n})", "b", s) + "\n" + rest_fn()
        # name = np.full(n, nodata, dtype=...)  for an output array of averages / medians
        if self.spec.get("arrays", {}).get(name) == "oq":
            kws = {kw.arg: kw.value for kw in v.keywords} if isinstance(v, ast.Call) else None
            if not (is_np_call(v, ("full",)) and len(v.args) == 2 and set(kws) == {"dtype"} and self.is_dtype(kws["dtype"], False)
                    and self.own_nodata(v.args[1])):
                fail(s, self.fn, f"unsupported initial value of the output array {name}")
            n = self.tonat(*self.ex(v.args[0]), v.args[0])
            return pad + self.bind(name, f"(repeat (@None Q) {n})", "oq", s) + "\n" + rest_fn()
        # name = nopairs__()        ([(int(0), int(0)) for _ in range(0)]: the empty list of pairs)
        if is_call(v, MARK_PAIRS, 0):
            if decl != "queue":
                fail(s, self.fn, f"the orientation of the list {name} is not declared")
            return pad + self.bind(name, "(@nil (Z * Z))", "lpz", s) + "\n" + rest_fn()
        # name = <kernel of GenLoops.v>(...)  |  <kernel>(...) % c
        kc = self.kernel_call(v)
        if kc is not None:
            return pad + self.bind(name, kc[0], kc[1], s) + "\n" + rest_fn()
        if isinstance(v, ast.BinOp) and isinstance(v.op, ast.Mod):
            kc = self.kernel_call(v.left)
            if kc is not None and kc[1] == "z":
                return pad + self.bind(name, f"(map (fun x_ => (x_ mod {self.exZ(v.right)})%Z) {kc[0]})", "z", s) + "\n" + rest_fn()
        # name = np.where(name cmp c, name, c2).astype(name.dtype)
        if (isinstance(v, ast.Call) and isinstance(v.func, ast.Attribute) and v.func.attr == "astype" and is_np_call(v.func.value, ("where",))):
            w = v.func.value
            if not (len(v.args) == 1 and not v.keywords and len(w.args) == 3 and not w.keywords and is_name(w.args[1], name)
                    and self.env.get(name, (None, None))[1] == "z" and isinstance(v.args[0], ast.Attribute) and is_name(v.args[0].value, name)
                    and v.args[0].attr == "dtype" and isinstance(w.args[0], ast.Compare) and is_name(w.args[0].left, name)
                    and name not in names_in(ast.Tuple(elts=list(w.args[0].comparators) + [w.args[2]], ctx=ast.Load()))):
                fail(s, self.fn, "unsupported np.where")
            saved = self.env[name]
            self.env[name] = ("x_", "Z")
            c, tc = self.ex(w.args[0])
            other = self.exZ(w.args[2])
            self.env[name] = saved
            if tc != "bool":
                fail(s, self.fn, "unsupported np.where")
            return pad + self.bind(name, f"(map (fun x_ => if {c} then x_ else {other}) {saved[0]})", "z", s) + "\n" + rest_fn()
        # name = np.zeros(n, <int type>)
        if is_np_call(v, ("zeros",)) and len(v.args) == 2 and not v.keywords:
            if not self.is_dtype(v.args[1], False):
                fail(s, self.fn, "unsupported np.zeros")
            n = self.tonat(*self.ex(v.args[0]), v.args[0])
            return pad + self.bind(name, f"(repeat 0%Z {n})", "z", s) + "\n" + rest_fn()
        # name = np.full((a, b), c, dtype=...)
        if is_np_call(v, ("full",)) and len(v.args) == 2 and isinstance(v.args[0], ast.Tuple) and len(v.args[0].elts) == 2:
            kws = {kw.arg: kw.value for kw in v.keywords}
            c, tc = self.ex(v.args[1])
            if tc == "Z":
                if set(kws) != {"dtype"} or not self.is_dtype(kws["dtype"], False):
                    fail(s, self.fn, "unsupported np.full")
                rows, cols = (self.tonat(*self.ex(x), x) for x in v.args[0].elts)
                return pad + self.bind(name, f"(repeat (repeat {c} {cols}) {rows})", "z2", s) + "\n" + rest_fn()
        # name = a[np.argsort(-u[...])]
        sd = self.sorted_desc(v)
        if sd is not None:
            return pad + self.bind(name, sd, "idx", s) + "\n" + rest_fn()
        # name = a[:k]
        if (isinstance(v, ast.Subscript) and is_name(v.value) and isinstance(v.slice, ast.Slice) and self.env.get(v.value.id, (None, None))[1] in ("idx", "z")):
            sl = v.slice
            if sl.lower is not None or sl.step is not None or sl.upper is None or isinstance(sl.upper, ast.UnaryOp):
                fail(s, self.fn, "unsupported slice of an array")
            a, ta = self.env[v.value.id]
            return pad + self.bind(name, f"(firstn {self.tonat(*self.ex(sl.upper), s)} {a})", ta, s) + "\n" + rest_fn()
        # name = l[a:b]
        sl = self.list_slice(v)
        if sl is not None:
            return pad + self.bind(name, sl, "lq", s) + "\n" + rest_fn()
        # name = <vector expression>
        if not is_name(v):
            vx = self.vex(v)
            if vx is not None:
                return pad + self.bind(name, vx, "z", s) + "\n" + rest_fn()
        # name = np.asarray(<list>, ...)
        if is_np_call(v, ("asarray", "array")):
            c = self.list_as_array(v)
            if c is None:
                fail(s, self.fn, "unsupported np.array / np.asarray")
            return pad + self.bind(name, c, "idx", s) + "\n" + rest_fn()
        # name = a[idxs]
        g = self.gather(v)
        if g is not None:
            return pad + self.bind(name, g, "z", s) + "\n" + rest_fn()
        return super().assign_value(name, v, s, pad, rest_fn, ctx)

    def column(self, t):
        """m[:, j] for a 2-D integer array m: the text of j, or None"""
        if not (isinstance(t, ast.Subscript) and is_name(t.value) and self.env.get(t.value.id, (None, None))[1] == "z2"):
            return None
        sl = t.slice
        if not (isinstance(sl, ast.Tuple) and len(sl.elts) == 2 and isinstance(sl.elts[0], ast.Slice) and sl.elts[0].lower is None
                and sl.elts[0].upper is None and sl.elts[0].step is None):
            fail(t, self.fn, "unsupported index of a 2-D array")
        return self.ex_idx(sl.elts[1])

    def store(self, t, v, s, pad, rest_fn):
        arr = t.value.id
        a, ta = self.lookup(t.value)
        if ta == "z2":
            j = self.column(t)
            vx = self.vex(v)
            if vx is None:
                fail(s, self.fn, "a column is assigned a value that is not a vector")
            return pad + self.bind(arr, f"setcol {a} {j} {vx}", "z2", s) + "\n" + rest_fn()
        if ta == "b":
            c, tc = self.ex(v)
            if tc != "bool":
                fail(s, self.fn, "store of a value that is not a boolean into a boolean array")
            return pad + self.bind(arr, f"upd {a} {self.ex_idx(t.slice)} {c}", "b", s) + "\n" + rest_fn()
        if ta == "oq":
            c = self.rational(v)
            if c is None:
                fail(s, self.fn, f"store into {arr} of a value that is not an average / a median")
            return pad + self.bind(arr, f"upd {a} {self.ex_idx(t.slice)} {c}", "oq", s) + "\n" + rest_fn()
        return super().store(t, v, s, pad, rest_fn)

    def block(self, body, ind, ctx):
        if body:
            s = body[0]
            # lst.append(np.array(...))  for a list of index arrays
            if (isinstance(s, ast.Expr) and isinstance(s.value, ast.Call) and isinstance(s.value.func, ast.Attribute) and s.value.func.attr == "append"
                    and is_name(s.value.func.value) and len(s.value.args) == 1 and not s.value.keywords
                    and self.env.get(s.value.func.value.id, (None, None))[1] == "lql" and isinstance(s.value.args[0], ast.Call)):
                lst = s.value.func.value.id
                c = self.list_as_array(s.value.args[0]) if is_np_call(s.value.args[0], ("array",)) else None      # np.array copies
                if c is None:
                    fail(s, self.fn, "unsupported element of a list of arrays")
                pad = " " * ind
                return pad + self.bind(lst, f"{self.env[lst][0]} ++ [{c}]", "lql", s) + "\n" + self.block(body[1:], ind, ctx)
            pad = " " * ind
            rest = lambda: self.block(body[1:], ind, ctx)
            # lst.append((a, b))  for a list of pairs
            if (isinstance(s, ast.Expr) and isinstance(s.value, ast.Call) and isinstance(s.value.func, ast.Attribute) and s.value.func.attr == "append"
                    and is_name(s.value.func.value) and self.env.get(s.value.func.value.id, (None, None))[1] == "lpz"):
                lst = s.value.func.value.id
                a = s.value.args[0] if len(s.value.args) == 1 and not s.value.keywords else None
                if not (isinstance(a, ast.Tuple) and len(a.elts) == 2):
                    fail(s, self.fn, "unsupported element of a list of pairs")
                x, y = (self.exZ(z) for z in a.elts)
                return pad + self.bind(lst, f"{self.env[lst][0]} ++ [({x}, {y})]", "lpz", s) + "\n" + rest()
            # p, q = lst.pop(0)  for a list of pairs (a queue: the head is the first element)
            if (isinstance(s, ast.Assign) and len(s.targets) == 1 and isinstance(s.targets[0], ast.Tuple) and isinstance(s.value, ast.Call)
                    and isinstance(s.value.func, ast.Attribute) and s.value.func.attr == "pop" and is_name(s.value.func.value)
                    and self.env.get(s.value.func.value.id, (None, None))[1] == "lpz"):
                lst = s.value.func.value.id
                names = [x.id for x in s.targets[0].elts if isinstance(x, ast.Name)]
                if not (len(s.value.args) == 1 and not s.value.keywords and is_int(s.value.args[0], 0) and len(names) == 2 == len(s.targets[0].elts)
                        and len({lst, *names}) == 3 and ctx.opt):
                    fail(s, self.fn, "unsupported pop")
                lc = self.env[lst][0]
                for nm in names:
                    self.bind(nm, "", "Z", s)
                self.bind(lst, "", "lpz", s)
                return f"{pad}match {lc} with\n{pad}| [] => None\n{pad}| ({names[0]}, {names[1]}) :: {lst} =>\n" + rest() + f"\n{pad}end"
            # m[:, j] += v
            if isinstance(s, ast.AugAssign) and isinstance(s.op, ast.Add) and self.column(s.target) is not None:
                arr = s.target.value.id
                vx = self.vex(s.value)
                if vx is None:
                    fail(s, self.fn, "a column is assigned a value that is not a vector")
                return pad + self.bind(arr, f"addcol {self.env[arr][0]} {self.column(s.target)} {vx}", "z2", s) + "\n" + rest()
        return super().block(body, ind, ctx)

    def pure_call(self, n):
        return is_cast(n) or self.is_distance(n) or any(is_call(n, f, 1) for f in ("round", "abs", "bool", "len"))

    def simple(self, body):
        """as in gen_core.py; in addition round / abs / bool / len are calls without effect and `lst.append(e)` to a list of
        cell numbers that is bound already only updates that list"""
        for s in body:
            if isinstance(s, ast.Assign) and len(s.targets) == 1:
                t, v = s.targets[0], s.value
                if any(isinstance(n, ast.Call) and not self.pure_call(n) for n in ast.walk(s)):
                    return False
                if isinstance(v, (ast.List, ast.Tuple)) or isinstance(t, ast.Tuple):
                    return False
                if isinstance(t, ast.Name) and t.id in self.env and self.env[t.id][1] in ("nat", "Z", "bool"):
                    continue
                if (isinstance(t, ast.Subscript) and isinstance(t.value, ast.Name) and not isinstance(t.slice, (ast.Slice, ast.Tuple))
                        and self.env.get(t.value.id, (None, None))[1] in ("z", "idx", "b")):
                    continue
                return False
            if isinstance(s, ast.AugAssign) and not any(isinstance(n, ast.Call) and not self.pure_call(n) for n in ast.walk(s)):
                if isinstance(s.target, ast.Name) and s.target.id in self.env:
                    continue
                if isinstance(s.target, ast.Subscript) and isinstance(s.target.value, ast.Name) and self.env.get(s.target.value.id, (None, None))[1] == "z":
                    continue
                return False
            if (isinstance(s, ast.Expr) and isinstance(s.value, ast.Call) and isinstance(s.value.func, ast.Attribute) and s.value.func.attr == "append"
                    and is_name(s.value.func.value) and self.env.get(s.value.func.value.id, (None, None))[1] in ("lq", "ls", "lpz")
                    and len(s.value.args) == 1 and not s.value.keywords
                    and not any(isinstance(n, ast.Call) and not self.pure_call(n) for n in ast.walk(s.value.args[0]))):
                continue
            if isinstance(s, ast.If) and self.simple(s.body) and self.simple(s.orelse):
                continue
            return False
        return True

    # ---------------------------------------------------------------- loops
    def domain(self, it, node, stored):
        # seq[::-1]
        if (isinstance(it, ast.Subscript) and is_name(it.value) and self.env.get(it.value.id, (None, None))[1] == "idx" and isinstance(it.slice, ast.Slice)
                and it.slice.lower is None and it.slice.upper is None and isinstance(it.slice.step, ast.UnaryOp) and isinstance(it.slice.step.op, ast.USub)
                and is_int(it.slice.step.operand, 1)):
            if it.value.id in stored:
                fail(node, self.fn, "the loop assigns the array it runs over")
            return f"(rev {self.env[it.value.id][0]})"
        # range(a, b)
        if is_call(it, "range", 2):
            a, b = (self.tonat(*self.ex(x), x) for x in it.args)
            return f"(seq {a} ({b} - {a}))"
        return super().domain(it, node, stored)

    def fuel_text(self, f, s):
        # ("lin", a, <array>, b): a * length <array> + b
        if f[0] == "lin" and f[2] in self.env and self.env[f[2]][1] in ("idx", "z") and all(type(x) is int and x >= 0 for x in (f[1], f[3])):
            return f"({f[1]} * length {self.env[f[2]][0]} + {f[3]})"
        return super().fuel_text(f, s)

    # ---------------------------------------------------------------- results
    def ret_one(self, v, s):
        c = self.list_as_array(v) if is_np_call(v, ("array",)) and is_name(v.args[0] if v.args else None) else None
        if c is not None:
            return c, "idx"
        if is_name(v) and self.env.get(v.id, (None, None))[1] in ("oq", "b", "z2"):
            return self.env[v.id]
        return super().ret_one(v, s)


# ---------------------------------------------------------------- the functions
# the kernels of GenLoops.v that may be called: (module, function) -> (the typing that gen_loops.py declares, result type)
KERNEL_CALLS = {
    ("core", "upstream_count"): ({"idxs_ds": "idx", "mv": "mv", "mask": "omask"}, "z"),
    ("streams", "stream_order"): ({"idxs_ds": "idx", "seq": "seq", "idxs_us_main": "idx", "mask": "omask", "mv": "mv"}, "z"),
    ("core", "fillnodata_upstream"): ({"idxs_ds": "idx", "seq": "seq", "data": "z", "nodata": "Z"}, "z"),
}
# as in gen_core.py; lists: "arrays" = a list of index arrays; arrays: "oq" = an output array of averages / medians;
# fuel ("lin", a, <array>, b) = a * length <array> + b
SECTIONS = [
    ("streams.py: streams", "streams.py", [
        dict(name="streams", params={"idxs_ds": "idx", "seq": "idx", "mask": "omask", "max_len": "Z", "mv": "mv"},
             lists={"streams": "arrays", "idxs": "queue"}, fuel=[("len", "idxs_ds")]),
    ]),
    ("subgrid.py: segment walks", "subgrid.py", [
        dict(name="segment_indices", params={"idxs_out": "idx", "idxs_nxt": "idx", "mask": "omask", "max_len": "Z", "mv": "mv"},
             nmv="idxs_nxt", lists={"streams": "arrays", "idxs": "queue"}, fuel=[("len", "idxs_nxt")]),
        dict(name="segment_length", params={"idxs_out": "idx", "idxs_nxt": "idx", "distnc": "z", "mask": "omask", "nodata": "Z", "mv": "mv"},
             nmv="idxs_nxt", fuel=[("len", "idxs_nxt")]),
        dict(name="segment_average", params={"idxs_out": "idx", "idxs_nxt": "idx", "data": "z", "weights": "z", "mask": "omask", "nodata": "Z",
                                             "mv": "mv"},
             nmv="idxs_nxt", lists={"idxs": "queue"}, arrays={"data_out": "oq"}, fuel=[("len", "idxs_nxt")]),
        dict(name="segment_median", params={"idxs_out": "idx", "idxs_nxt": "idx", "data": "z", "mask": "omask", "nodata": "Z", "mv": "mv"},
             nmv="idxs_nxt", lists={"idxs": "queue"}, arrays={"data_out": "oq"}, fuel=[("len", "idxs_nxt")]),
    ]),
    ("subgrid.py: ucat_volume", "subgrid.py", [
        dict(name="ucat_volume", params={"idxs_out": "idx", "idxs_ds": "idx", "seq": "idx", "hand": "z", "area": "z", "depths": "z", "mv": "mv"},
             nmv="idxs_ds"),
    ]),
    ("basins.py: tributaries", "basins.py", [
        dict(name="_tributaries", params={"idxs_ds": "idx", "seq": "idx", "strord": "z"}, lists={"idxs_trib": "queue"}),
    ]),
    ("basins.py: subbasins_pfafstetter", "basins.py", [
        dict(name="subbasins_pfafstetter", params={"idxs_pit": "idx", "idxs_ds": "idx", "seq": "idx", "idxs_us_main": "idx", "uparea": "z",
                                                   "mask": "omask", "depth": "Z", "mv": "mv"},
             nmv="idxs_ds", lists={"idxs": "queue", "labs": "queue"},
             fuel=[("len", "idxs_ds"), ("lin", 4, "idxs_ds", 8), ("len", "idxs_ds"), ("len", "idxs_ds")]),
    ]),
]


def gen_seg():
    parts = ["(* GENERATED by tools/gen_seg.py from /repo/pyflwdir -- do not edit *)",
             "From Coq Require Import List Arith ZArith QArith Bool.", "Import ListNotations.",
             "From PF Require Import Arr Ops Vect Subbas.", "From PFG Require Import GenLoops GenCore.", ""]
    if PRELUDE:
        parts += [PRELUDE, ""]
    errors, regs = [], {}
    for title, src, funcs in SECTIONS:
        sec = [f"(* ---------------- {title} ---------------- *)"]
        reg = regs.setdefault(src, {})       # a call by name reaches the functions of the same module only
        try:
            for spec in funcs:
                tree = normalised(src, spec["name"])
                text, info = SFn(src, spec, tree, reg).translate()
                reg[spec["name"]] = info
                sec += [text, ""]
        except GenError as e:
            # a section that is no longer understood is left out (its equality proofs stop compiling); the other sections, which
            # belong to other properties, are still written
            errors.append(str(e))
            parts += ["(* NOT TRANSLATED: section %s -- %s *)" % (title, str(e).replace("*)", "* )")), ""]
            continue
        parts += sec
    return "\n".join(parts)


gen.GENERATORS["GenSeg.v"] = gen_seg

if __name__ == "__main__":
    print(gen_seg())
