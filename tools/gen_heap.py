"""Fail-closed translator for the two priority-queue kernels:  Python `ast`  ->  Gallina (coq/generated/GenHeap.v).
Registered into gen.GENERATORS on import, like gen_core.py, whose class Fn it extends (state-passing translation, `while`
loops as fuelled Fixpoints, `if`s as join points: see the header of gen_core.py for the conventions).

    gis_utils.py  get_edge              (called by fill_depressions)                    (hand model: Flood.is_edge)
    dem.py        fill_depressions      RESTRICTED to  max_depth = -1, elv_max = None   (hand model: Flood.v)
    gis_utils.py  spread2d              RESTRICTED to  latlon = False                   (hand model: Spread.v)

Every statement of a translated function is translated or GenError is raised: nothing is guessed, nothing is skipped.
Each generated definition is proved equal to the hand-written model in theories/GenHeap*Eq.v.

RESTRICTION = partial evaluation, checked syntactically (specialise()).  A parameter declared in FUNCS["fixed"] has a fixed
value (max_depth = -1, elv_max = None, latlon = False).  It must never be assigned.  Every `if` / conditional expression
whose test is DECIDED by the fixed values (`P cmp <number>`, `P is None`, `P is not None`, `P`, `not P`, and
`np.isnan(P)` for a parameter P declared as an integer: False) is replaced by the branch taken, the other branch is NOT
translated (it is outside the restriction).  After that no read of a fixed parameter may be left (GenError otherwise), and
the parameter is not a parameter of the generated definition.  The generated file records the restriction in a comment.

HEAPQ.  The sound rule: a heap is a multiset of tuples; heapq.heappush(q, t) adds t, heapq.heappop(q) removes and returns the
least tuple in Python's lexicographic order (IndexError on an empty heap: the error value None), q[0] is that least tuple,
heapq.heapify(q) and len(q) do not depend on the arrangement.  Rendering (that of the hand models):
  * the multiset is a Coq list; a tuple (key.., r, c) whose last two components are the row and the column of a cell is
    the entry (key.., i) with the cell number i = r * ncol + c : nat.  For cells inside the raster (0 <= c < ncol, the only
    ones that are pushed: every push is at a cell read from np.where / range(nrow), range(ncol) or after the bounds test)
    (r, c) |-> r * ncol + c is strictly monotone from the lexicographic order to <, so the order of the tuples is the
    order of the entries (proved: GenHeapFloodEq.lin_lex).  Reading r / c back from an entry is i / ncol, i mod ncol.
  * heappop is the model's extract-minimum, declared per function in FUNCS ("pop": Flood.extract_min on (z, b, i) with
    Flood.key_lt, Spread.qmin on (d, i) with Spread.qlt; both are the lexicographic order, and both return a least entry
    and the list without ONE occurrence of it for every list: GenHeapFloodEq.extract_min_perm, GenHeapSpreadEq.qmin_perm).
    Equal tuples are interchangeable, so which of two equal entries is removed is immaterial; (in both kernels equal
    tuples cannot be in the queue at the same time: fill_depressions pushes a cell once, guarded by `queued`; spread2d pushes
    a cell again only with a strictly smaller distance.)
  * heappush is an insertion into the list.  WHERE it is inserted does not change the multiset; the position is declared
    per push site in FUNCS ("pushes", in source order: "front" = cons, "back" = ++ [t]) so that the list is the one of
    the hand model.  The declaration does not change the meaning, only the representation.
  * np.float64(.) / np.float32(.) of the key and np.uint8 / np.uint32 of the other components are the identity (the models
    have integer elevations / distances; fill_depressions keeps the key in float64 precisely so that it is exact).

Other constructs added to those of gen_core.py
  normalisation (exact syntactic matches; everything else is left alone and then rejected):
      np.array([bool(1) for s in range(9)]).reshape((3, 3))                 a 3 x 3 boolean array, all True
      np.array([bool(0) for s in range(A.size)]).reshape((nrow, ncol))      a boolean raster, all False
      [(np.floatNN(..), np.uintNN(..), ...) for _ in range(0)]              the empty list (the element is never evaluated)
      zip(*np.where(B))                  the cells of the boolean raster B that are True, in row-major order, as (r, c)
      A.flat[i] = v                      store at the cell number i
      a[..], b[..] = c1, c2              two stores of constants, in order
      x, y = e1, e2                      sequential when e2 does not read x
      raise ValueError(<string>)         the error value None
  statements / expressions
      nrow, ncol = A.shape  (A the raster parameter): nrow, ncol are parameters of the generated definition
      np.zeros_like(A), A.copy(), A == s, np.where(B, c1, c2), ~B, np.full(A.shape, c, dtype=..), A.ravel()
      x not in [c1, c2], A[r, c] on rasters (flat lists, cell r * ncol + c), S[i, j] on the 3 x 3 array with constant indices
      (a negative constant index counts from the end: -1 is 2), core_d8._us[i, j] (GenTables.d8_us), drs, dcs = np.where(S),
      V - c on a vector, for a, b in zip(U, V), for v in range(a, b) with integer constants,
      outlets == "min" for a parameter declared "strmin" (a boolean parameter <name>_min: only this test is modelled),
      `if X is None: .. else: ..` on an optional parameter (match; the else branch reads the content),
      gis_utils.get_edge(a, structure=s): a call of the definition generated from gis_utils.get_edge (a is a fresh boolean
      raster with the shape of the caller's raster, s the 3 x 3 array),
      np.hypot(a, b): an ABSTRACT function, a parameter of the generated definitions (declared in FUNCS "abstract"; the
      theorem states what it needs of it: its values on the eight steps are the integer step lengths of the model),
      transform[k] (the coefficients as integers), abs(e), float constants with an integer value,
      np.isnan(P) for a parameter P declared in FUNCS "ints" and np.isnan(A[r, c]) for an integer raster A (exactly this call
      form: one positional argument that is a name or a subscript of a name, and whose translation has the type Z): the
      constant false.  Justification: the model is about INTEGER observations and an integer nodata value (params "zg" / "Z"),
      and np.isnan of an integer is False; the domain of the model has no NaN.  The value is not propagated: a local such as
      `nan = np.isnan(nodata)` is let-bound (let nan := false in) and the tests that read it keep their shape (&&, ||, negb),
      so the generated term changes when the source's test changes.  Any other use of np.isnan raises GenError.
      for get_edge: `assert S.shape == (3, 3)` for a parameter declared as a 3 x 3 array (holds by the declaration),
      np.where(S.ravel())[0], A[slice(r - 1, r + 2), slice(c - 1, c + 2)].ravel() (the 3 x 3 window around (r, c), row-major;
      exact for the windows inside the raster: NumPy clips a slice at the border), np.all(W[s]), range(0, n),
      `nrow, ncol = A.shape` anywhere in the body of the function before the first use of nrow / ncol.
The defaults of the parameters are not modelled: every parameter of a generated definition is explicit.
Conventions: rasters are flat lists (list Z / list bool) of nrow * ncol cells; reads are nth with default 0 / false (the
translation is about the in-range accesses); casts are the identity."""
import ast

import gen
from gen import GenError, fail, parse, find_def, is_np_call, zlit
from gen_codec import strip_doc, INT_CASTS
import gen_core
from gen_core import Ctx, OPTIONAL, tup, pat, names_in, is_none, none_test

COQTY = dict(gen_core.COQTY)
COQTY.update({"bwin": "list bool", "zg": "list Z", "bg": "list bool", "b33": "list bool", "zl": "list Z", "hp3": "list (Z * Z * nat)",
              "hp2": "list (Z * nat)", "oidx": "option (list nat)", "strmin": "bool", "zt": "list Z"})
OPTIONAL.setdefault("oidx", "idx")            # a new key of the shared table: the other generators do not use it
HEAPS = {"hp3": dict(arity=4, pop="extract_min", elem="Z * Z * nat"), "hp2": dict(arity=3, pop="qmin", elem="Z * nat")}
CASTS = INT_CASTS + ("float32", "float64")
RENAME = {"struct": "struct_"}                # Coq keywords
RESERVED = {"i_", "v_", "x_", "b_", "k_", "top_", "e_", "where_true", "extract_min", "qmin", "map", "filter", "combine", "d8_us",
            "hypot", "Z", "negb", "repeat", "window3", "forallb"}
M_TRUE33, M_FALSE2, M_EMPTY, M_WHERE2, M_FLAT, M_RAISE = "alltrue33__", "allfalse2__", "emptyheap__", "where2__", "flat__", "raise__"
M_ASSERT33, M_WINDOW = "assert33__", "window3__"
MARKERS = (M_TRUE33, M_FALSE2, M_EMPTY, M_WHERE2, M_FLAT, M_RAISE, M_ASSERT33, M_WINDOW)

# params: zg = integer raster (the one that fixes nrow, ncol is "shape"), Z, bool, oidx / omask / oz = optional arrays,
#         strmin = a string of which only `== "min"` is modelled, zt = the coefficients of the transform
# fixed: the restriction (partial evaluation);  ints: parameters that hold integers (np.isnan is False)
# fuel: the fuel the hand model passes to the while loop;  pushes: position of the insertion per push site in source order
FUNCS = [
    dict(src="gis_utils.py", name="get_edge", shape="a", heap=None, params={"a": "bg", "structure": "b33"}, fixed={}, ints=(), fuel=[],
         pushes=[], abstract=[], imports={}),
    dict(src="dem.py", name="fill_depressions", shape="elevtn", heap="hp3",
         params={"elevtn": "zg", "outlets": "strmin", "idxs_pit": "oidx", "nodata": "Z", "max_depth": "fixed", "elv_max": "fixed",
                 "connectivity": "Z"},
         fixed={"max_depth": -1, "elv_max": None}, ints=("nodata",), fuel=["(S (nrow * ncol))"], pushes=["back", "front"],
         abstract=[], imports={"gis_utils": None, "core_d8": None, "heapq": "heapq"}),
    dict(src="gis_utils.py", name="spread2d", shape="obs", heap="hp2",
         params={"obs": "zg", "msk": "omask", "nodata": "Z", "frc": "oz", "latlon": "fixed", "transform": "zt"},
         fixed={"latlon": False}, ints=("nodata",), fuel=["(10 * (nrow * ncol) + 10)"], pushes=["back", "front"],
         abstract=["hypot"], imports={"heapq": "heapq"}),
]
ABSTRACT = {"hypot": "Z -> Z -> Z"}
PRELUDE = """(* np.where(b) for a boolean array: the positions that hold True, in order *)
Definition where_true (a : list bool) : list nat := filter (fun i => nth i a false) (seq 0 (length a)).
(* a[slice(r - 1, r + 2), slice(c - 1, c + 2)].ravel(): the 3 x 3 window around the cell (r, c), in row-major order *)
Definition window3 (ncol : nat) (a : list bool) (r c : Z) : list bool :=
  map (fun k_ => nth (Z.to_nat ((r - 1 + Z.of_nat (k_ / 3)) * Z.of_nat ncol + (c - 1 + Z.of_nat (k_ mod 3)))%Z) a false) (seq 0 9)."""


def stored2(node):
    """the names that the statements under `node` bind or update (gen_core.stored_in, with the heap operations: the heap is
    the first argument of heapq.heappush / heappop / heapify; A.copy() and A.ravel() do not update A)"""
    out = set()
    for n in ast.walk(node):
        if isinstance(n, ast.Name) and isinstance(n.ctx, ast.Store):
            out.add(n.id)
        if isinstance(n, ast.Subscript) and isinstance(n.ctx, ast.Store) and isinstance(n.value, ast.Name):
            out.add(n.value.id)
        if isinstance(n, ast.Call) and isinstance(n.func, ast.Attribute) and isinstance(n.func.value, ast.Name):
            m = n.func.value.id
            if m == "heapq":
                if n.args and isinstance(n.args[0], ast.Name):
                    out.add(n.args[0].id)
            elif m not in ("np", "gis_utils") and n.func.attr not in ("copy", "ravel"):
                out.add(m)
    return out


def is_name(e, name=None):
    return isinstance(e, ast.Name) and (name is None or e.id == name)


def is_intc(e, v=None):
    return isinstance(e, ast.Constant) and type(e.value) is int and (v is None or e.value == v)


def cint(e):
    """an integer constant, possibly negated: its value, else None"""
    if is_intc(e):
        return e.value
    if isinstance(e, ast.UnaryOp) and isinstance(e.op, ast.USub) and is_intc(e.operand):
        return -e.operand.value
    return None


def is_hcast(e):
    return isinstance(e, ast.Call) and len(e.args) == 1 and not e.keywords and is_np_call(e, CASTS)


def heap_call(e, what):
    return (isinstance(e, ast.Call) and isinstance(e.func, ast.Attribute) and is_name(e.func.value, "heapq") and e.func.attr == what
            and not e.keywords)


# ---------------------------------------------------------------- restriction: partial evaluation
class Specialise(ast.NodeTransformer):
    def __init__(self, fixed, ints, fn):
        self.fixed, self.ints, self.fn = fixed, ints, fn

    def decide(self, t):
        """the value of the test under the restriction, or None when the restriction does not decide it"""
        if is_np_call(t, ("isnan",)) and len(t.args) == 1 and not t.keywords and is_name(t.args[0]) and t.args[0].id in self.ints:
            return False                                      # an integer is not NaN
        if is_name(t) and t.id in self.fixed and isinstance(self.fixed[t.id], bool):
            return self.fixed[t.id]
        if isinstance(t, ast.UnaryOp) and isinstance(t.op, ast.Not):
            v = self.decide(t.operand)
            return None if v is None else not v
        if isinstance(t, ast.Compare) and len(t.ops) == 1 and is_name(t.left) and t.left.id in self.fixed:
            val, op, rhs = self.fixed[t.left.id], t.ops[0], t.comparators[0]
            if isinstance(op, (ast.Is, ast.IsNot)) and is_none(rhs):
                return (val is None) == isinstance(op, ast.Is)
            k = cint(rhs)
            if k is None and isinstance(rhs, ast.Constant) and type(rhs.value) is float:
                k = rhs.value
            if k is not None and type(val) in (int, float):
                for cls, f in ((ast.Lt, val < k), (ast.LtE, val <= k), (ast.Gt, val > k), (ast.GtE, val >= k), (ast.Eq, val == k),
                               (ast.NotEq, val != k)):
                    if isinstance(op, cls):
                        return f
        return None

    def visit_If(self, node):
        v = self.decide(node.test)
        if v is None:
            self.generic_visit(node)
            return node
        out = []
        for s in (node.body if v else node.orelse):
            r = self.visit(s)
            out += r if isinstance(r, list) else [r]
        return out                                            # possibly no statement at all

    def visit_IfExp(self, node):
        v = self.decide(node.test)
        if v is None:
            self.generic_visit(node)
            return node
        return self.visit(node.body if v else node.orelse)


def specialise(fd, spec, fn):
    for p in spec["fixed"]:
        if p not in [a.arg for a in fd.args.args]:
            raise GenError(f"{fn}: the fixed parameter {p} is not a parameter of {fd.name}")
        if p in stored2(fd):
            raise GenError(f"{fn}: the fixed parameter {p} is assigned")
    for p in spec["ints"]:
        if p in stored2(fd):
            raise GenError(f"{fn}: the integer parameter {p} is assigned")
    fd.body = [s for st in fd.body for s in (lambda r: r if isinstance(r, list) else [r])(Specialise(spec["fixed"], spec["ints"], fn).visit(st))]
    for n in ast.walk(fd):
        if isinstance(n, ast.Name) and n.id in spec["fixed"]:
            fail(n, fn, f"{n.id} is fixed to {spec['fixed'][n.id]!r} by the restriction, but is read where that does not decide a test")
        if isinstance(n, (ast.If, ast.While, ast.For)) and not n.body:
            fail(n, fn, "empty block after the partial evaluation")


# ---------------------------------------------------------------- normalisation
class Normalise(ast.NodeTransformer):
    def __init__(self, fn, shape):
        self.fn, self.shape = fn, shape

    def mk(self, name, args, at):
        call = ast.Call(func=ast.Name(id=name, ctx=ast.Load()), args=args, keywords=[])
        return ast.fix_missing_locations(ast.copy_location(call, at))

    def comp(self, e, var_ok=None):
        """[E for v in range(N)] -> (E, N)"""
        if not (isinstance(e, ast.ListComp) and len(e.generators) == 1):
            return None
        g = e.generators[0]
        if (g.is_async or g.ifs or not is_name(g.target) or not (isinstance(g.iter, ast.Call) and is_name(g.iter.func, "range")
                                                                and len(g.iter.args) == 1 and not g.iter.keywords)):
            return None
        if g.target.id in names_in(e.elt):
            return None
        return e.elt, g.iter.args[0]

    def visit_Call(self, node):
        self.generic_visit(node)
        # np.array([bool(k) for s in range(N)]).reshape((a, b))
        if (isinstance(node.func, ast.Attribute) and node.func.attr == "reshape" and len(node.args) == 1 and not node.keywords
                and isinstance(node.args[0], ast.Tuple) and len(node.args[0].elts) == 2 and is_np_call(node.func.value, ("array",))
                and len(node.func.value.args) == 1 and not node.func.value.keywords):
            cp = self.comp(node.func.value.args[0])
            if cp is not None and isinstance(cp[0], ast.Call) and is_name(cp[0].func, "bool") and len(cp[0].args) == 1 and not cp[0].keywords:
                k, n, dims = cp[0].args[0], cp[1], node.args[0].elts
                if is_intc(k, 1) and is_intc(n, 9) and is_intc(dims[0], 3) and is_intc(dims[1], 3):
                    return self.mk(M_TRUE33, [], node)
                if (is_intc(k, 0) and isinstance(n, ast.Attribute) and n.attr == "size" and is_name(n.value, self.shape)
                        and is_name(dims[0], "nrow") and is_name(dims[1], "ncol")):
                    return self.mk(M_FALSE2, [], node)
        # A[slice(r - 1, r + 2), slice(c - 1, c + 2)].ravel()
        if (isinstance(node.func, ast.Attribute) and node.func.attr == "ravel" and not node.args and not node.keywords
                and isinstance(node.func.value, ast.Subscript) and is_name(node.func.value.value)
                and isinstance(node.func.value.slice, ast.Tuple) and len(node.func.value.slice.elts) == 2):
            cs = []
            for x in node.func.value.slice.elts:
                if (isinstance(x, ast.Call) and is_name(x.func, "slice") and len(x.args) == 2 and not x.keywords
                        and all(isinstance(y, ast.BinOp) and is_name(y.left) for y in x.args) and x.args[0].left.id == x.args[1].left.id
                        and isinstance(x.args[0].op, ast.Sub) and is_intc(x.args[0].right, 1) and isinstance(x.args[1].op, ast.Add) and is_intc(x.args[1].right, 2)):
                    cs.append(x.args[0].left)
            if len(cs) == 2:
                return self.mk(M_WINDOW, [node.func.value.value] + cs, node)
        # zip(*np.where(B))
        if (is_name(node.func, "zip") and len(node.args) == 1 and not node.keywords and isinstance(node.args[0], ast.Starred)
                and is_np_call(node.args[0].value, ("where",)) and len(node.args[0].value.args) == 1 and not node.args[0].value.keywords
                and is_name(node.args[0].value.args[0])):
            return self.mk(M_WHERE2, [node.args[0].value.args[0]], node)
        return node

    def visit_ListComp(self, node):
        self.generic_visit(node)
        cp = self.comp(node)
        # [(cast(..), cast(..), ...) for _ in range(0)]: the element is never evaluated
        if cp is not None and is_intc(cp[1], 0) and isinstance(cp[0], ast.Tuple) and all(is_hcast(x) for x in cp[0].elts):
            kinds = [x.func.attr for x in cp[0].elts]
            if kinds[0] in ("float32", "float64") and all(k in INT_CASTS for k in kinds[1:]):
                return self.mk(M_EMPTY, [ast.Constant(value=len(kinds))], node)
        return node

    def visit_Assert(self, node):
        # assert S.shape == (3, 3)
        t = node.test
        if (node.msg is None and isinstance(t, ast.Compare) and len(t.ops) == 1 and isinstance(t.ops[0], ast.Eq)
                and isinstance(t.left, ast.Attribute) and t.left.attr == "shape" and is_name(t.left.value)
                and isinstance(t.comparators[0], ast.Tuple) and [cint(x) for x in t.comparators[0].elts] == [3, 3]):
            return ast.fix_missing_locations(ast.copy_location(ast.Expr(value=self.mk(M_ASSERT33, [t.left.value], node)), node))
        return node

    def visit_Raise(self, node):
        e = node.exc
        if (node.cause is None and isinstance(e, ast.Call) and is_name(e.func, "ValueError") and len(e.args) == 1 and not e.keywords
                and isinstance(e.args[0], ast.Constant) and isinstance(e.args[0].value, str)):
            return ast.fix_missing_locations(ast.copy_location(ast.Expr(value=self.mk(M_RAISE, [], node)), node))
        return node

    def visit_Assign(self, node):
        self.generic_visit(node)
        if len(node.targets) != 1:
            return node
        t, v = node.targets[0], node.value
        # A.flat[i] = v
        if (isinstance(t, ast.Subscript) and isinstance(t.value, ast.Attribute) and t.value.attr == "flat" and is_name(t.value.value)
                and not isinstance(t.slice, (ast.Slice, ast.Tuple))):
            new = ast.Subscript(value=ast.Name(id=t.value.value.id, ctx=ast.Load()), slice=self.mk(M_FLAT, [t.slice], node), ctx=ast.Store())
            return ast.fix_missing_locations(ast.copy_location(ast.Assign(targets=[new], value=v), node))
        if isinstance(t, ast.Tuple) and isinstance(v, ast.Tuple) and len(t.elts) == len(v.elts):
            # stores of constants, in order
            if all(isinstance(x, ast.Subscript) and is_name(x.value) for x in t.elts) and all(isinstance(y, ast.Constant) for y in v.elts):
                return [ast.fix_missing_locations(ast.copy_location(ast.Assign(targets=[x], value=y), node)) for x, y in zip(t.elts, v.elts)]
            # x, y = e1, e2: sequential when no e_k reads a name assigned before it
            if all(is_name(x) for x in t.elts) and len({x.id for x in t.elts}) == len(t.elts):
                done, ok = set(), True
                for x, y in zip(t.elts, v.elts):
                    ok = ok and not (names_in(y) & done)
                    done.add(x.id)
                if ok:
                    return [ast.fix_missing_locations(ast.copy_location(ast.Assign(targets=[x], value=y), node)) for x, y in zip(t.elts, v.elts)]
        return node


# ---------------------------------------------------------------- the translator
class HFn(gen_core.Fn):
    def __init__(self, spec, tree, reg):
        fn = spec["src"]
        self.hreg = reg
        fd = find_def(tree, spec["name"], fn)
        if sum(isinstance(n, ast.FunctionDef) and n.name == spec["name"] for n in tree.body) != 1:
            raise GenError(f"{fn}: {spec['name']} is not defined exactly once")
        for n in ast.walk(fd):
            nm = n.id if isinstance(n, ast.Name) else n.arg if isinstance(n, ast.arg) else None
            if nm is not None and (nm in RESERVED or nm in MARKERS or (nm.endswith("_") and nm != "_") or nm in RENAME.values()):
                fail(n, fn, f"name {nm} clashes with a name of the generated text")
        for d in fd.decorator_list:                      # numba's @njit / @njit() does not change the meaning
            if not (is_name(d, "njit") or isinstance(d, ast.Call) and is_name(d.func, "njit") and not d.args and not d.keywords):
                fail(fd, fn, "unsupported decorator")
        self.check_imports(tree, spec, fn)
        fd.args.defaults = []              # the defaults are not modelled: every parameter of the generated definition is explicit
        specialise(fd, spec, fn)
        fd.body = strip_doc(list(fd.body))
        # nrow, ncol = A.shape: a statement of the body of the function, before any use of nrow / ncol; A is never rebound before it
        def is_shape(s0):
            return (isinstance(s0, ast.Assign) and len(s0.targets) == 1 and isinstance(s0.targets[0], ast.Tuple)
                    and [getattr(x, "id", None) for x in s0.targets[0].elts] == ["nrow", "ncol"] and isinstance(s0.value, ast.Attribute)
                    and s0.value.attr == "shape" and is_name(s0.value.value, spec["shape"]))
        ks = [k for k, s0 in enumerate(fd.body) if is_shape(s0)]
        if len(ks) != 1:
            fail(fd, fn, f"`nrow, ncol = {spec['shape']}.shape` is not a statement of the body of the function (exactly once)")
        before = ast.Module(body=fd.body[:ks[0]], type_ignores=[])
        if {"nrow", "ncol"} & names_in(before) or spec["shape"] in stored2(before):
            fail(fd, fn, "nrow / ncol are used, or the raster is rebound, before the shape is taken")
        fd.body = fd.body[:ks[0]] + fd.body[ks[0] + 1:]
        new = Normalise(fn, spec["shape"]).visit(fd)
        assert new is fd
        ast.fix_missing_locations(fd)
        super().__init__(spec, tree, {})
        self.fn = fn
        self.assigned = stored2(fd)
        self.top_stmt = None
        self.sites = set()
        for nm in ("nrow", "ncol"):
            if nm in self.assigned:
                fail(fd, fn, f"{nm} is assigned")
        for nm in ("np", "heapq", "gis_utils", "core_d8", "zip", "range", "len", "abs", "bool") + MARKERS:
            if nm in self.assigned or nm in spec["params"]:
                fail(fd, fn, f"{nm} is rebound inside the function")
        self.nmv = None
        self.heap = spec["heap"]

    def check_imports(self, tree, spec, fn):
        """heapq is the module heapq; gis_utils / core_d8 are the sibling modules; none of them is rebound at module level"""
        want = dict(spec["imports"])
        for n in tree.body:
            if isinstance(n, ast.Import):
                for a in n.names:
                    nm = a.asname or a.name
                    if nm in want and (a.name != want[nm] or want[nm] is None):
                        raise GenError(f"{fn}: {nm} is not the expected module")
                    if nm in want:
                        want[nm] = True
            elif isinstance(n, ast.ImportFrom):
                for a in n.names:
                    nm = a.asname or a.name
                    if nm in want:
                        if want[nm] is not None or n.module is not None or n.level != 1 or a.asname is not None:
                            raise GenError(f"{fn}: {nm} is not the expected module")
                        want[nm] = True
            elif isinstance(n, (ast.FunctionDef, ast.ClassDef)):
                if n.name in want:
                    raise GenError(f"{fn}: {n.name} is rebound in the module")
            else:
                for nm in stored2(n):
                    if nm in want:
                        raise GenError(f"{fn}: {nm} is rebound in the module")
        for nm, v in want.items():
            if v is not True:
                raise GenError(f"{fn}: import of {nm} not found")

    def is_opt(self, node):
        for n in ast.walk(node):
            if isinstance(n, ast.While) or heap_call(n, "heappop") or (isinstance(n, ast.Call) and is_name(n.func, M_RAISE)):
                return True
            if isinstance(n, ast.Subscript) and isinstance(n.value, ast.Subscript) and is_name(n.value.value) and is_intc(n.value.slice, 0):
                return True                              # q[0][k]
        return False

    # ---------------------------------------------------------------- header
    def header(self):
        a = self.fd.args
        if a.vararg or a.kwarg or a.kwonlyargs or a.posonlyargs:
            fail(self.fd, self.fn, "unsupported parameter kind")
        names = [x.arg for x in a.args]
        if names != list(self.spec["params"]):
            fail(self.fd, self.fn, f"signature of {self.fd.name} changed: {names}")
        self.binders = [("nrow", "nat"), ("ncol", "nat")]
        self.env["nrow"], self.env["ncol"] = ("nrow", "nat"), ("ncol", "nat")
        for p, t in self.spec["params"].items():
            if t == "fixed":
                continue
            if t not in COQTY:
                fail(self.fd, self.fn, f"unknown parameter type {t}")
            if p in self.assigned and not (t == "zg" and p == self.spec["shape"]):
                fail(self.fd, self.fn, f"parameter {p} is assigned")
            if t in OPTIONAL and f"{p}_" in names_in(self.fd):
                fail(self.fd, self.fn, f"name {p}_ clashes with a name of the generated text")
            c = f"{p}_min" if t == "strmin" else p
            self.binders.append((c, t))
            self.env[p] = (c, t)
        self.fixed = [(c, t) for c, t in self.binders[:2]] + [self.env[p] for p, t in self.spec["params"].items()
                                                                 if t != "fixed" and p not in self.assigned]
        self.abs_binders = [f"({x} : {ABSTRACT[x]})" for x in self.spec["abstract"]]

    def extra_binders(self, kind):
        return list(self.abs_binders)

    def extra_args(self, kind):
        return list(self.spec["abstract"])

    # ---------------------------------------------------------------- expressions
    def cell(self, sl, node):
        """the cell number of A[r, c]"""
        if not (isinstance(sl, ast.Tuple) and len(sl.elts) == 2) or any(isinstance(x, (ast.Slice, ast.Tuple)) for x in sl.elts):
            fail(node, self.fn, "a raster takes two indices")
        for x in sl.elts:
            if cint(x) is not None and cint(x) < 0:
                fail(node, self.fn, "negative raster index")
        r, c = (self.exZ(x) for x in sl.elts)
        return f"(Z.to_nat ({r} * Z.of_nat ncol + {c})%Z)"

    def cell33(self, sl, node):
        if not (isinstance(sl, ast.Tuple) and len(sl.elts) == 2):
            fail(node, self.fn, "the 3 x 3 array takes two indices")
        ij = [cint(x) for x in sl.elts]
        if any(k is None or not -3 <= k < 3 for k in ij):
            fail(node, self.fn, "index of the 3 x 3 array is not a constant in range")
        i, j = (k % 3 for k in ij)                      # a negative index counts from the end
        return str(3 * i + j)

    def heap_top(self, e):
        """q[0] for the heap q"""
        return (isinstance(e, ast.Subscript) and is_name(e.value) and self.env.get(e.value.id, (None, None))[1] in HEAPS and is_intc(e.slice, 0))

    def entry(self, e):
        """a tuple (key.., r, c) as an entry of the heap"""
        ar = HEAPS[self.heap]["arity"]
        if not (isinstance(e, ast.Tuple) and len(e.elts) == ar and all(is_hcast(x) for x in e.elts)):
            fail(e, self.fn, "unsupported heap entry")
        kinds = [x.func.attr for x in e.elts]
        if kinds[0] not in ("float32", "float64") or any(k not in ("uint8", "uint32") for k in kinds[1:]):
            fail(e, self.fn, "unsupported casts in a heap entry")
        keys = [self.exZ(x.args[0]) for x in e.elts[:-2]]
        r, c = (self.exZ(x.args[0]) for x in e.elts[-2:])
        return "(" + ", ".join(keys + [f"Z.to_nat ({r} * Z.of_nat ncol + {c})%Z"]) + ")"

    def ex(self, e):
        if isinstance(e, ast.Name) and e.id in MARKERS:
            fail(e, self.fn, "unsupported use of a marker")
        if isinstance(e, ast.Name) and self.env.get(e.id, (None, None))[1] == "strmin":
            fail(e, self.fn, f"only `{e.id} == \"min\"` is modelled")
        if isinstance(e, ast.Constant) and isinstance(e.value, str):
            fail(e, self.fn, "string constant")
        if is_hcast(e):
            return self.exZ(e.args[0]), "Z"
        if isinstance(e, ast.Call) and is_name(e.func, "abs") and len(e.args) == 1 and not e.keywords:
            return f"(Z.abs {self.exZ(e.args[0])})", "Z"
        if isinstance(e, ast.Call) and is_name(e.func, "len") and len(e.args) == 1 and not e.keywords and is_name(e.args[0]) \
                and self.env.get(e.args[0].id, (None, None))[1] in HEAPS:
            return f"(Z.of_nat (length {self.env[e.args[0].id][0]}))", "Z"
        if is_np_call(e, ("all",)) and len(e.args) == 1 and not e.keywords:
            w = e.args[0]
            if not (isinstance(w, ast.Subscript) and is_name(w.value) and is_name(w.slice) and self.env.get(w.value.id, (0, 0))[1] == "bwin"
                    and self.env.get(w.slice.id, (0, 0))[1] == "idx"):
                fail(e, self.fn, "unsupported np.all")
            return f"(forallb (fun k_ => nth k_ {self.env[w.value.id][0]} false) {self.env[w.slice.id][0]})", "bool"
        if is_np_call(e, ("isnan",)):
            # the integer model has no NaN: exactly np.isnan(<name>) / np.isnan(<name>[..]) of an integer VALUE is the constant false
            if len(e.args) != 1 or e.keywords or not (is_name(e.args[0]) or isinstance(e.args[0], ast.Subscript) and is_name(e.args[0].value)):
                fail(e, self.fn, "unsupported np.isnan")
            if is_name(e.args[0]) and e.args[0].id not in self.spec["ints"] or self.ex(e.args[0])[1] != "Z":
                fail(e, self.fn, "np.isnan of a value that is not an integer of the model")
            return "false", "bool"
        if is_np_call(e, ("hypot",)):
            if "hypot" not in self.spec["abstract"] or len(e.args) != 2 or e.keywords:
                fail(e, self.fn, "unsupported np.hypot")
            return f"(hypot {self.exZ(e.args[0])} {self.exZ(e.args[1])})", "Z"
        if isinstance(e, ast.UnaryOp) and isinstance(e.op, ast.Invert):
            c, t = self.ex(e.operand)
            if t == "bool" and isinstance(e.operand, ast.Subscript):      # an element of a boolean array (np.bool_)
                return f"(negb {c})", "bool"
            if t == "bg":
                return f"(map negb {c})", "bg"
            fail(e, self.fn, "~ of a value that is not a boolean array or an element of one")
        if isinstance(e, ast.Compare) and len(e.ops) == 1:
            l, op, r = e.left, e.ops[0], e.comparators[0]
            if is_name(l) and self.env.get(l.id, (None, None))[1] == "strmin":
                if isinstance(op, ast.Eq) and isinstance(r, ast.Constant) and r.value == "min":
                    return self.env[l.id][0], "bool"
                fail(e, self.fn, f"only `{l.id} == \"min\"` is modelled")
            if isinstance(op, (ast.In, ast.NotIn)) and isinstance(r, ast.List) and r.elts and all(cint(x) is not None for x in r.elts):
                x = self.exZ(l)
                if not is_name(l):
                    fail(e, self.fn, "membership test of an expression")
                c = "(" + " || ".join(f"({x} =? {zlit(cint(k))})%Z" for k in r.elts) + ")"
                return (c if isinstance(op, ast.In) else f"(negb {c})"), "bool"
            if is_name(l) and self.env.get(l.id, (None, None))[1] == "zg" and isinstance(op, ast.Eq):
                rc, rt = self.ex(r)
                if rt != "Z":
                    fail(e, self.fn, "comparison of a raster with a value that is not an integer")
                return f"(map (fun x_ => (x_ =? {rc})%Z) {self.env[l.id][0]})", "bg"
        if isinstance(e, ast.BinOp) and isinstance(e.op, ast.Sub) and is_name(e.left) and self.env.get(e.left.id, (None, None))[1] == "zl":
            rc, rt = self.ex(e.right)
            if rt != "Z":
                fail(e, self.fn, "vector minus a value that is not an integer")
            return f"(map (fun x_ => (x_ - {rc})%Z) {self.env[e.left.id][0]})", "zl"
        if isinstance(e, ast.Subscript):
            if self.heap_top(e):
                fail(e, self.fn, "q[0] outside q[0][k]")
            # q[0][k]: a component of the least entry (bound to top_ by the enclosing statement)
            if self.heap_top(e.value):
                if self.top_stmt is None:
                    fail(e, self.fn, "q[0] in an unsupported position")
                ar, k = HEAPS[self.heap]["arity"], cint(e.slice)
                if k is None or not -ar <= k < ar:
                    fail(e, self.fn, "component of a heap entry is not a constant in range")
                k %= ar
                if k == ar - 2:
                    return "(Z.of_nat (snd top_ / ncol))", "Z"
                if k == ar - 1:
                    return "(Z.of_nat (snd top_ mod ncol))", "Z"
                return ("(fst (fst top_))" if k == 0 else "(snd (fst top_))") if ar == 4 else "(fst top_)", "Z"
            if isinstance(e.value, ast.Attribute) and is_name(e.value.value, "core_d8") and e.value.attr == "_us":
                if "core_d8" not in self.spec["imports"] or not (isinstance(e.slice, ast.Tuple) and len(e.slice.elts) == 2):
                    fail(e, self.fn, "unsupported table lookup")
                i, j = (self.exZ(x) for x in e.slice.elts)
                return f"(nth (Z.to_nat {j}) (nth (Z.to_nat {i}) d8_us []) 0%Z)", "Z"
            if is_name(e.value):
                bc, bt = self.lookup(e.value)
                if bt in ("zg", "z") and isinstance(e.slice, ast.Tuple):
                    return f"(nth {self.cell(e.slice, e)} {bc} 0%Z)", "Z"
                if bt in ("bg", "b") and isinstance(e.slice, ast.Tuple):
                    return f"(nth {self.cell(e.slice, e)} {bc} false)", "bool"
                if bt == "zg" or (bt in ("z", "b") and e.value.id in self.spec["params"]):
                    fail(e, self.fn, "a raster takes two indices")
                if bt == "zflat":
                    return f"(nth {self.ex_idx(e.slice)} {bc} 0%Z)", "Z"
                if bt == "zt":
                    k = cint(e.slice)
                    if k is None or not 0 <= k < 6:
                        fail(e, self.fn, "coefficient of the transform")
                    return f"(nth {k} {bc} 0%Z)", "Z"
        return super().ex(e)

    # ---------------------------------------------------------------- statements
    def bind(self, name, c, t, node):
        if name in self.spec["params"] and not (self.spec["params"][name] == "zg" and t == "zflat") or name in ("nrow", "ncol"):
            fail(node, self.fn, f"assignment to the parameter {name}")
        if self.refined.get(name):
            fail(node, self.fn, f"assignment to {name} under a test against None")
        if name in self.env and self.env[name][1] != t and not (self.env[name][1] == "zg" and t == "zflat"):
            fail(node, self.fn, f"{name} changes type")
        cn = RENAME.get(name, name)
        self.env[name] = (cn, t)
        return f"let {cn} := {c} in"

    def is_push(self, s):
        return isinstance(s, ast.Expr) and heap_call(s.value, "heappush") and len(s.value.args) == 2 and is_name(s.value.args[0])

    def simple(self, body):
        for s in body:
            if self.is_push(s) and s.value.args[0].id in self.env:
                continue
            if isinstance(s, ast.If):
                if not (self.simple(s.body) and self.simple(s.orelse)):
                    return False
                continue
            if any(isinstance(n, ast.Call) and not is_hcast(n) and not is_np_call(n, ("hypot", "all")) for n in ast.walk(s)):
                return False
            if any(self.heap_top(n) for n in ast.walk(s)):
                return False
            if not super().simple([s]):
                return False
        return True

    def terminal_last(self, body):
        for k, s in enumerate(body):
            if isinstance(s, ast.Expr) and isinstance(s.value, ast.Call) and is_name(s.value.func, M_RAISE) and k != len(body) - 1:
                fail(body[k + 1], self.fn, "unreachable statement")
        super().terminal_last(body)

    def assign_value(self, name, v, s, pad, rest_fn, ctx):
        shape = self.spec["shape"]
        sc = self.env[shape][0]
        done = lambda c, t: pad + self.bind(name, c, t, s) + "\n" + rest_fn()
        if is_np_call(v, ("zeros_like",)) and len(v.args) == 1 and not v.keywords and is_name(v.args[0]) and self.env.get(v.args[0].id, (0, 0))[1] == "zg":
            return done(f"(map (fun _ => 0%Z) {self.env[v.args[0].id][0]})", "zg")
        if isinstance(v, ast.Call) and isinstance(v.func, ast.Attribute) and is_name(v.func.value) and not v.args and not v.keywords:
            bc, bt = self.lookup(v.func.value)
            if v.func.attr == "copy" and bt in ("zg", "bg"):
                return done(bc, bt)
            if v.func.attr == "ravel" and bt == "zg":       # the same cells, read with one index
                if name != v.func.value.id:
                    fail(s, self.fn, "ravel into another name")
                return done(bc, "zflat")
        if is_np_call(v, ("where",)) and len(v.args) == 3 and not v.keywords and is_name(v.args[0]) and self.env.get(v.args[0].id, (0, 0))[1] == "bg":
            a, b = (cint(x.args[0]) if is_hcast(x) else None for x in v.args[1:])
            if a is None or b is None:
                fail(s, self.fn, "unsupported np.where")
            return done(f"(map (fun b_ : bool => if b_ then {zlit(a)} else {zlit(b)}) {self.env[v.args[0].id][0]})", "zg")
        if is_np_call(v, ("where",)) and len(v.args) == 1:
            fail(s, self.fn, "np.where(.) must be taken apart into two names")
        if is_np_call(v, ("full",)):
            kws = {kw.arg: kw.value for kw in v.keywords}
            if not (len(v.args) == 2 and set(kws) == {"dtype"} and isinstance(v.args[0], ast.Attribute) and v.args[0].attr == "shape"
                    and is_name(v.args[0].value, shape) and cint(v.args[1]) is not None and isinstance(kws["dtype"], ast.Attribute)
                    and is_name(kws["dtype"].value, "np") and kws["dtype"].attr in CASTS):
                fail(s, self.fn, "unsupported np.full")
            if self.env[shape][1] != "zg":
                fail(s, self.fn, "np.full with the shape of a value that is not the raster")
            return done(f"(map (fun _ => {zlit(cint(v.args[1]))}) {sc})", "zg")
        if (isinstance(v, ast.Subscript) and is_intc(v.slice, 0) and is_np_call(v.value, ("where",)) and len(v.value.args) == 1 and not v.value.keywords):
            w = v.value.args[0]
            if not (isinstance(w, ast.Call) and isinstance(w.func, ast.Attribute) and w.func.attr == "ravel" and not w.args and not w.keywords
                    and is_name(w.func.value) and self.env.get(w.func.value.id, (0, 0))[1] == "b33"):
                fail(s, self.fn, "unsupported np.where")
            return done(f"(where_true {self.env[w.func.value.id][0]})", "idx")
        if isinstance(v, ast.Call) and is_name(v.func, M_WINDOW):
            if not (is_name(v.args[0]) and self.env.get(v.args[0].id, (0, 0))[1] == "bg"):
                fail(s, self.fn, "window of a value that is not a boolean raster")
            r, c = self.exZ(v.args[1]), self.exZ(v.args[2])
            return done(f"(window3 ncol {self.env[v.args[0].id][0]} {r} {c})", "bwin")
        if isinstance(v, ast.Call) and is_name(v.func, M_TRUE33):
            return done("(repeat true 9)", "b33")
        if isinstance(v, ast.Call) and is_name(v.func, M_FALSE2):
            if self.env[shape][1] != "zg":
                fail(s, self.fn, "the raster is no longer one")
            return done(f"(repeat false (length {sc}))", "bg")
        if isinstance(v, ast.Call) and is_name(v.func, M_EMPTY):
            if v.args[0].value != HEAPS[self.heap]["arity"]:
                fail(s, self.fn, "arity of the heap entries")
            return done(f"(@nil ({HEAPS[self.heap]['elem']}))", self.heap)
        # q = [heapq.heappop(q)]
        if isinstance(v, ast.List) and len(v.elts) == 1 and heap_call(v.elts[0], "heappop"):
            pc = v.elts[0]
            if not (len(pc.args) == 1 and is_name(pc.args[0], name) and self.env.get(name, (0, 0))[1] in HEAPS):
                fail(s, self.fn, "unsupported pop")
            qc = self.env[name][0]
            b = self.bind(name, "[e_]", self.heap, s)
            return f"{pad}match {HEAPS[self.heap]['pop']} {qc} with\n{pad}| None => None\n{pad}| Some (e_, _) =>\n{pad}{b}\n" + rest_fn() + f"\n{pad}end"
        # gis_utils.get_edge(a, structure=s)
        if (isinstance(v, ast.Call) and isinstance(v.func, ast.Attribute) and is_name(v.func.value, "gis_utils") and v.func.attr == "get_edge"):
            callee = self.hreg.get(("gis_utils.py", "get_edge"))
            if callee is None or len(v.args) != 1 or [kw.arg for kw in v.keywords] != ["structure"] or list(callee["params"]) != ["a", "structure"]:
                fail(s, self.fn, "unsupported call of get_edge")
            (a, ta), (b, tb) = self.ex(v.args[0]), self.ex(v.keywords[0].value)
            if (ta, tb) != ("bg", "b33") or isinstance(v.args[0], ast.Name):
                fail(s, self.fn, "get_edge of unexpected values")       # a fresh array with the shape of the caller's raster
            return done(f"({callee['coq']} nrow ncol {a} {b})", "bg")
        if any(isinstance(n, ast.Call) and is_name(n.func) and n.func.id in MARKERS for n in ast.walk(v)) or isinstance(v, (ast.List, ast.Tuple)):
            fail(s, self.fn, "unsupported value")
        c, t = self.ex(v)
        if t in ("bg", "zl", "zg"):
            if isinstance(v, ast.Name):
                fail(s, self.fn, "a second name for the same array (aliasing is not modelled)")
            return done(c, t)
        if t not in ("nat", "Z", "bool"):
            fail(s, self.fn, f"unsupported local value of type {t}")
        return done(c, t)

    def block(self, body, ind, ctx):
        pad = " " * ind
        if not body:
            return self.fall(ctx, self.fd, pad)
        s, rest = body[0], body[1:]
        rest_fn = lambda: self.block(rest, ind, ctx)
        # a statement that reads q[0]: the least entry (IndexError on an empty heap)
        if not isinstance(s, (ast.If, ast.For, ast.While)) and any(self.heap_top(n) for n in ast.walk(s)):
            if self.top_stmt is not s:
                if not ctx.opt or ctx.kind == "join":
                    fail(s, self.fn, "q[0] in a definition without an error value")
                qs = {n.value.id for n in ast.walk(s) if self.heap_top(n)}
                if len(qs) != 1 or qs & stored2(s):
                    fail(s, self.fn, "unsupported use of q[0]")
                qc = self.env[qs.pop()][0]
                self.top_stmt = s
                txt = self.block(body, ind, ctx)
                return f"{pad}match {HEAPS[self.heap]['pop']} {qc} with\n{pad}| None => None\n{pad}| Some (top_, _) =>\n{txt}\n{pad}end"
        else:
            self.top_stmt = None
        if isinstance(s, ast.Expr) and isinstance(s.value, ast.Call) and is_name(s.value.func, M_RAISE):
            if not ctx.opt or ctx.kind == "join":
                fail(s, self.fn, "raise in a definition without an error value")
            return pad + "None"
        if isinstance(s, ast.Expr) and isinstance(s.value, ast.Call) and is_name(s.value.func, M_ASSERT33):
            x = s.value.args[0]
            if self.env.get(x.id, (0, 0))[1] != "b33":
                fail(s, self.fn, "assertion about a value that is not declared as a 3 x 3 array")
            return f"{pad}(* assert {x.id}.shape == (3, 3): holds by the declaration of {x.id} *)\n" + rest_fn()
        if isinstance(s, ast.Expr) and heap_call(s.value, "heapify"):
            if not (len(s.value.args) == 1 and is_name(s.value.args[0]) and self.env.get(s.value.args[0].id, (0, 0))[1] in HEAPS):
                fail(s, self.fn, "unsupported heapify")
            return f"{pad}(* heapq.heapify({s.value.args[0].id}): the multiset is unchanged *)\n" + rest_fn()
        if self.is_push(s):
            qn = s.value.args[0].id
            qc, qt = self.lookup(s.value.args[0])
            if qt != self.heap:
                fail(s, self.fn, f"{qn} is not the heap")
            where = self.push_site(s)
            e = self.entry(s.value.args[1])
            return pad + self.bind(qn, f"{e} :: {qc}" if where == "front" else f"{qc} ++ [{e}]", qt, s) + "\n" + rest_fn()
        if isinstance(s, ast.Assign) and len(s.targets) == 1:
            t, v = s.targets[0], s.value
            # z0, _, r0, c0 = heapq.heappop(q)
            if isinstance(t, ast.Tuple) and heap_call(v, "heappop"):
                ar = HEAPS[self.heap]["arity"]
                if not (len(v.args) == 1 and is_name(v.args[0]) and self.env.get(v.args[0].id, (0, 0))[1] == self.heap
                        and len(t.elts) == ar and all(is_name(x) for x in t.elts)):
                    fail(s, self.fn, "unsupported pop")
                names = [x.id for x in t.elts]
                real = [n for n in names if n != "_"]
                qn = v.args[0].id
                if len(set(real)) != len(real) or qn in names or "_" in names[-2:]:
                    fail(s, self.fn, "unsupported targets of a pop")
                for n in real:
                    if n in self.env and self.env[n][1] != "Z":
                        fail(s, self.fn, f"{n} changes type")
                qc = self.env[qn][0]
                keys = names[:-2]
                for n in keys:
                    if n != "_":
                        self.bind(n, "", "Z", s)
                self.bind(qn, "", self.heap, s)
                b1 = self.bind(names[-2], "Z.of_nat (i_ / ncol)", "Z", s)
                b2 = self.bind(names[-1], "Z.of_nat (i_ mod ncol)", "Z", s)
                return (f"{pad}match {HEAPS[self.heap]['pop']} {qc} with\n{pad}| None => None\n{pad}| Some (({', '.join(keys + ['i_'])}), {self.env[qn][0]}) =>\n"
                        f"{pad}{b1}\n{pad}{b2}\n" + rest_fn() + f"\n{pad}end")
            # drs, dcs = np.where(S)
            if (isinstance(t, ast.Tuple) and len(t.elts) == 2 and all(is_name(x) for x in t.elts) and is_np_call(v, ("where",))
                    and len(v.args) == 1 and not v.keywords and is_name(v.args[0]) and self.env.get(v.args[0].id, (0, 0))[1] == "b33"):
                a, b = (x.id for x in t.elts)
                if a == b or v.args[0].id in (a, b):
                    fail(s, self.fn, "unsupported targets of np.where")
                sc = self.env[v.args[0].id][0]
                l1 = self.bind(a, f"(map (fun i_ => Z.of_nat (i_ / 3)) (where_true {sc}))", "zl", s)
                l2 = self.bind(b, f"(map (fun i_ => Z.of_nat (i_ mod 3)) (where_true {sc}))", "zl", s)
                return f"{pad}{l1}\n{pad}{l2}\n" + rest_fn()
            if isinstance(t, ast.Subscript) and is_name(t.value):
                a, ta = self.lookup(t.value)
                nm = t.value.id
                if nm in self.spec["params"]:
                    fail(s, self.fn, f"the parameter array {nm} is updated")     # the caller would see the update
                if ta in ("zg", "bg", "b33"):
                    # A[:, :] = c
                    if (isinstance(t.slice, ast.Tuple) and len(t.slice.elts) == 2 and
                            all(isinstance(x, ast.Slice) and x.lower is None and x.upper is None and x.step is None for x in t.slice.elts)):
                        c, tc = self.ex(v)
                        if names_in(v) or (ta, tc) not in (("bg", "bool"), ("zg", "Z")):
                            fail(s, self.fn, "a raster is filled with a constant")
                        return pad + self.bind(nm, f"(map (fun _ => {c}) {a})", ta, s) + "\n" + rest_fn()
                    if isinstance(t.slice, ast.Call) and is_name(t.slice.func, M_FLAT):
                        if ta == "b33":
                            fail(s, self.fn, "unsupported store")
                        i = self.ex_idx(t.slice.args[0])
                    elif ta == "b33":
                        i = self.cell33(t.slice, s)
                    else:
                        i = self.cell(t.slice, s)
                    c, tc = self.ex(v)                                  # Python evaluates the value first
                    if tc not in ("Z", "nat") if ta == "zg" else tc != "bool":
                        fail(s, self.fn, "store of a value of the wrong type")
                    val = self.toZ(c, tc, s) if ta == "zg" else c
                    return pad + self.bind(nm, f"upd {a} {i} {val}", ta, s) + "\n" + rest_fn()
        # if X is None: .. else: ..   on an optional parameter
        if isinstance(s, ast.If):
            nt = none_test(s.test)
            if nt is not None and nt[0] in self.env and self.env[nt[0]][1] in OPTIONAL and not self.refined.get(nt[0]):
                if ctx.kind == "join":
                    fail(s, self.fn, "unsupported conditional in a branch")
                x, isnone = nt
                b_none, b_some = (s.body, s.orelse) if isnone else (s.orelse, s.body)
                saved = (dict(self.env), dict(self.refined))
                a = self.block(list(b_none) + rest, ind + 2, ctx)
                self.env, self.refined = dict(saved[0]), dict(saved[1])
                cx, tx = self.env[x]
                self.env[x] = (f"{x}_", OPTIONAL[tx])
                self.refined[x] = True
                b = self.block(list(b_some) + rest, ind + 2, ctx)
                self.env, self.refined = saved
                return f"{pad}match {cx} with\n{pad}| None =>\n{a}\n{pad}| Some {x}_ =>\n{b}\n{pad}end"
            c, t = self.ex(s.test)
            if t != "bool":
                fail(s, self.fn, "non-boolean condition")
            if rest and self.simple(s.body) and self.simple(s.orelse):
                names = [nm for nm in self.env if nm in stored2(s)]
                if not names:
                    fail(s, self.fn, "a conditional without effect")
                j = Ctx("join", join=names, types=[self.env[nm][1] for nm in names])
                saved = dict(self.env)
                a = self.block(list(s.body), ind + 2, j)
                self.env = dict(saved)
                b = self.block(list(s.orelse), ind + 2, j)
                self.env = saved
                return f"{pad}let {pat(self.env[nm][0] for nm in names)} := if {c} then\n{a}\n{pad}else\n{b} in\n" + rest_fn()
            if ctx.kind == "join":
                fail(s, self.fn, "unsupported conditional in a branch")
            saved = dict(self.env)
            a = self.block(list(s.body) + rest, ind + 2, ctx)
            self.env = dict(saved)
            b = self.block(list(s.orelse) + rest, ind + 2, ctx)
            self.env = saved
            return f"{pad}if {c} then\n{a}\n{pad}else\n{b}"
        if isinstance(s, (ast.For, ast.While)) and self.is_opt(s) and isinstance(s, ast.For):
            fail(s, self.fn, "a for loop with an error value")
        return super().block(body, ind, ctx)

    def push_site(self, s):
        """the declared position of the push site `s` (sites are numbered in source order, by line)"""
        sites = sorted({(n.lineno, n.col_offset) for n in ast.walk(self.fd) if isinstance(n, ast.Expr) and self.is_push(n)})
        if len(sites) != len(self.spec["pushes"]):
            fail(s, self.fn, f"{len(sites)} push sites, {len(self.spec['pushes'])} declared positions")
        k = sites.index((s.lineno, s.col_offset))
        self.sites.add(k)
        return self.spec["pushes"][k]

    # ---------------------------------------------------------------- loops
    def loop_target(self, s):
        """(coq variable, its type, bindings at the head of the body [(python name, coq text, type)], domain)"""
        t, it = s.target, s.iter
        if isinstance(t, ast.Tuple) and len(t.elts) == 2 and all(is_name(x) for x in t.elts) and t.elts[0].id != t.elts[1].id:
            a, b = (x.id for x in t.elts)
            if isinstance(it, ast.Call) and is_name(it.func, M_WHERE2):
                arr = it.args[0].id
                if self.env.get(arr, (0, 0))[1] != "bg" or arr in stored2(s):
                    fail(s, self.fn, "unsupported np.where in a loop head")
                return "i_", "nat", [(a, "Z.of_nat (i_ / ncol)", "Z"), (b, "Z.of_nat (i_ mod ncol)", "Z")], f"(where_true {self.env[arr][0]})"
            if (isinstance(it, ast.Call) and is_name(it.func, "zip") and len(it.args) == 2 and not it.keywords and all(is_name(x) for x in it.args)
                    and all(self.env.get(x.id, (0, 0))[1] == "zl" for x in it.args)):
                if {x.id for x in it.args} & stored2(s):
                    fail(s, self.fn, "the loop assigns the array it runs over")
                u, v = (self.env[x.id][0] for x in it.args)
                return "v_", "Z * Z", [(a, "fst v_", "Z"), (b, "snd v_", "Z")], f"(combine {u} {v})"
            fail(s, self.fn, "unsupported loop domain")
        if not is_name(t):
            fail(s, self.fn, "unsupported loop target")
        if isinstance(it, ast.Call) and is_name(it.func, "range") and not it.keywords:
            if len(it.args) == 2 and is_intc(it.args[0], 0) and cint(it.args[1]) is None:
                return t.id, "nat", [], f"(seq 0 {self.tonat(*self.ex(it.args[1]), it)})"
            if len(it.args) == 2:
                lo, hi = (cint(x) for x in it.args)
                if lo is None or hi is None:
                    fail(s, self.fn, "range(a, b) with bounds that are not constants")
                return t.id, "Z", [], "[" + "; ".join(zlit(k) for k in range(lo, hi)) + "]"
            if len(it.args) == 1:
                return t.id, "nat", [], f"(seq 0 {self.tonat(*self.ex(it.args[0]), it)})"
        if is_name(it) and self.env.get(it.id, (0, 0))[1] == "idx":
            if it.id in stored2(s):
                fail(s, self.fn, "the loop assigns the array it runs over")
            return t.id, "nat", [], self.env[it.id][0]
        fail(s, self.fn, "unsupported loop domain")

    def loop(self, s, pad, rest_fn, ctx):
        isfor = isinstance(s, ast.For)
        k = self.loopno[id(s)]
        name = f"{self.coqname}_loop{k}"
        stored = stored2(s)
        for nm in stored:
            if nm in self.env and self.env[nm][1] in ("strmin", "zt") + tuple(OPTIONAL):
                fail(s, self.fn, f"the loop assigns the parameter {nm}")
        heads = []
        if isfor:
            var, vtype, heads, dom = self.loop_target(s)
            tnames = {n.id for n in ast.walk(s.target) if isinstance(n, ast.Name)}
            for nm in tnames:
                if nm in self.env:
                    fail(s, self.fn, f"the loop variable {nm} is in use")
            if tnames & stored2(ast.Module(body=s.body, type_ignores=[])):
                fail(s, self.fn, "the loop variable is assigned in the body")
            stored = stored - tnames
        inside = {id(n) for n in ast.walk(s)}
        end = (s.end_lineno, s.end_col_offset)
        loaded_out = {n.id for n in self.loads if id(n) not in inside and (n.lineno, n.col_offset) >= end}
        loaded_in = {n.id for st_ in s.body for n in ast.walk(st_) if isinstance(n, ast.Name)}
        if not isfor:
            loaded_in |= names_in(s.test)
        state = [nm for nm in self.env if nm in stored]
        types = [self.env[nm][1] for nm in state]
        if not state:
            fail(s, self.fn, "the loop updates nothing")
        # a name that is first bound inside the loop is not in the environment after it: a later read of it is an unknown name
        fixed = [(c, t) for c, t in self.fixed]
        fixed_c = {c for c, _ in fixed}
        consts = [nm for nm in self.env if nm in loaded_in and nm not in stored and self.env[nm][0] not in fixed_c
]
        for nm in state + consts:
            if self.env[nm][1] not in COQTY and self.env[nm][1] != "zflat":
                fail(s, self.fn, f"unsupported type of {nm}")
        ty = lambda t: "list Z" if t == "zflat" else COQTY[t]
        opt = self.is_opt(s)
        entry = dict(self.env)
        if any(isinstance(n, ast.Break) for n in self.own_nodes(s)):
            fail(s, self.fn, "break")
        kind = "step" if isfor else "while"
        defname = name + ("_step" if kind == "step" else "")
        fargs = [c for c, _ in fixed]
        cargs = [self.env[nm][0] for nm in consts]
        inner = Ctx(kind, state=state, types=types, opt=opt)
        self.env = dict(entry)
        head = ""
        if isfor:
            for pn, ct, tt in heads:
                head += f"    {self.bind(pn, ct, tt, s)}\n"
            if not heads:
                self.env[var] = (var, vtype)
        else:
            if isinstance(s.test, ast.Constant):
                fail(s, self.fn, "while with a constant condition")
            c, t = self.ex(s.test)
            if t != "bool":
                fail(s, self.fn, "non-boolean loop condition")
        inner.call = "\0CALL\0"
        self.kinds.append(kind)
        body = head + self.block(list(s.body), 4, inner)
        self.kinds.pop()
        if kind == "while":
            self.env = dict(entry)
            body = f"  if {c} then\n{body}\n  else\n    Some {self.state_tuple(inner, s)}"
        self.env = entry
        call = " ".join([defname] + fargs + self.extra_args(kind) + cargs)
        body = body.replace("\0CALL\0", call)
        sttype = " * ".join(ty(t) for t in types)
        rtype = f"option ({sttype})" if opt else sttype
        binders = [f"({c} : {ty(t)})" for c, t in fixed] + self.extra_binders(kind) + [f"({self.env[nm][0]} : {ty(self.env[nm][1])})" for nm in consts]
        spat = pat(self.env[nm][0] for nm in state)
        if kind == "step":
            text = (f"Definition {defname} {' '.join(binders)} (st : {sttype}) ({var} : {vtype}) : {rtype} :=\n"
                    f"  let {spat} := st in\n{body}.")
        else:
            text = (f"Fixpoint {defname} {' '.join(binders)} (fuel : nat) (st : {sttype}) {{struct fuel}} : {rtype} :=\n"
                    f"  let {spat} := st in\n{body}.")
        if id(s) in self.cache:
            if self.cache[id(s)] != text:
                fail(s, self.fn, "the loop is reached on two paths with different translations")
        else:
            self.cache[id(s)] = text
            self.defs.append(text)
        init = tup(self.env[nm][0] for nm in state)
        opat = tup(self.env[nm][0] for nm in state)
        if kind == "step":
            run = f"ofold ({call}) {dom} {init}" if opt else f"fold_left ({call}) {dom} {init}"
        else:
            run = f"{call} {self.fuel[id(s)]} {init}"
        if opt:
            if not ctx.opt:
                fail(s, self.fn, "a loop with an error result in a definition without")
            return f"{pad}match {run} with\n{pad}| None => None\n{pad}| Some {opat} =>\n" + rest_fn() + f"\n{pad}end"
        return f"{pad}let {pat(self.env[nm][0] for nm in state)} := {run} in\n" + rest_fn()

    # ---------------------------------------------------------------- results
    def ret_one(self, v, s):
        c, t = self.ex(v)
        if t == "zflat":
            t = "zg"
        if t not in ("zg", "bg"):
            fail(s, self.fn, f"unsupported return value of type {t}")
        return c, t

    def translate(self):
        self.header()
        body = list(self.fd.body)
        self.terminal_last(body)
        text = self.block(body, 2, Ctx("fn", opt=self.opt))
        if self.ret is None:
            fail(self.fd, self.fn, "no return")
        if len(self.sites) != len(self.spec["pushes"]):
            fail(self.fd, self.fn, "a declared push site was not translated")
        binders = [f"({c} : {COQTY[t]})" for c, t in self.binders] + self.abs_binders
        rt = self.ret if isinstance(self.ret, tuple) else (self.ret,)
        rtype = " * ".join(COQTY[t] for t in rt)
        restr = ", ".join(f"{p} = {v!r}" for p, v in self.spec["fixed"].items())
        out = [f"(* {self.fn}: {self.fd.name}" + (f", restricted to {restr} *)" if restr else " *)")] + self.defs
        out.append(f"Definition {self.coqname} {' '.join(binders)} : " + (f"option ({rtype})" if self.opt else rtype) + " :=")
        return "\n".join(out) + "\n" + text + ".", dict(coq=self.coqname, params=self.spec["params"])


def gen_heap():
    parts = ["(* GENERATED by tools/gen_heap.py from /repo/pyflwdir -- do not edit *)",
             "From Coq Require Import List Arith ZArith Bool.", "Import ListNotations.",
             "From PF Require Import Arr Flood Spread.", "From PFG Require Import GenTables.", "", PRELUDE, ""]
    errors, reg = [], {}
    for spec in FUNCS:
        try:
            text, info = HFn(spec, parse(spec["src"]), reg).translate()
            reg[(spec["src"], spec["name"])] = info
            parts += [text, ""]
        except GenError as e:
            # left out (its equality proof stops compiling); the other kernels belong to other properties
            errors.append(str(e))
            parts += ["(* NOT TRANSLATED: %s -- %s *)" % (spec["name"], str(e).replace("*)", "* )")), ""]
    return "\n".join(parts)


gen.GENERATORS["GenHeap.v"] = gen_heap

if __name__ == "__main__":
    print(gen_heap())
