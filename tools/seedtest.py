#!/usr/bin/env python3
"""seedtest.py <seed_dir> <PID> [more PIDs]: confirm a seeded change (tests pass, demo fails with it / passes
without it) in a scratch worktree, then apply it to /repo, run the named checks, and undo it."""
import json, os, subprocess, sys, shutil, time

seed, pids = os.path.abspath(sys.argv[1]), sys.argv[2:]
patch = os.path.join(seed, "patch.diff")
demo = os.path.join(seed, "demo.py")
env = dict(os.environ, NUMBA_DISABLE_JIT="1", PYTHONDONTWRITEBYTECODE="1")


def sh(cmd, cwd=None, **kw):
    p = subprocess.run(cmd, shell=True, cwd=cwd, stdout=subprocess.PIPE, stderr=subprocess.STDOUT, text=True, env=kw.get("env", env))
    return p.returncode, p.stdout


wt = f"/tmp/seedwt_{os.getpid()}"
res = {"seed": seed}
sh(f"git -C /repo worktree add -q --detach {wt} HEAD")
try:
    e = dict(env, PYTHONPATH=wt)
    rc, out = sh(f"/venv/bin/python {demo}", cwd=wt, env=e)
    res["demo_clean_rc"] = rc
    rc, out = sh(f"git apply {patch}", cwd=wt)
    res["apply_rc"] = rc
    if rc != 0:
        res["apply_out"] = out[-300:]
    else:
        rc, out = sh("/venv/bin/python -m pytest -q -p no:cacheprovider -x 2>&1 | tail -2", cwd=wt)
        res["tests"] = out.strip().splitlines()[-1][:60]
        rc, out = sh(f"/venv/bin/python {demo}", cwd=wt, env=e)
        res["demo_patched_rc"] = rc
finally:
    sh(f"git -C /repo worktree remove --force {wt}")
if res.get("apply_rc") == 0:
    rc, _ = sh(f"git -C /repo apply {patch}")
    try:
        for pid in pids:
            t0 = time.time()
            # the evidence file describes the UNCHANGED tree: keep it across this run on a patched tree
            ev = f"/verif/evidence/{pid}.json"
            keep = open(ev).read() if os.path.exists(ev) else None
            rc, out = sh(f"./check {pid} quick", cwd="/verif", env=os.environ)
            if keep is not None:
                open(ev, "w").write(keep)
            lines = [l for l in out.splitlines() if l.startswith("VIOLATION") or l.startswith(pid)]
            res[f"check_{pid}"] = {"rc": rc, "lines": lines, "s": round(time.time() - t0)}
    finally:
        sh("git -C /repo checkout -- .")
print(json.dumps(res, indent=1))
