"""C01 — decoding D8 / LDD / NEXTXY rasters."""
import itertools
import numpy as np

PID = "C01"
THEOREMS = ["d8_drdc_table", "ldd_drdc_table", "d8_convention", "ldd_convention",
            "d8_all_complete", "ldd_all_complete",
            "d8_decode_spec", "ldd_decode_spec", "d8_decode_wf", "ldd_decode_wf",
            "nextxy_decode_spec", "nextxy_decode_wf",
            "pits_exact", "pits_sorted", "mask_excluded", "infer_sound", "gen_pit_indices_eq", "gen_d8_from_array_eq", "gen_ldd_from_array_eq", "gen_nextxy_from_array_eq"]
RULE = ("exhaustive rasters over the legal code set on all shapes with <= 4 cells (quick) / <= 5 (thorough) for D8 "
        "and LDD (2x2 exhaustive, 1x4 / 4x1 sampled), NEXTXY targets on <= 3 cells (2 cells exhaustive, 3 cells sampled), random rasters "
        "to 8x8 and, in about 6 % of the cases, with more than 256 cells (to 2x140) through pyflwdir.from_array with masks (for NEXTXY "
        "also the documented 2-D mask and the (nextx, nexty) pair), explicit and inferred ftype, matching and mismatching dtypes; a case is non-trivial when the raster "
        "has at least one non-pit link or one nodata cell")
ASSUMPTIONS = ["np.log2 on the legal power-of-two codes is exact (Z.log2 in the regenerated drdc)",
               "integer casts in drdc are the identity on the legal codes"]

D8_ALL = [32, 64, 128, 16, 0, 1, 8, 4, 2, 247, 255]
LDD_ALL = [7, 8, 9, 4, 5, 6, 1, 2, 3, 255]
# the conventions as the property states them (independent of the repository's tables)
D8_DIR = {1: (0, 1), 2: (1, 1), 4: (1, 0), 8: (1, -1), 16: (0, -1), 32: (-1, -1), 64: (-1, 0), 128: (-1, 1),
          0: (0, 0), 255: (0, 0)}
LDD_DIR = {6: (0, 1), 3: (1, 1), 2: (1, 0), 1: (1, -1), 4: (0, -1), 7: (-1, -1), 8: (-1, 0), 9: (-1, 1), 5: (0, 0)}
SHAPES = {2: [(1, 2), (2, 1)], 3: [(1, 3), (3, 1)], 4: [(1, 4), (4, 1), (2, 2)], 5: [(1, 5), (5, 1)],
          6: [(2, 3), (3, 2), (1, 6), (6, 1)]}


def cases(tier, rng):
    maxcells = 4 if tier == "quick" else 5
    for ncell in range(2, maxcells + 1):
        for (nr, nc) in SHAPES[ncell]:
            for k, codes in ((101, D8_ALL), (102, LDD_ALL)):
                if ncell == 4 and tier == "quick" and (nr, nc) != (2, 2):
                    # 1x4 / 4x1 : random third in quick
                    allr = [t for t in itertools.product(codes, repeat=ncell) if rng.random() < 0.2]
                else:
                    allr = itertools.product(codes, repeat=ncell)
                for flw in allr:
                    yield {"k": k, "args": [[nr], [nc], list(flw)], "group": f"exh-{'d8' if k == 101 else 'ldd'}-{nr}x{nc}"}
    # NEXTXY kernel: every (x, y) target pair from a small alphabet on <= 3 cells
    for (nr, nc) in [(1, 2), (2, 1), (1, 3), (3, 1)] + ([(2, 2)] if tier != "quick" else []):
        n = nr * nc
        xs = [-9999, -9, -10, 0, 1, 2] + ([3] if nc >= 3 else []) + [nc + 1]
        ys = [-9999, -9, -10, 0, 1, 2] + ([3] if nr >= 3 else []) + [nr + 1]
        pairs = [(x, y) for x in xs for y in ys if (x == -9999) == (y == -9999) or rng.random() < 0.3]
        if n >= 3:
            pairs = [p for p in pairs if rng.random() < (0.35 if tier == "quick" else 0.6)]
        for combo in itertools.product(pairs, repeat=n):
            if n >= 3 and rng.random() > (0.15 if tier == "quick" else 0.5):
                continue
            yield {"k": 103, "args": [[nr], [nc], [p[0] for p in combo], [p[1] for p in combo]], "group": f"exh-nextxy-{nr}x{nc}"}
    # API level, random
    nrand = 600 if tier == "quick" else 6000
    for _ in range(nrand):
        nr, nc = rng.randint(1, 8), rng.randint(1, 8)
        if nr * nc < 2:
            nc = 2
        if rng.random() < 0.06:
            # rasters with more than 256 cells: cell numbers then exceed every code value (247, 255) and every small sentinel
            # (round-6 seed: the LDD nodata code 255 used as "off the raster" hid the real cell 255)
            nr, nc = rng.choice([(16, 17), (17, 16), (13, 21), (9, 30), (33, 8), (2, 140)])
        n = nr * nc
        fmt = rng.choice([0, 0, 1, 1, 2])
        req = rng.choice([fmt, fmt, 3, 3, rng.randint(0, 2)])
        tag = fmt if fmt == 2 and False else (0 if fmt < 2 else 1)
        if rng.random() < 0.08:
            tag = rng.choice([0, 1, 2])
        pn = rng.choice([0.0, 0.1, 0.4])
        if fmt == 0:
            w = [c for c in D8_ALL if c != 247]
            a = [247 if rng.random() < pn else rng.choice(w) for _ in range(n)]
            b = []
            if rng.random() < 0.05:
                a[rng.randrange(n)] = rng.choice([3, 5, 7, 100, 246])
        elif fmt == 1:
            w = [c for c in LDD_ALL if c != 255]
            a = [255 if rng.random() < pn else rng.choice(w) for _ in range(n)]
            b = []
            if rng.random() < 0.05:
                a[rng.randrange(n)] = rng.choice([0, 10, 247])
        else:
            a, b = [], []
            for i in range(n):
                u = rng.random()
                if u < pn:
                    a.append(-9999); b.append(-9999)
                elif u < pn + 0.15:
                    p = rng.choice([-9, -10]); a.append(p); b.append(p)
                else:
                    a.append(rng.randint(0, nc + 1)); b.append(rng.randint(0, nr + 1))
            if rng.random() < 0.05:
                j = rng.randrange(n)
                a[j] = rng.choice([-9, -9999, -3]); b[j] = rng.choice([-10, 1, -9999])
        if tag == 1 and fmt != 2:
            b = [rng.choice(a) for _ in range(n)]
        if tag == 0 and fmt == 2:
            a = [v % 256 for v in a]
        hasmask = 1 if rng.random() < 0.4 else 0
        ma = [1 if rng.random() < 0.8 else 0 for _ in range(n)] if hasmask else []
        mb = ([1 if rng.random() < 0.9 else 0 for _ in range(n)] if hasmask and tag == 1 else [])
        # the mask is "valid where non-zero": flags may be 1, 255, a basin id, a float
        mval = rng.choice(["bool", "u8:1", "u8:255", "i32:7", "f64:2.0"]) if hasmask else "bool"
        call = {"mval": mval}
        if tag == 1:
            # NEXTXY given as the (nextx, nexty) pair the format module documents, and the documented 2-D user mask
            if req in (2, 3) and rng.random() < 0.4:      # (a pair requested as D8 / LDD is a caller error outside the property)
                call["xyform"] = "tuple"
            if hasmask and rng.random() < 0.5:
                call["mask2d"] = 1
                mb = list(ma)
        yield {"k": 104, "args": [[req], [tag], [nr], [nc], a, b, [hasmask], ma, mb], "call": call, "group": f"api-fmt{fmt}-req{req}-tag{tag}"}
    for dd in D8_ALL:
        if dd != 247:
            yield {"k": 105, "args": [[dd]], "group": "drdc"}
    for dd in LDD_ALL:
        if dd != 255:
            yield {"k": 106, "args": [[dd]], "group": "drdc"}


def _net_out(res):
    from common import net_canon
    idxs_ds, pits, n = res
    return [net_canon(idxs_ds), [int(x) for x in pits], [int(n)]]


def impl(case):
    from common import call_impl, net_canon
    import pyflwdir
    from pyflwdir import core_d8, core_ldd, core_nextxy
    k, a = case["k"], case["args"]
    if k in (101, 102):
        mod = core_d8 if k == 101 else core_ldd
        flw = np.array(a[2], dtype=np.uint8).reshape(a[0][0], a[1][0])
        st, v = call_impl(mod.from_array, flw)
        return _net_out(v) if st == "ok" else [[-2], [st]]
    if k == 103:
        nx = np.array(a[2], dtype=np.int32).reshape(a[0][0], a[1][0])
        ny = np.array(a[3], dtype=np.int32).reshape(a[0][0], a[1][0])
        st, v = call_impl(core_nextxy.from_array, (nx, ny))
        return _net_out(v) if st == "ok" else [[-2], [st]]
    if k == 104:
        req, tag, nr, nc = a[0][0], a[1][0], a[2][0], a[3][0]
        A, B, hasmask, ma, mb = a[4], a[5], a[6][0], a[7], a[8]
        def mk(m):
            mv_ = (case.get("call") or {}).get("mval", "bool")
            b = np.array(m, dtype=bool).reshape(nr, nc)
            if mv_ == "bool":
                return b
            dt, val = mv_.split(":")
            return (b * float(val)).astype({"u8": np.uint8, "i32": np.int32, "f64": np.float64}[dt])
        if tag == 0:
            data = np.array(A, dtype=np.uint8).reshape(nr, nc)
            mask = mk(ma) if hasmask else None
        elif tag == 1:
            data = np.stack([np.array(A, dtype=np.int32).reshape(nr, nc), np.array(B, dtype=np.int32).reshape(nr, nc)])
            mask = np.stack([mk(ma), mk(mb)]) if hasmask else None
            if hasmask and (case.get("call") or {}).get("mask2d"):
                mask = mk(ma)
            if (case.get("call") or {}).get("xyform") == "tuple":
                data = (data[0], data[1])
        else:
            data = np.array(A, dtype=np.int16).reshape(nr, nc)
            mask = mk(ma) if hasmask else None
        ftype = ["d8", "ldd", "nextxy", "infer"][req]
        st, v = call_impl(pyflwdir.from_array, data, ftype=ftype, mask=mask)
        if st == "ValueError":
            return [[1]]
        if st != "ok":
            return [[-2], [st]]
        ft = ["d8", "ldd", "nextxy"].index(v.ftype)
        n = int(np.sum(v.idxs_ds != v._mv))
        return [[0, ft], net_canon(v.idxs_ds), [int(x) for x in v.idxs_pit], [n]]
    if k in (105, 106):
        mod = core_d8 if k == 105 else core_ldd
        dr, dc = mod.drdc(np.uint8(a[0][0]))
        return [[int(dr), int(dc)]]
    raise ValueError(k)


def _expected(fmt, nr, nc, a, b):
    """independent rendering of the property statement"""
    n = nr * nc
    ds = []
    for i in range(n):
        r, c = divmod(i, nc)
        if fmt == 2:
            if a[i] == -9999:
                ds.append(-1); continue
            pit = a[i] in (-9, -10) or b[i] in (-9, -10)
            r1, c1 = b[i] - 1, a[i] - 1
        else:
            mvv = 247 if fmt == 0 else 255
            if a[i] == mvv:
                ds.append(-1); continue
            dr, dc = (D8_DIR if fmt == 0 else LDD_DIR)[a[i]]
            pit = (dr, dc) == (0, 0)
            r1, c1 = r + dr, c + dc
        if pit or not (0 <= r1 < nr and 0 <= c1 < nc):
            ds.append(i); continue
        j = r1 * nc + c1
        nod = (a[j] == -9999) if fmt == 2 else (a[j] == (247 if fmt == 0 else 255))
        ds.append(i if nod else j)
    pits = [i for i in range(n) if ds[i] == i]
    return [ds, pits, [sum(1 for d in ds if d >= 0)]]


def oracle(case, out):
    k, a = case["k"], case["args"]
    if out and out[0] == [-2]:
        return ("decode:unexpected-exception", f"kernel raised {out[1]}")
    if k in (101, 102, 103):
        fmt = k - 101
        exp = _expected(fmt, a[0][0], a[1][0], a[2], a[3] if k == 103 else None)
        if out != exp:
            return (f"decode:{['d8','ldd','nextxy'][fmt]}", f"expected {exp} got {out}")
        return None
    if k == 104:
        req, tag, nr, nc = a[0][0], a[1][0], a[2][0], a[3][0]
        A, B, hasmask, ma, mb = a[4], a[5], a[6][0], a[7], a[8]
        d8ok = tag == 0 and all(v in D8_ALL for v in A)
        lddok = tag == 0 and all(v in LDD_ALL for v in A)
        xyok = tag == 1 and all(((x == y) if x in (-9999, -9, -10) else x >= 0) for x, y in zip(A, B))
        if req == 3:
            ft = 0 if d8ok else 1 if lddok else 2 if xyok else 3
        else:
            ft = req if [d8ok, lddok, xyok][req] else 3
        if ft == 3:
            return None if out == [[1]] else ("api:invalid-accepted", f"invalid raster accepted: {out}")
        if hasmask:
            mvv = [247, 255, -9999][ft]
            A = [v if m else mvv for v, m in zip(A, ma)]
            if ft == 2:
                B = [v if m else mvv for v, m in zip(B, mb)]
        exp = _expected(ft, nr, nc, A, B)
        if not exp[1]:
            return None if out == [[1]] else ("api:no-pits", f"network without pits accepted: {out}")
        if out != [[0, ft]] + exp:
            return ("api:decode", f"expected {[[0, ft]] + exp} got {out}")
        return None
    if k in (105, 106):
        exp = (D8_DIR if k == 105 else LDD_DIR)[a[0][0]]
        return None if out == [list(exp)] else ("drdc", f"expected {exp} got {out}")
    return None


def nontrivial(case, out):
    k = case["k"]
    if k in (105, 106):
        return True
    if out and out[0] == [-2]:
        return True
    ds = out[1] if k == 104 and len(out) > 1 else (out[0] if k != 104 else [])
    return any(d == -1 for d in ds) or any(d >= 0 and d != i for i, d in enumerate(ds))


def shrink_candidates(case):
    k, a = case["k"], case["args"]
    if k == 104:
        if a[6][0]:
            yield {**case, "args": a[:6] + [[0], [], []]}
        if a[0][0] == 3:
            for r in (0, 1, 2):
                yield {**case, "args": [[r]] + a[1:]}
