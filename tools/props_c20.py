"""C20 — nearest-source spreading; dissolving regions."""
import heapq, itertools, math
import numpy as np

PID = "C20"
THEOREMS = ["spread_sound", "spread_upper", "spread_attained", "dissolve_labels_spec", "dissolve_idxs_spec", "gen_spread2d_total"]
RULE = ("observation / mask patterns on shapes up to 2x3 (exhaustive over {nodata, a, b} x mask), random rasters to 8x8 "
        "(12x12 thorough) with integer frictions 1..3 on 3-4-5 cells (all float32 sums exact) through gis_utils.spread2d, "
        "compared with the model and with an independent Dijkstra; geographic grids on both hemispheres and both "
        "y-orientations against a float Dijkstra; projected grids whose cell sizes are no float32 numbers (0.3 x 0.7, 1/3, ...): at most 40 queue entries per cell on 30-36 cell wide rasters, distances against a float Dijkstra; float64 observations with NaN as the nodata value (group rand-int-nan); regions.region_dissolve on random label maps (3-4-5 cells: compared with the model, by labels and by locations; unit cells: oracle); non-trivial = some cell "
        "is filled from a source at distance > 0")
ASSUMPTIONS = ["costs are integers in the model (3-4-5 cells x integer friction); geographic / general float costs are "
               "checked by the oracle only (float32 accumulation compared to 1e-5 relative)",
               "ties between equally distant sources: any source attaining the minimum is accepted by the oracle"]


def cases(tier, rng):
    for (nr, nc) in [(1, 2), (1, 3), (2, 2), (2, 3), (3, 2)]:
        n = nr * nc
        for obs in itertools.product([0, 5, 9], repeat=n):
            if all(v == 0 for v in obs):
                continue
            if n == 6 and rng.random() > (0.3 if tier == "quick" else 1.0):
                continue
            hm = rng.randrange(2)
            msk = [int(rng.random() < 0.75) for _ in range(n)] if hm else []
            hf = rng.randrange(2)
            frc = [rng.randint(1, 3) for _ in range(n)] if hf else []
            dxy = rng.choice([[3, 4, 5], [4, 3, 5], [1, 1, 0]])
            if dxy[2] == 0:
                continue
            yield {"k": 2001, "args": [[nr], [nc], list(obs), [hm], msk, [0], [hf], frc, dxy], "group": f"exh-{nr}x{nc}"}
    mx = 8 if tier == "quick" else 12
    for t in range(250 if tier == "quick" else 2500):
        nr, nc = rng.randint(1, mx), rng.randint(2, mx)
        n = nr * nc
        nod = rng.choice([0, -1])
        obs = [(rng.randint(1, 9) if rng.random() < 0.12 else nod) for _ in range(n)]
        if all(v == nod for v in obs):
            obs[rng.randrange(n)] = 3
        hm = rng.randrange(2)
        msk = [int(rng.random() < 0.8) for _ in range(n)] if hm else []
        hf = rng.randrange(2)
        frc = [rng.randint(1, 3) for _ in range(n)] if hf else []
        yield {"k": 2001, "args": [[nr], [nc], obs, [hm], msk, [nod], [hf], frc, rng.choice([[3, 4, 5], [4, 3, 5]])], "group": "rand-int"}
    # compact patches of observation cells (plus shapes, blocks) with strongly varying friction: an enclosed source cell
    # can be the cheapest way out through a diagonal (round-2 seed: enclosed sources not queued)
    for t in range(150 if tier == "quick" else 1500):
        nr, nc = rng.randint(3, mx), rng.randint(3, mx)
        n = nr * nc
        nod = rng.choice([0, -1])
        obs = [nod] * n
        frc = [rng.randint(3, 9) for _ in range(n)]
        for _ in range(rng.randint(1, 3)):
            r, c = rng.randint(1, nr - 2), rng.randint(1, nc - 2)
            shape = rng.choice(["plus", "plus", "block", "L"])
            cells = {"plus": [(0, 0), (-1, 0), (1, 0), (0, -1), (0, 1)], "block": [(0, 0), (0, 1), (1, 0), (1, 1), (-1, 0), (0, -1)],
                     "L": [(0, 0), (1, 0), (0, 1), (-1, 0)]}[shape]
            for k, (dr, dc) in enumerate(cells):
                if 0 <= r + dr < nr and 0 <= c + dc < nc:
                    obs[(r + dr) * nc + c + dc] = k + 1
            frc[r * nc + c] = 1
        hm = int(rng.random() < 0.3)
        msk = [int(rng.random() < 0.9) for _ in range(n)] if hm else []
        yield {"k": 2001, "args": [[nr], [nc], obs, [hm], msk, [nod], [1], frc, rng.choice([[3, 4, 5], [4, 3, 5]])], "group": "patches"}
    # region_dissolve on 3-4-5 cells (all costs exact): compared with the model, by labels and by locations
    for t in range(200 if tier == "quick" else 2000):
        nr, nc = rng.randint(1, 7), rng.randint(2, 7)
        n = nr * nc
        seeds = rng.sample(range(n), min(rng.randint(2, 5), n))
        ids = rng.sample(range(1, 12), len(seeds))
        regs = []
        for i in range(n):
            r, c = divmod(i, nc)
            k = min(range(len(seeds)), key=lambda q: (max(abs(seeds[q] // nc - r), abs(seeds[q] % nc - c)), q))
            regs.append(ids[k])
        if rng.random() < 0.2:      # background cells (label 0) are spread over as well
            for i in range(n):
                if rng.random() < 0.15:
                    regs[i] = 0
        present = sorted(set(v for v in regs if v > 0))
        if len(present) < 2:
            continue
        kill = rng.sample(present, rng.randint(1, len(present) - 1))
        by_idxs = rng.random() < 0.5
        locs = [rng.choice([i for i in range(n) if regs[i] == k]) for k in kill] if by_idxs else []
        yield {"k": 2002, "args": [[nr], [nc], regs, [] if by_idxs else kill, [int(by_idxs)], locs, rng.choice([[3, 4, 5], [4, 3, 5]])],
               "call": {"kill": kill}, "group": "dissolve-" + ("idxs" if by_idxs else "labels")}
    # nested dissolved regions: a core inside a ring, both dissolved in one call, between two surviving halves (round-5
    # seed: the nearest cell searched on the rim of the union of the dissolved regions)
    for t in range(60 if tier == "quick" else 600):
        nr, nc = rng.randint(5, 8), rng.randint(6, 9)
        split = rng.randint(1, nc - 1)
        a1, a2, b, c = rng.sample(range(1, 12), 4)
        regs = [(a1 if i % nc < split else a2) for i in range(nr * nc)]
        h, w = rng.randint(3, nr - 1), rng.randint(3, nc - 1)
        r0, c0 = rng.randint(0, nr - h), rng.randint(0, nc - w)
        for r in range(r0, r0 + h):
            for cc in range(c0, c0 + w):
                regs[r * nc + cc] = b
        rc, ccn = rng.randint(r0 + 1, r0 + h - 2), rng.randint(c0 + 1, c0 + w - 2)
        regs[rc * nc + ccn] = c
        if len(set(regs)) < 4:
            continue
        yield {"k": 2002, "args": [[nr], [nc], regs, [b, c], [0], [], rng.choice([[3, 4, 5], [4, 3, 5]])],
               "call": {"kill": [b, c]}, "group": "dissolve-nested"}
    for t in range(60 if tier == "quick" else 600):
        yield {"k": 2000, "args": [[t]], "call": {"what": rng.choice(["geo", "geo", "dissolve", "proj"]), "seed": rng.randrange(10**9)}, "group": "float-and-dissolve"}
    # NaN as the nodata value (about a fifth of the random k = 2001 cases; after the other loops: their case stream is
    # unchanged): the same integer-cost cases, the implementation is called with float64 observations, NaN where the case has
    # its nodata value, and nodata = np.nan (guards the repaired defect: `!= nodata` is always true for NaN)
    for t in range(80 if tier == "quick" else 800):
        nr, nc = rng.randint(1, mx), rng.randint(2, mx)
        n = nr * nc
        nod = rng.choice([0, -1])
        obs = [(rng.randint(1, 9) if rng.random() < 0.12 else nod) for _ in range(n)]
        if all(v == nod for v in obs):
            obs[rng.randrange(n)] = 3
        hm = rng.randrange(2)
        msk = [int(rng.random() < 0.8) for _ in range(n)] if hm else []
        hf = rng.randrange(2)
        frc = [rng.randint(1, 3) for _ in range(n)] if hf else []
        yield {"k": 2001, "args": [[nr], [nc], obs, [hm], msk, [nod], [hf], frc, rng.choice([[3, 4, 5], [4, 3, 5]])],
               "call": {"float_nan": 1}, "group": "rand-int-nan"}


def _dijkstra(nr, nc, obs, msk, nodata, cost):
    """cost(i, j) = cost of stepping from cell i to neighbour j. returns dist dict, and for each cell the set of
    sources attaining the minimum (to accept any of them)"""
    n = nr * nc
    ok = [(msk[i] if msk else 1) for i in range(n)]
    dist = {}
    h = []
    for i in range(n):
        if obs[i] != nodata and ok[i]:
            dist[i] = 0.0
            h.append((0.0, i))
    heapq.heapify(h)
    while h:
        d, i = heapq.heappop(h)
        if d > dist.get(i, math.inf):
            continue
        r, c = divmod(i, nc)
        for dr in (-1, 0, 1):
            for dc in (-1, 0, 1):
                if (dr or dc) and 0 <= r + dr < nr and 0 <= c + dc < nc:
                    j = (r + dr) * nc + c + dc
                    if not ok[j] or obs[j] != nodata and ok[j] and False:
                        continue
                    nd = d + cost(i, j)
                    if obs[j] != nodata:      # observation cells keep distance 0 / their own value
                        continue
                    if nd < dist.get(j, math.inf):
                        dist[j] = nd
                        heapq.heappush(h, (nd, j))
    return dist


def impl(case):
    from common import call_impl
    from pyflwdir import gis_utils as g
    from affine import Affine
    if case["k"] == 2000:
        return _float(case["call"])
    if case["k"] == 2002:
        from pyflwdir import regions
        a = case["args"]
        nr, nc = a[0][0], a[1][0]
        lab = np.array(a[2], dtype=np.int32).reshape(nr, nc)
        before = lab.copy()
        tr = Affine(float(a[6][0]), 0.0, 0.0, 0.0, -float(a[6][1]), 0.0)
        if a[4][0]:
            st, res = call_impl(regions.region_dissolve, lab, None, np.array(a[5]), transform=tr)
        else:
            st, res = call_impl(regions.region_dissolve, lab, np.array(a[3]), transform=tr)
        if st != "ok":
            return [[-2], [st, str(res)[:100]]]
        if not np.array_equal(before, lab):
            return [[-4], ["input mutated"]]
        res = np.asarray(res)
        if res.shape != lab.shape:
            return [[-3], [str(res.shape)]]
        return [[int(x) for x in res.ravel()]]
    a = case["args"]
    nr, nc, obs, hm, msk, nod, hf, frc, dxy = a[0][0], a[1][0], a[2], a[3][0], a[4], a[5][0], a[6][0], a[7], a[8]
    o = np.array(obs, dtype=np.int32).reshape(nr, nc)
    fnan = bool((case.get("call") or {}).get("float_nan"))
    if fnan:                                  # float64 observations, NaN where the case has its nodata value; nodata = NaN
        o = np.where(o == nod, np.nan, o.astype(np.float64))
    before = o.copy()
    m = np.array(msk, dtype=bool).reshape(nr, nc) if hm else None
    f = np.array(frc, dtype=np.float32).reshape(nr, nc) if hf else None
    tr = Affine(float(dxy[0]), 0.0, 0.0, 0.0, -float(dxy[1]), 0.0)
    st, v = call_impl(g.spread2d, o, m, np.nan if fnan else nod, f, False, tr)
    if not np.array_equal(before, o, equal_nan=fnan):
        return [[-4], ["input mutated"]]
    if st != "ok":
        return [[-2], [st, str(v)[:100]]]
    out, src, dst = v
    if np.any(dst != np.round(dst)) or src.dtype != np.int32 or dst.dtype != np.float32 or out.dtype != o.dtype:
        return [[-3], [str(dst.dtype)]]
    if fnan:
        # NaN (still no value) is reported as the case's nodata value; a NaN at a cell that should have been filled then
        # differs from the model and from the oracle's source value.  Any other non-integer, or the nodata value itself, is an anomaly
        if out.shape != o.shape or o.dtype != np.float64:
            return [[-3], [str(out.shape)]]
        fin = ~np.isnan(out)
        if np.any(out[fin] != np.round(out[fin])) or np.any(out[fin] == nod) or np.any(np.isnan(out) & ~np.isnan(o)):
            return [[-3], ["float_nan: unexpected value in out"]]
        out = np.where(fin, out, float(nod))
    return [[int(x) for x in out.ravel()], [int(x) for x in src.ravel()], [int(x) for x in dst.ravel()]]


def _check(nr, nc, obs, msk, nodata, cost, out, src, dst, tol):
    n = nr * nc
    dist = _dijkstra(nr, nc, obs, msk, nodata, cost)
    ok = [(msk[i] if msk else 1) for i in range(n)]
    for i in range(n):
        if obs[i] != nodata:
            if out[i] != obs[i] or src[i] != i or dst[i] != 0:
                return ("spread:observation-changed", f"cell {i}: {out[i]} {src[i]} {dst[i]}")
        elif i in dist:
            if not (abs(dst[i] - dist[i]) <= tol * max(1.0, dist[i])):      # (a NaN distance fails too)
                return ("spread:not-least-cost", f"cell {i}: distance {dst[i]} but the least cost is {dist[i]}")
            s = src[i]
            if not (0 <= s < n) or obs[s] == nodata or not ok[s] or out[i] != obs[s]:
                return ("spread:bad-source", f"cell {i}: source {s} value {out[i]}")
        else:
            if out[i] != obs[i] or src[i] != -1 or dst[i] != 0:
                return ("spread:unreachable-changed", f"cell {i}: {out[i]} {src[i]} {dst[i]}")
    return None


def _float(call):
    import random
    from common import call_impl
    from pyflwdir import gis_utils as g, regions
    from affine import Affine
    rng = random.Random(call["seed"])
    nr, nc = rng.randint(2, 7), rng.randint(2, 7)
    if rng.random() < 0.25:      # a single row or a single column (round-6 seed: cell sizes taken from differences of cell centres)
        nr, nc = rng.choice([(1, rng.randint(2, 8)), (rng.randint(2, 8), 1)])
    n = nr * nc
    if call["what"] == "geo":
        yres = rng.choice([-1.0, -0.5, 1.0, 0.25])
        north = rng.choice([60.0, -30.0, 10.0, -70.0]) if yres < 0 else rng.choice([-60.0, 20.0, 50.0])
        xres = rng.choice([1.0, 0.5])
        tr = Affine(xres, 0.0, 5.0, 0.0, yres, north)
        obs = [(rng.randint(1, 9) if rng.random() < 0.15 else 0) for _ in range(n)]
        if not any(obs):
            obs[0] = 4
        msk = [int(rng.random() < 0.85) for _ in range(n)] if rng.random() < 0.5 else None
        frc = [rng.choice([1.0, 2.0, 0.5]) for _ in range(n)] if rng.random() < 0.5 else None
        out, src, dst = g.spread2d(np.array(obs, dtype=np.int32).reshape(nr, nc), np.array(msk, dtype=bool).reshape(nr, nc) if msk else None,
                                   0, np.array(frc, dtype=np.float32).reshape(nr, nc) if frc else None, True, tr)
        lats = [north + (r + 0.5) * yres for r in range(nr)]

        def cost(i, j):
            r, c = divmod(i, nc)
            r2, c2 = divmod(j, nc)
            dyv = float(g.degree_metres_y(lats[r])) * abs(yres)
            dxv = float(g.degree_metres_x(lats[r])) * abs(xres)
            return math.hypot((r2 - r) * dyv, (c2 - c) * dxv) * (frc[i] if frc else 1.0)
        res = _check(nr, nc, obs, msk, 0, cost, [int(x) for x in out.ravel()], [int(x) for x in src.ravel()], [float(x) for x in dst.ravel()], 1e-5)
        if res is None:
            # sanity against the sphere: an east-west step costs about R cos(lat) dlon
            return [[0]]
        return [[1], [res[0] + ":geographic", res[1] + f" (north={north}, yres={yres}, shape {nr}x{nc})"]]
    if call["what"] == "proj":
        # projected grids whose cell sizes are no float32 numbers: the stored float32 distance and the float64 candidate
        # must not be taken for an improvement of each other (every equal-cost path would be queued again; the number
        # of queue entries then grows exponentially with the raster size).  With one queue entry per improvement a cell
        # gets at most 8 (it has 8 neighbours, each expanded once); the check allows 40 per cell, which any variant that
        # runs in polynomial time stays far below on these 30-36 cell wide rasters, and which the exponential growth exceeds.
        nr, nc = rng.randint(30, 36), rng.randint(30, 36)
        n = nr * nc
        xres, yres = rng.choice([(0.3, 0.7), (1 / 3, 1 / 3), (0.0083333, 0.0083333), (40.91, 4.62), (0.1, 0.3), (65.27, 23.53), (89.78, 84.44)])
        tr = Affine(xres, 0.0, 0.0, 0.0, -yres, 0.0)
        obs = [0] * n
        obs[rng.choice([0, 0, nc - 1, n - nc, n - 1])] = 7
        count = [0]
        push0 = g.heapq.heappush

        def counting(q, item):
            count[0] += 1
            if count[0] > 40 * n:
                raise RuntimeError("queue entries")
            push0(q, item)
        # (the kernel looks heappush up in the heapq module at every call when it runs in the interpreter)
        g.heapq.heappush = counting
        try:
            st, v = call_impl(g.spread2d, np.array(obs, dtype=np.int32).reshape(nr, nc), None, 0, None, False, tr, timeout=60)
        finally:
            g.heapq.heappush = push0
        if st != "ok":
            return [[1], ["spread:queue-blowup:projected" if "queue entries" in str(v) else "spread:" + st,
                          f"spread2d on a {nr}x{nc} raster with cells {xres} x {yres}: {st} {str(v)[:80]} after {count[0]} queue entries ({n} cells)"]]
        out, src, dst = v
        cost = lambda i, j: math.hypot((j // nc - i // nc) * yres, (j % nc - i % nc) * xres)
        res = _check(nr, nc, obs, None, 0, cost, [int(x) for x in out.ravel()], [int(x) for x in src.ravel()], [float(x) for x in dst.ravel()], 1e-5)
        return [[0]] if res is None else [[1], [res[0] + ":projected", res[1] + f" ({nr}x{nc}, cells {xres} x {yres})"]]
    # region_dissolve: random contiguous regions (nearest-seed labelling), dissolved by labels or by one location each
    nseed = rng.randint(2, 5)
    seeds = rng.sample(range(n), min(nseed, n))
    lab = np.zeros((nr, nc), dtype=np.int32)
    ids = rng.sample(range(1, 9), len(seeds))
    for i in range(n):
        r, c = divmod(i, nc)
        k = min(range(len(seeds)), key=lambda t: (max(abs(seeds[t] // nc - r), abs(seeds[t] % nc - c)), t))
        lab[r, c] = ids[k]
    present = sorted(set(int(x) for x in lab.ravel()))
    if len(present) < 2:
        return [[0]]
    kill = rng.sample(present, rng.randint(1, len(present) - 1))
    keep = [p for p in present if p not in kill]
    flat = [int(x) for x in lab.ravel()]
    by_idxs = rng.random() < 0.4
    if by_idxs:
        locs = [rng.choice([i for i in range(n) if flat[i] == k]) for k in kill]
        st, res = call_impl(regions.region_dissolve, lab, None, np.array(locs))
    else:
        locs = None
        st, res = call_impl(regions.region_dissolve, lab, np.array(kill))
    if st != "ok":
        return [[1], ["dissolve:" + st, f"region_dissolve raised {st}: {str(res)[:100]} on {lab.tolist()} kill {kill}"]]
    res = np.asarray(res)
    bad = []
    if res.shape != lab.shape:
        return [[1], ["dissolve:shape", f"shape {res.shape}"]]
    for v_old, v_new in zip(flat, res.ravel()):
        if v_old in keep and v_new != v_old:
            bad.append(f"surviving region {v_old} relabelled {v_new}")
        if v_old in kill and v_new not in keep:
            bad.append(f"dissolved region {v_old} got label {v_new}, not a surviving label")
    # nearest surviving region: distance of every cell to each surviving label separately
    unit = lambda i, j: math.hypot(i // nc - j // nc, i % nc - j % nc)
    dist_to = {}
    for L in keep:
        obs = [L if flat[i] == L else 0 for i in range(n)]
        dist_to[L] = _dijkstra(nr, nc, obs, None, 0, unit)
    for t, k in enumerate(kill):
        cells = [i for i in range(n) if flat[i] == k]
        got = set(int(x) for x in res.ravel()[cells])
        if len(got) != 1:
            bad.append(f"dissolved region {k} split over several labels {sorted(got)}")
            continue
        g1 = got.pop()
        ref = [locs[t]] if by_idxs else cells
        best = min(dist_to[L].get(i, math.inf) for L in keep for i in ref)
        okl = [L for L in keep if min(dist_to[L].get(i, math.inf) for i in ref) <= best * (1 + 1e-6) + 1e-9]
        if g1 not in okl:
            bad.append(f"dissolved region {k} got label {g1}; nearest surviving region(s) {okl} at distance {best:.4f}")
    return [[0]] if not bad else [[1], ["dissolve", "; ".join(bad[:3]) + f" on {lab.tolist()} dissolve {kill}" + (f" at {locs}" if by_idxs else "")]]


def oracle(case, out):
    if case["k"] == 2000:
        return None if out == [[0]] else (out[1][0], out[1][1])
    if out and out[0] in ([-2], [-3], [-4]):
        return ("spread:unexpected-outcome", f"{out}")
    if case["k"] == 2002:
        return _dissolve_oracle(case, out)
    a = case["args"]
    nr, nc, obs, hm, msk, nod, hf, frc, dxy = a[0][0], a[1][0], a[2], a[3][0], a[4], a[5][0], a[6][0], a[7], a[8]

    def cost(i, j):
        r, c = divmod(i, nc)
        r2, c2 = divmod(j, nc)
        base = dxy[0] if r == r2 else dxy[1] if c == c2 else dxy[2]
        return float(base * (frc[i] if hf else 1))
    return _check(nr, nc, obs, msk if hm else None, nod, cost, out[0], out[1], out[2], 0.0)


def _dissolve_oracle(case, out):
    a = case["args"]
    nr, nc, flat, by_idxs, locs, dxy = a[0][0], a[1][0], a[2], a[4][0], a[5], a[6]
    n = nr * nc
    kill = case["call"]["kill"]
    keep = sorted(set(v for v in flat if v > 0 and v not in kill))
    res = out[0]
    if len(res) != n:
        return ("dissolve:shape", f"{len(res)} values")
    for i, (v_old, v_new) in enumerate(zip(flat, res)):
        if v_old not in kill and v_new != v_old:
            return ("dissolve:other-cell-changed", f"cell {i} with label {v_old} became {v_new}; regions {flat} dissolve {kill}")

    def cost(i, j):
        r, c = divmod(i, nc)
        r2, c2 = divmod(j, nc)
        return float(dxy[0] if r == r2 else dxy[1] if c == c2 else dxy[2])
    # distance from every surviving label separately (spreading runs over dissolved and background cells alike)
    dist_to = {}
    for L in keep:
        obs = [(flat[i] if flat[i] not in kill else 0) for i in range(n)]
        only = [(v if v == L else (0 if v == 0 else -1)) for v in obs]      # other survivors block nothing but are no sources
        d = {}
        h = [(0.0, i) for i in range(n) if only[i] == L]
        for _, i in h:
            d[i] = 0.0
        heapq.heapify(h)
        while h:
            dd, i = heapq.heappop(h)
            if dd > d.get(i, math.inf):
                continue
            r, c = divmod(i, nc)
            for dr in (-1, 0, 1):
                for dc in (-1, 0, 1):
                    if (dr or dc) and 0 <= r + dr < nr and 0 <= c + dc < nc:
                        j = (r + dr) * nc + c + dc
                        if obs[j] != 0:          # surviving cells are never overwritten (and never relaxed into)
                            continue
                        nd = dd + cost(i, j)
                        if nd < d.get(j, math.inf):
                            d[j] = nd
                            heapq.heappush(h, (nd, j))
        dist_to[L] = d
    for t, k in enumerate(kill):
        cells = [i for i in range(n) if flat[i] == k]
        got = set(res[i] for i in cells)
        if len(got) != 1:
            return ("dissolve:region-split", f"dissolved region {k} split over labels {sorted(got)}; regions {flat} dissolve {kill}")
        g1 = got.pop()
        ref = [locs[t]] if by_idxs else cells
        best = min((dist_to[L].get(i, math.inf) for L in keep for i in ref), default=math.inf)
        okl = [L for L in keep if min(dist_to[L].get(i, math.inf) for i in ref) <= best]
        if g1 not in okl:
            return ("dissolve:not-nearest", f"dissolved region {k} got label {g1}; nearest surviving region(s) {okl} at distance {best}; "
                    f"regions {flat} ({nr}x{nc}) dissolve {kill}" + (f" at {locs}" if by_idxs else "") + f" cells {dxy}")
    return None


def compare(case, i, m):
    if case["k"] == 2002:
        # among equally near survivors (and, for labels=, equally near cells of the region) the choice is unspecified:
        # a result that differs from the model's is accepted iff the independent oracle accepts it
        return i == m or (bool(i) and i[0] not in ([-2], [-3], [-4]) and _dissolve_oracle(case, i) is None)
    if case["k"] == 2001 and i != m and len(i) == 3 and len(m) == 3:
        # equally distant sources: the implementation may keep either; distances must agree
        return i[2] == m[2]
    return i == m


def nontrivial(case, out):
    return case["k"] in (2000, 2002) or (len(out) == 3 and any(d > 0 for d in out[2]))
