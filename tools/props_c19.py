"""C19 — stream vectorisation."""
import numpy as np
import nets

PID = "C19"
THEOREMS = ["split_chain", "pieces_def", "swalk_spec", "links_once", "cut_piece_bound", "streams_piece_bound", "flwdir_tuples_spec", "feature_props_spec", "gen_flwdir_tuples_eq", "gen_streams_eq", "gen_segment_indices_partial", "gen_segment_indices_topo", "segment_indices_links_maxlen"]
RULE = ("loop-free closed graphs on n<=5 cells (n<=6 thorough) x downstream-closed masks x max_len 0..5 through "
        "streams.streams; long chains (up to 40 vertices) x max_len 1..12 for the cutting rule; random forests; "
        "FlwdirRaster.streams (mask / min_sto / custom xs, ys / extra maps) and vectorize on random rasters with "
        "feature properties; streams(idxs_out=..., max_len >= 2) must cover the links it covers without a maximum length; Python's round() on halves; non-trivial = some stream has more than one link")
ASSUMPTIONS = ["vertex coordinates and the sampling of extra maps are checked on the implementation's output (oracle); l / max_len and "
               "round() are exact rationals in the model"]


def closed_mask(ds, rng):
    n = len(ds)
    valid = [i for i in range(n) if ds[i] >= 0]
    m = [0] * n
    for s in rng.sample(valid, rng.randint(0, len(valid))):
        j = s
        while True:
            m[j] = 1
            if ds[j] == j:
                break
            j = ds[j]
    return m


def cases(tier, rng):
    maxn = 5 if tier == "quick" else 6
    for n in range(2, maxn + 1):
        for ds in nets.all_graphs(n, nodata=(n <= 4)):
            if not (nets.is_wf(ds) and nets.is_loopfree(ds) and nets.pits(ds)):
                continue
            if n >= 5 and rng.random() > (0.2 if tier == "quick" else 0.4):
                continue
            hm = rng.randrange(2)
            mask = closed_mask(ds, rng) if hm else []
            yield {"k": rng.choice([1901, 1901, 1902]), "args": [ds, nets.topo_order(ds, rng), [hm], mask, [rng.randint(0, 5)]], "group": f"exh-n{n}"}
    for L in range(2, 41 if tier == "quick" else 61):
        ds = [max(i - 1, 0) for i in range(L)]
        for ml in (rng.sample(range(1, 13), 3) if tier == "quick" else range(1, 13)):
            yield {"k": 1901, "args": [ds, list(range(L)), [0], [], [ml]], "group": "chain-cut"}
    for a in range(0, 30):
        for b in (1, 2, 3, 4, 6):
            yield {"k": 1904, "args": [[0], [a], [b]], "group": "round"}
    for t in range(150 if tier == "quick" else 1500):
        ds = nets.random_forest(rng, rng.randint(2, 50), p_nodata=rng.choice([0, 0.1]))
        hm = rng.randrange(2)
        mask = closed_mask(ds, rng) if hm else []
        yield {"k": rng.choice([1901, 1902]), "args": [ds, nets.topo_order(ds, rng), [hm], mask, [rng.choice([0, 0, 1, 2, 3, 5, 8])]], "group": "rand-kernel"}
        yield {"k": 1903, "args": [ds, [], [hm], mask], "group": "rand-tuples"}
    for t in range(60 if tier == "quick" else 600):
        nr, nc = nets.rshape(rng, 2, 7)
        flw = nets.random_d8_raster(rng, nr, nc, p_nodata=rng.choice([0, 0.15]))
        ds = nets.d8_decode(flw, nr, nc)
        if not nets.pits(ds):
            continue
        mode = rng.choice(["mask", "min_sto", "none", "vectorize"])
        hm = 1 if mode == "mask" else 0
        mask = closed_mask(ds, rng) if hm else []
        if mode == "min_sto":
            from props_c08 import _strahler
            so = _strahler(ds, [1] * len(ds))
            mask = [int(s >= 2) for s in so]
            hm = 1
        k = 1903 if mode == "vectorize" else 1902
        yield {"k": k, "args": [ds, nets.topo_order(ds), [hm], mask, [rng.choice([0, 0, 1, 1, 2, 3, 5])]],
               "call": {"nr": nr, "nc": nc, "flw": flw, "mode": mode, "custom_xy": rng.random() < 0.4}, "group": f"raster-{mode}"}


def impl(case):
    from common import call_impl
    from implutil import ds_array, idx_list
    from pyflwdir import streams as ps, core
    k, a = case["k"], case["args"]
    call = case.get("call")
    ds = a[0]
    n = len(ds)
    if k == 1904:
        return [[int(round(a[1][0] / a[2][0]))]]
    mask = np.array(a[3], dtype=bool) if a[2][0] else None
    if call is None:
        if k in (1901, 1902):
            st, v = call_impl(ps.streams, ds_array(ds), np.array(a[1], dtype=np.int32), mask, a[4][0])
            if st != "ok":
                return [[-2], [st]]
            paths = [idx_list(p) for p in v]
            if k == 1901:
                return paths
            return [[p[0], p[-1], int(p[-1] == p[-2])] for p in paths if len(p) >= 2]
        st, v = call_impl(core.flwdir_tuples, ds_array(ds), mask)
        return [idx_list(p) for p in v] if st == "ok" else [[-2], [st]]
    import pyflwdir
    nr, nc = call["nr"], call["nc"]
    # default vertex coordinates are the cell centres under the raster's transform: the identity, a far non-square grid and a
    # rotated grid (round-5 seed: per-axis coordinates dropped the rotation terms)
    from affine import Affine
    tr = [Affine(1.0, 0.0, 0.0, 0.0, -1.0, 0.0), Affine(30.0, 0.0, 1000.0, 0.0, -10.0, 500.0),
          Affine.translation(5.0, 7.0) * Affine.rotation(30.0) * Affine.scale(10.0, -10.0)][sum(call["flw"]) % 3]
    flw = pyflwdir.from_array(np.array(call["flw"], dtype=np.uint8).reshape(nr, nc), ftype="d8", transform=tr)
    centre = lambda i: (tr.a * (i % nc + 0.5) + tr.b * (i // nc + 0.5) + tr.c, tr.d * (i % nc + 0.5) + tr.e * (i // nc + 0.5) + tr.f)
    near = lambda p, q: abs(p[0] - q[0]) <= 1e-9 * (1 + abs(q[0])) and abs(p[1] - q[1]) <= 1e-9 * (1 + abs(q[1]))
    kw = {}
    xs = ys = None
    if call["custom_xy"]:
        xs = np.arange(n, dtype=np.float64).reshape(nr, nc) * 10.0
        ys = -np.arange(n, dtype=np.float64).reshape(nr, nc) * 3.0
        kw.update(xs=xs, ys=ys)
    extra = np.arange(100, 100 + n).reshape(nr, nc)
    m2 = mask.reshape(nr, nc) if mask is not None else None
    if m2 is not None and sum(call["flw"]) % 3 == 0:
        # a mask that is also True on cells outside the network (np.ones, an order map with 255 as nodata): they have no links and
        # add nothing (round-6 seed: their missing downstream index counted as an inflow of the last cell)
        m2 = m2 | (np.array(ds).reshape(nr, nc) < 0)
    if call["mode"] == "vectorize":
        st, feats = call_impl(flw.vectorize, mask=m2, extra=extra, **kw)
    elif call["mode"] == "min_sto":
        # half of the time after an earlier vectorisation of a coarser network on the same object (round-3 seed: the
        # earlier call truncated the memoised stream order)
        if sum(call["flw"]) % 2:
            call_impl(flw.streams, min_sto=3)
        st, feats = call_impl(flw.streams, min_sto=2, max_len=a[4][0], extra=extra, **kw)
    else:
        st, feats = call_impl(flw.streams, mask=m2, max_len=a[4][0], extra=extra, **kw)
    if st != "ok":
        return [[-2], [st]]
    out = []
    for f in feats:
        pr = f["properties"]
        co = f["geometry"]["coordinates"]
        i0, i1 = int(pr["idx"]), int(pr["idx_ds"])
        # properties sample extra maps at the first cell; coordinates are those of the cells
        if int(pr["extra"]) != 100 + i0:
            return [[-3], ["extra map not sampled at the first cell"]]
        if call["custom_xy"]:
            if co[0] != (float(xs.flat[i0]), float(ys.flat[i0])) or co[-1] != (float(xs.flat[i1]), float(ys.flat[i1])):
                return [[-3], ["custom coordinates not used"]]
        else:
            if not near(co[0], centre(i0)) or not near(co[-1], centre(i1)):
                return [[-3], [f"first / last vertex {co[0]} {co[-1]} is not the centre of cells {i0} / {i1}"]]
            # every vertex is a cell centre and consecutive vertices are linked cells
            cur = i0
            for p in co[1:]:
                nxt = ds[cur]
                if nxt < 0 or not near(p, centre(nxt)):
                    return [[-3], [f"vertex {p} after cell {cur} is not the centre of its downstream cell {nxt}"]]
                cur = nxt
        if call["mode"] == "vectorize":
            if len(co) != 2:
                return [[-3], ["vectorize feature with != 2 vertices"]]
            out.append([i0, i1])
        else:
            out.append([i0, i1, int(bool(pr["pit"]))])
    if call["mode"] == "none" and a[4][0] >= 2:
        # streams between given outlet cells (idxs_out): a maximum length divides the segments, it must not lose links
        import random
        r2 = random.Random(sum(call["flw"]) * 31 + nr)
        valid = [i for i in range(n) if ds[i] >= 0]
        outs = np.array(sorted(r2.sample(valid, max(1, len(valid) // 4))), dtype=np.intp)

        def linkset(ml):
            st_, fs = call_impl(flw.streams, idxs_out=outs, max_len=ml)
            if st_ != "ok":
                return st_
            got = set()
            for f in fs:
                cur = int(f["properties"]["idx"])
                for _ in f["geometry"]["coordinates"][1:]:
                    got.add((cur, ds[cur]))
                    cur = ds[cur]
            return got
        l0, l1 = linkset(0), linkset(a[4][0])
        if isinstance(l0, str) or isinstance(l1, str):
            return [[-2], [f"streams(idxs_out) {l0 if isinstance(l0, str) else l1}"]]
        if l0 != l1:
            return [[-6], [f"streams(idxs_out={outs.tolist()}, max_len={a[4][0]}) covers {len(l1)} of the {len(l0)} links covered "
                           f"without a maximum length; missing {sorted(l0 - l1)[:5]}"]]
    return out


def _links(paths):
    out = []
    for p in paths:
        out += list(zip(p[:-1], p[1:]))
    return out


def oracle(case, out):
    k, a = case["k"], case["args"]
    if out and out[0] in ([-2], [-3]):
        return ("vector:unexpected-outcome", f"{out}")
    if out and out[0] == [-6]:
        return ("streams:idxs_out-maxlen-truncates", out[1][0])
    if k == 1904:
        from fractions import Fraction
        q = Fraction(a[1][0], a[2][0])
        f = q.numerator // q.denominator
        r = q - f
        exp = f if r < Fraction(1, 2) else f + 1 if r > Fraction(1, 2) else (f if f % 2 == 0 else f + 1)
        return None if out == [[exp]] else ("round", f"{a} -> {out} expected {exp}")
    ds = a[0]
    n = len(ds)
    mask = a[3] if a[2][0] else [1] * n
    cells = [i for i in range(n) if ds[i] >= 0 and mask[i]]
    if k == 1903:
        exp = [[i, ds[i]] for i in cells]
        return None if out == exp else ("vectorize", f"expected {exp} got {out}")
    if k == 1901:
        paths = out
        ml = a[4][0]
        links = _links(paths)
        want = sorted((i, ds[i]) for i in cells)
        if sorted(links) != want:
            return ("streams:links-not-once", f"links {sorted(links)} expected exactly {want}")
        nup = [sum(1 for c in cells if ds[c] == j and c != j) for j in range(n)]
        for p in paths:
            if len(p) >= 2 and p[-1] == p[-2]:
                if len(p) != 2 or ds[p[0]] != p[0]:
                    return ("streams:pit-feature", f"{p}")
                continue
            if any(nup[v] > 1 for v in p[1:-1]):
                return ("streams:interior-confluence", f"{p}")
            if ml > 0 and 2 * len(p) > 3 * ml + 3:      # the proved bound (streams_piece_bound): at most 1.5 * max_len + 1.5 vertices
                return ("streams:piece-too-long", f"{p} for max_len {ml}")
        if ml == 0:
            for p in paths:
                if len(p) >= 2 and p[-1] != p[-2]:
                    if not (nup[p[0]] != 1) or not (nup[p[-1]] > 1 or ds[p[-1]] == p[-1]):
                        return ("streams:bad-ends", f"{p}")
        if sum(1 for p in paths if len(p) == 2 and p[0] == p[1]) != sum(1 for c in cells if ds[c] == c):
            return ("streams:pit-features-count", f"{paths}")
        return None
    if k == 1902:
        # decided by correspondence with the model's feature properties; sanity: first/last/pit coherent
        for f in out:
            if len(f) != 3 or (f[2] == 1) != (f[0] == f[1] and ds[f[0]] == f[0]) and f[2] == 1:
                return ("features:props", f"{f}")
        return None
    return None


def nontrivial(case, out):
    return any(len(p) > 2 for p in out) if case["k"] == 1901 else True
