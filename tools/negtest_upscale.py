#!/usr/bin/env python3
"""Negative tests of tools/gen_upscale.py + theories/GenUpscale*Eq.v.

For every mutation (one small semantic change in one translated function of upscale.py) the source tree is copied to a scratch
directory, the generators are run on the mutated copy into a scratch copy of coq/, and the outcome must be either a GenError
or an equality proof (theories/GenUpscale*Eq.v) that no longer compiles.  Nothing outside the scratch directory is written.

usage: PYFLWDIR_REPO=/path/to/repo python3 tools/negtest_upscale.py <scratch dir> [jobs]      (the scratch dir is removed at the end)
"""
import json, os, re, shutil, subprocess, sys
from concurrent.futures import ThreadPoolExecutor

HERE = os.path.dirname(os.path.abspath(__file__))
ROOT = os.path.dirname(HERE)
REPO = os.environ.get("PYFLWDIR_REPO", "/repo")
EQ = ["GenUpscaleBaseEq", "GenUpscaleRepEq", "GenUpscaleWalkEq", "GenUpscaleIhuEq", "GenUpscaleErrEq"]

# (function, old text, new text): `old` must occur exactly once in the source of the function
M = [
    ("subidx_2_idx", "r = int(subidx // subncol) // cellsize", "r = int(subidx // subncol) % cellsize"),
    ("subidx_2_idx", "return r * ncol + c", "return c * ncol + r"),
    ("subidx_2_idx", "c = int(subidx % subncol) // cellsize", "c = int(subidx % subncol) / cellsize"),
    ("in_d8", "<= 1  # west - east", "<= 2  # west - east"),
    ("in_d8", "return cond1 and cond2", "return cond1 or cond2"),
    ("in_d8", "cond2 = abs(int(idx_ds // ncol) - int(idx0 // ncol))", "cond2 = (int(idx_ds // ncol) - int(idx0 // ncol))"),
    ("cell_edge", "ri + 1 == cellsize", "ri + 2 == cellsize"),
    ("cell_edge", "ri = (subidx // subncol) % cellsize", "ri = (subidx // subncol) // cellsize"),
    ("cell_edge", "return ri == 0 or ci == 0 or", "return ri == 0 or"),
    ("dmm_exitcell", "if upa > upa0:", "if upa >= upa0:"),
    ("dmm_exitcell", "if ispit or edge:", "if ispit and edge:"),
    ("dmm_exitcell", "subidxs_rep[idx] = subidx", "subidxs_rep[subidx] = idx"),
    ("dmm_exitcell", "edge = cell_edge(subidx, subncol, cellsize)", "edge = cell_edge(subidx_ds, subncol, cellsize)"),
    ("dmm_exitcell", "uparea[idx] = upa\n", "uparea[idx] = upa0\n"),
    ("dmm_nextidx", "subr0 = (idx0 // ncol + dr) * cellsize - 0.5", "subr0 = (idx0 // ncol + dr) * cellsize - 1.5"),
    ("dmm_nextidx", "subc0 = (idx0 % ncol + dc) * cellsize - 0.5", "subc0 = (idx0 % ncol + dc) * cellsize - 0.25"),
    ("dmm_nextidx", "if abs(subr - subr0) > R or", "if abs(subr - subr0) >= R or"),
    ("dmm_nextidx", "            idx = idx1\n", "            idx = idx0\n"),
    ("dmm_nextidx", "R = cellsize / 2", "R = cellsize / 3"),
    ("dmm_nextidx", "if subidx1 == subidx:  # pit", "if subidx1 == idx0:  # pit"),
    ("dmm_nextidx", "elif idx1 != idx0:", "elif idx1 != idx:"),
    ("dmm_nextidx", "dr = (subidx // subncol) % cellsize // R", "dr = (subidx // subncol) % cellsize // cellsize"),
    ("eam_repcell", "if upa > upa0:", "if upa < upa0:"),
    ("eam_repcell", "eff_area = effective_area(subidx, subncol, cellsize, r_ratio)",
     "eff_area = effective_area(subidx_ds, subncol, cellsize, r_ratio)"),
    ("eam_repcell", "eff_area = effective_area(subidx, subncol, cellsize, r_ratio)",
     "eff_area = effective_area(subidx, subncol, cellsize, 0.25)"),
    ("eam_repcell", "if subidx_ds == mv:", "if subidx_ds != mv:"),
    ("eam_repcell", "subidxs_rep = np.full(nrow * ncol, mv, dtype=subidxs_ds.dtype)",
     "subidxs_rep = np.full(nrow * nrow, mv, dtype=subidxs_ds.dtype)"),
    ("eam_nextidx", "elif idx1 != idx0 and effective_area(", "elif idx1 != idx0 or effective_area("),
    ("eam_nextidx", "idxs_ds[idx0] = idx1", "idxs_ds[idx0] = idx0"),
    ("eam_nextidx", "            subidx = subidx1\n", "            subidx = subidx\n"),
    ("eam_nextidx", "while True:", "while subidx != mv:"),
    ("eam_nextidx", "if subidx1 == subidx:  # at pit", "if subidx1 != subidx:  # at pit"),
    ("ihu_outlets", "if outlet or pit:", "if outlet and pit:"),
    ("ihu_outlets", "subidxs_out[idx0] = subidx\n", "subidxs_out[idx0] = subidxs_ds[subidx]\n"),
    ("ihu_outlets", "outlet = idx0 != subidx_2_idx(subidx1, subncol, cellsize, ncol)",
     "outlet = idx0 != subidx_2_idx(subidx, subncol, cellsize, ncol)"),
    ("ihu_outlets", "for idx0 in range(subidxs_rep.size):", "for idx0 in range(subidxs_ds.size):"),
    ("ihu_nextidx", "if not in_d8(idx0, idx1, ncol):", "if in_d8(idx0, idx1, ncol):"),
    ("ihu_nextidx", "if subidx_ds == mv and effective_area(", "if effective_area("),
    ("ihu_nextidx", "if subidxs_out[idx1] != subidx1:", "if subidxs_out[idx1] == subidx1:"),
    ("ihu_nextidx", "subidx_ds = mv\n", "subidx_ds = 0\n"),
    ("ihu_nextidx", "if subidxs_out[idx1] == subidx1 or subidx1 == subidx:", "if subidxs_out[idx1] == subidx1:"),
    ("ihu_nextidx", "idxs_ds[idx0] = subidx_2_idx(subidx_ds, subncol, cellsize, ncol)",
     "idxs_ds[idx0] = subidx_2_idx(subidx, subncol, cellsize, ncol)"),
    ("upscale_error", "if subidx1 != subidxs_out[idx_ds]:", "if subidx1 != subidxs_out[idx0]:"),
    ("upscale_error", "connect_map[idx0] = np.uint8(255)", "connect_map[idx0] = np.uint8(254)"),
    ("upscale_error", "if outlets[subidx1] or subidx1 == subidx:", "if outlets[subidx1] and subidx1 == subidx:"),
    ("upscale_error", "assert subidxs_out.size == idxs_ds.size", "assert subidxs_out.size <= idxs_ds.size"),
    ("upscale_error", "    assert subidxs_out.size == idxs_ds.size\n", ""),
    ("upscale_error", "outlets[subidx] = True", "outlets[subidx] = False"),
    ("upscale_error", "if idx_ds != mv and subidx != mv:", "if idx_ds != mv or subidx != mv:"),
    ("upscale_error", "idxs_fix_lst.append(idx0)", "idxs_fix_lst.append(idx_ds)"),
    # outside the translated functions: what the translation relies on
    ("effective_area", "def effective_area(subidx, subncol, cellsize, r_ratio=0.5):",
     "def effective_area(subidx, cellsize, subncol, r_ratio=0.5):"),
    ("<module>", "_mv = core._mv", "_mv = -1"),
]


def mutate(src, fn, old, new):
    if fn == "<module>":
        lo, hi = 0, len(src)
    else:
        m = re.search(rf"^def {fn}\(", src, re.M)
        lo = m.start()
        nxt = re.search(r"^(@njit|def )", src[m.end():], re.M)
        hi = m.end() + nxt.start() if nxt else len(src)
    seg = src[lo:hi]
    if seg.count(old) != 1:
        raise SystemExit(f"mutation {fn}: {old!r} occurs {seg.count(old)} times")
    return src[:lo] + seg.replace(old, new) + src[hi:]


def run_one(scratch, w, k):
    fn, old, new = M[k]
    wd = os.path.join(scratch, f"w{w}")
    repo = os.path.join(wd, "repo")
    path = os.path.join(repo, "pyflwdir", "upscale.py")
    with open(os.path.join(REPO, "pyflwdir", "upscale.py")) as f:
        src = f.read()
    with open(path, "w") as f:
        f.write(mutate(src, fn, old, new))
    coq = os.path.join(wd, "coq")
    for name in ("GenUpscale.v", "GenUpscale.vo"):
        shutil.copy2(os.path.join(ROOT, "coq", "generated", name), os.path.join(coq, "generated", name))
    r = subprocess.run([sys.executable, os.path.join(wd, "tools", "gen.py")], env=dict(os.environ, PYFLWDIR_REPO=repo),
                       capture_output=True, text=True)
    out = json.loads(r.stdout.strip().splitlines()[-1])
    others = [c for c in out["changed"] if c != "GenUpscale.v"] + [e for e in out["errors"] if not e.startswith("GenUpscale.v")]
    if others:
        return k, "UNEXPECTED", f"other generators affected: {others}"
    if out["errors"]:
        return k, "GenError", out["errors"][0]
    if "GenUpscale.v" not in out["changed"]:
        return k, "MISSED", "generated text unchanged"
    for name in ["generated/GenUpscale"] + ["theories/" + e for e in EQ]:
        c = subprocess.run(["coqc", "-Q", "theories", "PF", "-Q", "generated", "PFG", "-Q", "props", "PFP", name + ".v"], cwd=coq,
                           capture_output=True, text=True)
        if c.returncode != 0:
            msg = " ".join(c.stderr.split())
            m = re.search(r'File "\./([^"]+)", line (\d+)', msg)
            return k, "proof fails", (f"{m.group(1)}:{m.group(2)}" if m else msg[:120])
    return k, "MISSED", "every proof still compiles"


def main():
    scratch = os.path.abspath(sys.argv[1])
    jobs = int(sys.argv[2]) if len(sys.argv) > 2 else 6
    if os.path.exists(scratch):
        raise SystemExit(f"{scratch} exists")
    try:
        for w in range(jobs):
            wd = os.path.join(scratch, f"w{w}")
            shutil.copytree(os.path.join(REPO, "pyflwdir"), os.path.join(wd, "repo", "pyflwdir"),
                            ignore=shutil.ignore_patterns("__pycache__"))
            shutil.copytree(HERE, os.path.join(wd, "tools"), ignore=shutil.ignore_patterns("__pycache__"))
            os.makedirs(os.path.join(wd, "coq"))
            for d in ("generated", "theories"):
                shutil.copytree(os.path.join(ROOT, "coq", d), os.path.join(wd, "coq", d), ignore=shutil.ignore_patterns("*.glob", "*.aux"))
            os.makedirs(os.path.join(wd, "coq", "props"))
        queue = list(range(len(M)))
        results = {}

        def worker(w):
            while queue:
                k = queue.pop(0)
                results[k] = run_one(scratch, w, k)
        with ThreadPoolExecutor(jobs) as ex:
            list(ex.map(worker, range(jobs)))
        bad = 0
        for k in range(len(M)):
            _, verdict, detail = results[k]
            fn, old, new = M[k]
            print(f"{k + 1:2d} {fn:14s} {old.strip()!r} -> {new.strip()!r}\n      {verdict}: {detail}")
            bad += verdict in ("MISSED", "UNEXPECTED")
        print(f"{len(M)} mutations, {len(M) - bad} caught, {bad} missed")
        return 1 if bad else 0
    finally:
        shutil.rmtree(scratch, ignore_errors=True)


if __name__ == "__main__":
    sys.exit(main())
