"""C18 — sub-basin maps."""
import numpy as np
import nets

PID = "C18"
THEOREMS = ["outlet_own_label", "label_first_outlet", "streamorder_seeded", "area_seeded", "sto_outlet_condition", "streamorder_outlets_masked", "area_outlet_condition", "area_own_bound", "area_own_bound_order_sort", "idxs_seq_level", "area_own_bound_idxs_seq", "area_own_bound_needs_level_order", "pfaf_digits", "pfaf_closure", "pfaf_main_stem_odd", "pfaf_tributary_even", "pfaf_refines", "gen_subbasins_area_eq", "gen_subbasins_streamorder_eq", "gen_subbasins_pfafstetter_eq"]
RULE = ("loop-free closed graphs on n<=5 cells (n<=6 thorough), random forests to 60 cells and random D8 rasters through "
        "basins.subbasins_streamorder / subbasins_area / subbasins_pfafstetter and the FlwdirRaster methods: stream-order "
        "thresholds (absolute and relative; with no mask and with random, all-false and all-true masks), area thresholds 1/3/8, Pfafstetter depths 1..3, upstream-area fields with and "
        "without ties; every output is also checked against the closure statement, the area bound, the order-change rule "
        "and the Pfafstetter digit / refinement / odd-along-main-stem rules; non-trivial = more than one sub-basin")
ASSUMPTIONS = ["the Pfafstetter theorems (closure, digits, refinement, odd digits up the main stem) assume upstream areas that are positive "
               "and strictly larger downstream (every accumulation of positive cell areas); the area bound assumes a level order "
               "(both orders the library produces are proved to be one)",
               "np.argsort is modelled as a stable sort; cases whose tributaries tie are compared through the oracle only",
               "upstream areas are integers in the model"]


def _nets(tier, rng):
    maxn = 5 if tier == "quick" else 6
    for n in range(2, maxn + 1):
        for ds in nets.all_graphs(n, nodata=(n <= 4)):
            if nets.is_wf(ds) and nets.is_loopfree(ds) and nets.pits(ds) and (n <= 4 or rng.random() < (0.15 if tier == "quick" else 0.3)):
                yield ds, f"exh-n{n}"
    for t in range(150 if tier == "quick" else 1500):
        yield nets.random_forest(rng, rng.randint(2, 60 if t % 3 else 12), p_nodata=rng.choice([0, 0.1])), "rand"
    for ds in nets.structured(rng):
        if nets.is_loopfree(ds):
            yield ds, "structured"


def _level_order(ds, rng):
    """a topological order sorted by distance to the pit (what Flwdir.order_cells produces), ties shuffled"""
    rk = nets.rank(ds)
    cells = [i for i in range(len(ds)) if ds[i] >= 0 and rk[i] is not None and rk[i] >= 0]
    rng.shuffle(cells)
    return sorted(cells, key=lambda i: rk[i])


def _is_level_order(ds, sq):
    rk = nets.rank(ds)
    return all(rk[sq[i]] <= rk[sq[i + 1]] for i in range(len(sq) - 1))


def _sto_mask(rng, n):
    """wire form of the optional mask of subbasins_streamorder: ([has_mask], 0/1 list); no mask in about half of the cases,
    otherwise a random mask of random density, now and then all False or all True"""
    if rng.random() < 0.5:
        return [0], []
    r = rng.random()
    if r < 0.1:
        return [1], [0] * n
    if r < 0.2:
        return [1], [1] * n
    p = rng.choice([0.3, 0.5, 0.8])
    return [1], [int(rng.random() < p) for _ in range(n)]


def cases(tier, rng):
    from props_c08 import _uparea, _main, _strahler
    for ds, tag in _nets(tier, rng):
        n = len(ds)
        sq = nets.topo_order(ds, rng)
        upa = _uparea(ds)
        if rng.random() < 0.3:      # perturb: areas with ties broken / arbitrary positive weights accumulated
            w = [rng.randint(1, 3) for _ in range(n)]
            upa = [(-9999 if ds[i] < 0 else sum(w[x] for x in range(n) if ds[x] >= 0 and i in _path(ds, x))) for i in range(n)]
        main = _main(ds, upa, 0)
        so = _strahler(ds, [1] * n)
        hm, mk = _sto_mask(rng, n)
        yield {"k": 1801, "args": [ds, sq, so, [rng.choice([1, 2, -1, -2, 3])], hm, mk], "group": f"{tag}-streamorder" + ("-mask" if hm[0] else "")}
        # the area method is order-dependent: its threshold clause is only claimed for the orders the library itself
        # produces (cells sorted by distance to the pit); both kinds of order are still compared with the model
        lv = _level_order(ds, rng)
        yield {"k": 1802, "args": [ds, sq if rng.random() < 0.4 else lv, main, upa, [rng.choice([1, 3, 8])]], "group": f"{tag}-area"}
        # fractional cell areas (quarters; the model works on the values scaled by 4)
        wq = [rng.choice([1, 1, 2, 3, 5]) for _ in range(n)]
        upq = [(-9999 * 4 if ds[i] < 0 else sum(wq[x] for x in range(n) if ds[x] >= 0 and i in _path(ds, x))) for i in range(n)]
        yield {"k": 1802, "args": [ds, sq if rng.random() < 0.4 else lv, _main(ds, upq, 0), upq, [rng.choice([4, 6, 8, 9, 12])]], "call2": {"scale": 4}, "group": f"{tag}-area-fractional"}
        depth = rng.choice([1, 1, 2, 3])
        if n <= 40 and rng.random() < 0.7:
            # upstream areas without ties (weights 2^x are exact in binary64 up to n = 40): the choice among
            # equally large tributaries is left to an unstable argsort and cannot be modelled
            w = [2 ** x for x in range(n)]
            upa_p = [(-9999 if ds[i] < 0 else sum(w[x] for x in range(n) if ds[x] >= 0 and i in _path(ds, x))) for i in range(n)]
        else:
            upa_p = upa
        yield {"k": 1803, "args": [ds, sq, nets.pits(ds), _main(ds, upa_p, 0), upa_p, [0], [], [depth]], "group": f"{tag}-pfaf{depth}"}
        if n <= 40:
            # fractional areas (quarters of distinct powers of two plus a common integer part: truncation would create ties)
            upf = [(-9999 * 4 if ds[i] < 0 else sum((2 ** x) for x in range(n) if ds[x] >= 0 and i in _path(ds, x))) for i in range(n)]
            yield {"k": 1803, "args": [ds, sq, nets.pits(ds), _main(ds, upf, 0), upf, [0], [], [depth]], "call2": {"scale": 2 ** (n + 1)},
                   "group": f"{tag}-pfaf{depth}-fractional"}
    for t in range(150 if tier == "quick" else 1500):
        nr, nc = nets.rshape(rng, 2, 7)
        flw = nets.random_d8_raster(rng, nr, nc, p_nodata=rng.choice([0, 0.15]))
        ds = nets.d8_decode(flw, nr, nc)
        if not nets.pits(ds):
            continue
        upa = _uparea(ds)
        main = _main(ds, upa, 0)
        which = rng.choice(["sto", "area", "pfaf"])
        if which == "sto":
            hm, mk = _sto_mask(rng, len(ds))
            yield {"k": 1801, "args": [ds, nets.topo_order(ds), _strahler(ds, [1] * len(ds)), [rng.choice([1, 2, -1])], hm, mk],
                   "call": {"nr": nr, "nc": nc, "flw": flw}, "group": "raster-streamorder" + ("-mask" if hm[0] else "")}
        elif which == "area":
            if rng.random() < 0.5:
                yield {"k": 1802, "args": [ds, nets.topo_order(ds), main, upa, [rng.choice([1, 3, 8])]],
                       "call": {"nr": nr, "nc": nc, "flw": flw}, "group": "raster-area"}
            else:
                # user-supplied areas that rank the branches differently from the object's own (cell-count) main stem
                # (round-2 seed); the model gets the main stem the object uses
                n = nr * nc
                w = [rng.choice([1, 1, 2, 9, 20]) for _ in range(n)]
                upw = [(-9999 if ds[i] < 0 else sum(w[x] for x in range(n) if ds[x] >= 0 and i in _path(ds, x))) for i in range(n)]
                yield {"k": 1802, "args": [ds, nets.topo_order(ds), main, upw, [rng.choice([3, 10, 25, 40])]],
                       "call": {"nr": nr, "nc": nc, "flw": flw}, "group": "raster-area-user"}
        else:
            um = rng.choice([0, 2, 2, 3])       # ties exactly at the threshold
            mask = [int(u >= um) for u in upa]
            yield {"k": 1803, "args": [ds, nets.topo_order(ds), nets.pits(ds), main, upa, [1], mask, [rng.choice([1, 2])]],
                   "call": {"nr": nr, "nc": nc, "flw": flw, "upa_min": um}, "group": "raster-pfaf"}


def _path(ds, x):
    out = {x}
    while ds[x] != x and ds[x] >= 0:
        x = ds[x]
        out.add(x)
    return out


def impl(case):
    from common import call_impl
    from implutil import ds_array, idx_list
    from pyflwdir import basins as pb
    import pyflwdir
    k, a = case["k"], case["args"]
    call = case.get("call")
    ds = a[0]
    n = len(ds)
    arr = ds_array(ds)
    sq = np.array(a[1], dtype=np.int32)

    def fin(st, v):
        if st != "ok":
            return [[-2], [st]]
        return [[int(x) for x in np.asarray(v[0]).ravel()], idx_list(v[1])]
    if call is None:
        if k == 1801:
            mask = np.array(a[5], dtype=bool) if a[4][0] else None
            return fin(*call_impl(pb.subbasins_streamorder, arr, sq, np.array(a[2], dtype=np.uint8), mask, a[3][0]))
        if k == 1802:
            sc = float((case.get("call2") or {}).get("scale", 1))
            return fin(*call_impl(pb.subbasins_area, arr, sq, ds_array(a[2]), np.array(a[3], dtype=np.float64) / sc, float(a[4][0]) / sc))
        if k == 1803:
            scp = float((case.get("call2") or {}).get("scale", 1))      # areas below 1: every value a distinct dyadic fraction
            r = fin(*call_impl(pb.subbasins_pfafstetter, np.array(a[2], dtype=np.int32), arr, sq, ds_array(a[3]),
                               np.array(a[4], dtype=np.float64) / scp, None, a[7][0]))
            if a[7][0] >= 2 and r[0] != [-2]:      # the shallower level, for the refinement rule
                r2 = fin(*call_impl(pb.subbasins_pfafstetter, np.array(a[2], dtype=np.int32), arr, sq, ds_array(a[3]),
                                    np.array(a[4], dtype=np.float64) / scp, None, a[7][0] - 1))
                r.append(r2[0])
            return r
    flw = pyflwdir.from_array(np.array(call["flw"], dtype=np.uint8).reshape(call["nr"], call["nc"]), ftype="d8")
    if k == 1801:
        mask = np.array(a[5], dtype=bool).reshape(call["nr"], call["nc"]) if a[4][0] else None
        return fin(*call_impl(flw.subbasins_streamorder, mask=mask, min_sto=a[3][0]))
    if k == 1802:
        upa = np.array(a[3], dtype=np.float64).reshape(call["nr"], call["nc"])
        return fin(*call_impl(flw.subbasins_area, float(a[4][0]), uparea=upa))
    if k == 1803:
        upa = np.array(a[4], dtype=np.float64).reshape(call["nr"], call["nc"])
        return fin(*call_impl(flw.subbasins_pfafstetter, depth=a[7][0], uparea=upa, upa_min=float(call["upa_min"])))
    raise ValueError(k)


def _first_label(ds, seeds, i):
    n = len(ds)
    j, steps = i, 0
    while steps <= n:
        if j in seeds:
            return seeds[j]
        if ds[j] == j:
            return 0
        j = ds[j]; steps += 1
    return 0


def oracle(case, out):
    k, a = case["k"], case["args"]
    if out and out[0] == [-2]:
        return ("subbas:unexpected-exception", f"{out}")
    ds = a[0]
    n = len(ds)
    lab, idxs = out[0], out[1]
    if len(set(idxs)) != len(idxs) or any(i < 0 or ds[i] < 0 for i in idxs):
        return ("subbas:outlets-invalid", f"{idxs}")
    if k in (1801, 1802):
        seeds = {x: kk + 1 for kk, x in enumerate(idxs)}
        exp = [(_first_label(ds, seeds, i) if ds[i] >= 0 else 0) for i in range(n)]
        if lab != exp:
            return ("subbas:closure", f"labels {lab} but first-outlet-downstream gives {exp} for outlets {idxs}")
        if k == 1801:
            so, ms = a[2], a[3][0]
            if ms < 0:
                ms = max(so) + ms
            mask = a[5] if a[4][0] else None        # mask: consider only True cells
            if mask is not None and any(not mask[i] for i in idxs):
                return ("subbas:streamorder-outlet-outside-mask", f"outlets {sorted(idxs)} mask {mask}")
            want = sorted(i for i in range(n) if ds[i] >= 0 and so[i] >= ms and (so[i] != so[ds[i]] or ds[i] == i)
                          and (mask is None or mask[i]))
            if sorted(idxs) != want:
                return ("subbas:streamorder-outlets", f"outlets {sorted(idxs)} expected {want}")
        else:
            upa, amin = a[3], a[4][0]
            for kk, x in enumerate(idxs):
                if ds[x] != x and _is_level_order(ds, a[1]):
                    own = sum(1 for c in range(n) if lab[c] == kk + 1)
                    # own area of the sub-basin = uparea at its outlet minus uparea entering from upstream sub-basins
                    inflow = sum(upa[c] for c in range(n) if ds[c] >= 0 and ds[c] != c and lab[ds[c]] == kk + 1 and lab[c] != kk + 1 and lab[c] != 0)
                    if upa[x] - inflow <= amin:
                        return ("subbas:area-threshold", f"sub-basin {kk + 1} at {x} has own area {upa[x] - inflow} <= {amin}")
        return None
    if k == 1803:
        depth = a[7][0]
        seeds = {}
        for x in idxs:
            seeds[x] = lab[x]
        if any(lab[x] == 0 for x in idxs):
            return ("pfaf:outlet-unlabelled", f"{idxs} {lab}")
        exp = [(_first_label(ds, seeds, i) if ds[i] >= 0 else 0) for i in range(n)]
        if lab != exp:
            return ("pfaf:closure", f"labels {lab} but first-outlet-downstream gives {exp} for outlets {idxs}")
        for v in lab:
            if v:
                digs = [int(c) for c in str(v).rjust(depth, "0")]
                if len(digs) != depth or any(d < 1 or d > 9 for d in digs):
                    return ("pfaf:digits", f"code {v} at depth {depth}")
        if len(out) > 2 and not _has_ties(case):
            shallow = out[2]
            if any(v // 10 != s_ for v, s_ in zip(lab, shallow)):
                return ("pfaf:refinement", f"depth {depth} codes {lab} do not refine depth {depth - 1} codes {shallow}")
        # odd digits, non-decreasing, walking up the main stem from every pit
        main = a[3]
        for p in a[2]:
            prev, cur = 0, p
            while cur >= 0 and lab[cur] != 0:
                d = lab[cur] // (10 ** (depth - 1))
                if d % 2 == 0:
                    break          # left the first-level main stem (an even = tributary basin) -- cannot happen along main
                if d < prev:
                    return ("pfaf:main-stem-order", f"first-level digits decrease upstream along the main stem of pit {p}: {lab}")
                prev, cur = d, main[cur]
        return None
    return None


def _has_ties(case):
    a = case["args"]
    ds, upa = a[0], a[4]
    n = len(ds)
    nup = [sum(1 for c in range(n) if ds[c] == j and c != j) for j in range(n)]
    vals = [u for i, u in enumerate(upa) if ds[i] >= 0]
    return max(nup) >= 3 or len(set(vals)) != len(vals)


def compare(case, i, m):
    i = i[:2]
    if case["k"] == 1803 and i != m and _has_ties(case):
        return True     # equally large tributaries / more than two inflows: the numbering among them is arbitrary
    return i == m


def post_checks(case, out):
    # deeper Pfafstetter levels refine shallower ones: checked by re-running at depth-1 in compare-free mode is
    # done in the oracle of the thorough tier through `refines`; nothing to hand to the model here
    return []


def nontrivial(case, out):
    return len(out) > 1 and len(out[1]) > 1
