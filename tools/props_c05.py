"""C05 — basins partition cells by outlet; outlet query."""
import numpy as np
import nets

PID = "C05"
THEOREMS = ["basins_spec", "seed_notin", "seed_in", "basins_default_pits", "basins_upstream_closed",
            "basins_ids_passthrough", "region_outlets_spec", "region_outlets_sorted", "basin_outlets_roundtrip", "gen_fillnodata_upstream_eq"]
RULE = ("all loop-free closed graphs with nodata on n<=4 (quick) / n<=5 (thorough) cells x every outlet subset (n<=4) "
        "x default / user ids, through basins.basins with the implementation's own and with random topological orders, "
        "and through FlwdirRaster.basins/basin_outlets (idxs, xy, ids of several dtypes, bad ids); random forests to 60 "
        "cells; a case is non-trivial when some cell is labelled through a link (label differs from its seed)")
ASSUMPTIONS = ["ids > 0 for the outlet query (region_outlets tests lb0 > 0; documented: IDs larger than zero)"]
DTYPES = [np.int16, np.uint32, np.int64, np.int32]


def _small_nets(maxn):
    for n in range(2, maxn + 1):
        for ds in nets.all_graphs(n):
            if nets.is_wf(ds) and nets.is_loopfree(ds) and nets.pits(ds):
                yield ds


def cases(tier, rng):
    for c in _cases(tier, rng):
        if c["k"] == 503:
            ds = c["args"][0]
            c["args"][1] = nets.topo_order(ds)
            if c["call"]["mode"] == "default":
                c["args"][2] = nets.pits(ds)
        yield c


def _cases(tier, rng):
    maxn = 4 if tier == "quick" else 5
    for ds in _small_nets(maxn):
        n = len(ds)
        valid = [i for i in range(n) if ds[i] >= 0]
        subsets = range(1, 2 ** len(valid)) if n <= 4 else [rng.randrange(1, 2 ** len(valid)) for _ in range(3)]
        for bits in subsets:
            outs = [v for j, v in enumerate(valid) if bits >> j & 1]
            if rng.random() < 0.5:
                rng.shuffle(outs)
            hasids = rng.random() < 0.5
            ids = [rng.choice([1, 2, 3, 5, 9, 40000]) for _ in outs] if hasids else []
            sq = nets.topo_order(ds, rng if rng.random() < 0.5 else None)
            yield {"k": 501, "args": [ds, outs, sq, [int(hasids)], ids], "group": f"exh-n{n}-kernel"}
        # API level: default outlets + outlet query round trip
        if rng.random() < 0.3 or n <= 3:
            yield {"k": 503, "args": [ds, [], [], [0], []], "call": {"mode": "default", "dtype": 3}, "group": f"exh-n{n}-api-default"}
    nrand = 300 if tier == "quick" else 3000
    for t in range(nrand):
        n = rng.randint(2, 60 if t % 3 else 12)
        ds = nets.random_forest(rng, n, p_nodata=rng.choice([0, 0.1, 0.3]))
        valid = [i for i in range(n) if ds[i] >= 0]
        k = rng.randint(1, max(1, min(len(valid), 6)))
        outs = rng.sample(valid, k)
        if rng.random() < 0.15:
            outs.append(rng.choice(outs))       # duplicate outlet: later id wins
        mode = rng.choice(["idxs", "idxs", "xy", "default", "badids", "streams"])
        dt = rng.randrange(4)
        hasids = mode == "badids" or rng.random() < 0.6
        ids = [rng.randint(1, 30000) for _ in outs] if hasids else []
        if hasids and dt in (1, 2) and rng.random() < 0.4:
            # wide id types carry large basin ids (e.g. Pfafstetter-style codes above 2^31)
            ids = [rng.choice([2**31 + rng.randint(0, 9), 4050022030 - rng.randint(0, 9), rng.randint(1, 30000)]) for _ in outs]
        if mode == "badids":
            if rng.random() < 0.5:
                ids[rng.randrange(len(ids))] = 0
            else:
                ids = ids + [4]
        if mode == "default":
            hasids = rng.random() < 0.3
            outs = []
            ids = [rng.randint(1, 30000) for _ in nets.pits(ds)] if hasids else []
        extra = {}
        if mode == "streams":
            # outlets are first moved to the first stream cell at or downstream of them (or the pit): round-5 seed;
            # the model and the oracle get the snapped outlets, the implementation the raw ones and the stream mask
            strm = [int(ds[i] >= 0 and rng.random() < rng.choice([0.2, 0.5])) for i in range(n)]
            for o in rng.sample(outs, rng.randint(0, len(outs))):
                strm[o] = 1             # mixed requests: some outlets already on a stream
            snapped = []
            for o in outs:
                j = o
                while not strm[j] and ds[j] != j:
                    j = ds[j]
                snapped.append(j)
            extra = {"raw_outs": outs, "streams": strm}
            outs = snapped
        yield {"k": 503, "args": [ds, [], outs, [int(hasids)], ids], "call": dict({"mode": mode, "dtype": dt}, **extra),
               "group": f"rand-api-{mode}"}
        # the same query on an object that answered basins() before pits were added (round-3 seed: a memoised map)
        nonpit = [i for i in valid if ds[i] != i]
        if nonpit and mode in ("default", "idxs") and rng.random() < 0.5:
            added = rng.sample(nonpit, rng.randint(1, min(2, len(nonpit))))
            ds2 = [(i if i in added else d) for i, d in enumerate(ds)]
            ids2 = ([rng.randint(1, 30000) for _ in nets.pits(ds2)] if hasids else []) if mode == "default" else ids
            yield {"k": 503, "args": [ds2, [], outs, [int(hasids)], ids2], "call": {"mode": mode, "dtype": dt, "from": ds, "addpits": added},
                   "group": f"rand-api-{mode}-after-add-pits"}
        # objects PARSED from D8 / LDD rasters whose streams also leave the raster or end at missing cells: those outlets are pits
        # with basins and basin outlets like the explicitly coded ones (round-6 seed)
        if t % 3 == 0:
            nr_, nc_ = rng.randint(1, 6), rng.randint(2, 6)
            codes = nets.random_d8_raster(rng, nr_, nc_, p_nodata=rng.choice([0, 0.15]), loopfree=True)
            for i in range(nr_ * nc_):
                r_, c_ = divmod(i, nc_)
                if codes[i] != 247 and rng.random() < 0.3:
                    off = [cd for (dr, dc), cd in nets.D8.items() if not (0 <= r_ + dr < nr_ and 0 <= c_ + dc < nc_)]
                    if off:
                        codes[i] = rng.choice(off)
            dsr = nets.d8_decode(codes, nr_, nc_)
            if nets.pits(dsr):
                yield {"k": 503, "args": [dsr, [], [], [0], []], "call": {"mode": "default", "dtype": 3, "raster": {"nr": nr_, "nc": nc_, "codes": codes, "ftype": rng.choice(["d8", "ldd"])}},
                       "group": "rand-api-default-parsed"}
        # region outlets on arbitrary label maps
        regions = [rng.choice([0, 1, 2, 3]) if ds[i] >= 0 or rng.random() < 0.5 else 0 for i in range(n)]
        yield {"k": 502, "args": [ds, regions, nets.topo_order(ds, rng)], "group": "rand-region-outlets"}
    for ds in nets.structured(rng):
        if nets.is_loopfree(ds):
            yield {"k": 503, "args": [ds, [], [], [0], []], "call": {"mode": "default", "dtype": 1}, "group": "structured"}


def impl(case):
    from common import call_impl
    from implutil import ds_array, make_raster, idx_list
    from pyflwdir import basins as pb, regions as pr
    k, a = case["k"], case["args"]
    if k == 501:
        ds, outs, sq, hasids, ids = a
        idsa = np.array(ids, dtype=np.uint32) if hasids[0] else None
        st, v = call_impl(pb.basins, ds_array(ds), np.array(outs, dtype=np.int32), np.array(sq, dtype=np.int32), idsa)
        return [[int(x) for x in v]] if st == "ok" else [[-2], [st]]
    if k == 502:
        ds, regions, sq = a
        st, v = call_impl(pr.region_outlets, np.array(regions, dtype=np.int32), ds_array(ds), np.array(sq, dtype=np.int32))
        if st != "ok":
            return [[-2], [st]]
        prs = sorted(zip([int(x) for x in v[0]], [int(x) for x in v[1]]))
        return [[p[0] for p in prs], [p[1] for p in prs]]
    if k == 503:
        ds, _, outs, hasids, ids = a
        call = case["call"]
        n = len(ds)
        # rasters: 1 x n when coordinates are involved (arbitrary links are fine for the generic graph kernels)
        if call.get("from"):
            flw = make_raster(call["from"])
            call_impl(flw.basins)
            call_impl(flw.add_pits, idxs=np.array(call["addpits"]))
        elif call.get("raster"):
            import pyflwdir
            rs = call["raster"]
            cds_ = rs["codes"]
            if rs["ftype"] == "ldd":
                cds_ = [{1: 6, 2: 3, 4: 2, 8: 1, 16: 4, 32: 7, 64: 8, 128: 9, 0: 5, 255: 5, 247: 255}[c] for c in cds_]
            flw = pyflwdir.from_array(np.array(cds_, dtype=np.uint8).reshape(rs["nr"], rs["nc"]), ftype=rs["ftype"])
        else:
            flw = make_raster(ds)
        dt = DTYPES[call["dtype"]]
        kw = {}
        if call["mode"] == "xy":
            # cell-centre coordinates under transforms with square and non-square, north-up and south-up cells and a
            # far origin (round-5 seed); every value is exact in binary64
            from affine import Affine
            xres, yres, x0, y0 = [(1.0, -1.0, 0.0, 0.0), (0.5, -0.25, 100.0, 40.0), (2.0, 3.0, -7.0, 5.0), (30.0, -90.0, 1000.0, 2000.0)][(sum(ds) + n) % 4]
            flw = make_raster(ds, transform=Affine(xres, 0.0, x0, 0.0, yres, y0))
            ncol = flw.shape[1]
            kw["xy"] = (np.array([x0 + (o % ncol + 0.5) * xres for o in outs]), np.array([y0 + (o // ncol + 0.5) * yres for o in outs]))
        elif call["mode"] == "streams":
            kw["idxs"] = np.array(call["raw_outs"], dtype=np.int64)
            kw["streams"] = np.array(call["streams"], dtype=bool).reshape(1, n)
        elif call["mode"] != "default":
            kw["idxs"] = np.array(outs, dtype=np.int64)
        if hasids[0]:
            kw["ids"] = np.array(ids, dtype=dt)
        st, v = call_impl(flw.basins, **kw)
        if st == "ValueError":
            return [[1]]
        if st != "ok":
            return [[-2], [st]]
        dtype_ok = (v.dtype == (dt if hasids[0] else np.uint32)) and v.shape == flw.shape
        if not dtype_ok:
            return [[-3], [str(v.dtype)]]
        st2, ol = call_impl(flw.basin_outlets, v)
        if st2 != "ok":
            return [[-2], ["basin_outlets:" + st2]]
        prs = sorted(zip([int(x) for x in ol[0]], [int(x) for x in ol[1]]))
        return [[0], [int(x) for x in v.ravel()], [p[0] for p in prs], [p[1] for p in prs]]
    if k == 504:
        from pyflwdir import core
        ds, sq, data, nodata = a
        st, v = call_impl(core.fillnodata_upstream, ds_array(ds), np.array(sq, dtype=np.int32), np.array(data, dtype=np.int64), nodata[0])
        return [[int(x) for x in v]] if st == "ok" else [[-2], [st]]
    raise ValueError(k)




def _labels(ds, outs, ids):
    n = len(ds)
    seedv = {}
    for o, i in zip(outs, ids):
        seedv[o] = i
    out = []
    for i in range(n):
        if ds[i] < 0:
            out.append(seedv.get(i, 0)); continue
        j, lab, steps = i, 0, 0
        while steps <= n:
            if j in seedv:
                lab = seedv[j]; break
            if ds[j] == j:
                break
            j = ds[j]; steps += 1
        out.append(lab)
    return out


def oracle(case, out):
    k, a = case["k"], case["args"]
    if out and out[0] in ([-2], [-3]):
        return ("basins:unexpected-exception-or-dtype", f"{out}")
    if k == 501:
        ds, outs, sq, hasids, ids = a
        ids = ids if hasids[0] else list(range(1, len(outs) + 1))
        exp = _labels(ds, outs, ids)
        return None if out == [exp] else ("basins:kernel", f"expected {exp} got {out}")
    if k == 502:
        ds, regions, sq = a
        prs = sorted((regions[i], i) for i in sq if regions[i] > 0 and (ds[i] == i or regions[ds[i]] != regions[i]))
        exp = [[p[0] for p in prs], [p[1] for p in prs]]
        return None if out == exp else ("region_outlets", f"expected {exp} got {out}")
    if k == 503:
        ds, _, outs, hasids, ids = a
        mode = case["call"]["mode"]
        if mode == "default":
            outs = nets.pits(ds)
        if hasids[0] and (len(ids) != len(outs) or 0 in ids):
            return None if out == [[1]] else ("basins:gate", f"bad ids accepted: {out}")
        idl = ids if hasids[0] else list(range(1, len(outs) + 1))
        lab = _labels(ds, outs, idl)
        exp = [[0], lab]
        if out[:2] != exp:
            return ("basins:api", f"expected {exp} got {out[:2]}")
        # basin_outlets of that map: the cells whose downstream cell leaves the basin (or pits), every label > 0
        prs = sorted((lab[i], i) for i in range(len(ds)) if ds[i] >= 0 and lab[i] > 0 and (ds[i] == i or lab[ds[i]] != lab[i]))
        expo = [[p[0] for p in prs], [p[1] for p in prs]]
        return None if out[2:] == expo else ("basin_outlets:api", f"expected {expo} got {out[2:]} for basins {lab}")
    return None


def compare(case, impl_out, model_out):
    if case["k"] == 502 and len(model_out) == 2:
        # ties among equal labels are left to argsort: compare as sorted (label, cell) pairs
        prs = sorted(zip(model_out[0], model_out[1]))
        model_out = [[p[0] for p in prs], [p[1] for p in prs]]
    if case["k"] == 503:
        return impl_out[:2] == model_out[:2]
    return impl_out == model_out


def nontrivial(case, out):
    k, a = case["k"], case["args"]
    if k in (501, 503) and len(out) >= 1 and isinstance(out[-1], list):
        ds = a[0]
        lab = out[1] if k == 503 and len(out) > 1 else out[-1]
        return any(ds[i] >= 0 and ds[i] != i and lab[i] != 0 for i in range(min(len(ds), len(lab))))
    return True
