"""C02 — re-encoding and cross-format conversion preserve the drainage graph."""
import itertools
import numpy as np
import nets
from props_c01 import D8_ALL, LDD_ALL, D8_DIR, LDD_DIR, SHAPES, _expected

PID = "C02"
THEOREMS = ["to_d8_roundtrip", "to_ldd_roundtrip", "to_nextxy_roundtrip", "to_d8_total", "to_ldd_total",
            "roundtrip_from_d8", "roundtrip_from_ldd", "roundtrip_from_nextxy", "export_canonical_d8",
            "export_canonical_ldd", "primary_pit_codes", "remap_d8_to_ldd", "remap_ldd_to_d8", "remap_unknown", "gen_d8_to_array_eq", "gen_ldd_to_array_eq", "gen_nextxy_to_array_eq"]
RULE = ("all 9 (source, target) format pairs through from_array(...).to_array(target): exhaustive legal D8/LDD rasters on "
        "shapes with <= 3 cells (quick; <= 4 thorough) and a random share of the 4-cell shapes, random rasters to 8x8, "
        "NEXTXY sources with far links (export to D8/LDD must raise ValueError); to_array kernels on arbitrary closed "
        "graphs incl. loops; the two remap functions on all 256 byte values; non-trivial = raster has a non-pit link")
ASSUMPTIONS = ["n < 2^31 (np.int32 casts in to_array); dtype selection is C16"]
FMT = ["d8", "ldd", "nextxy"]


def cases(tier, rng):
    maxcells = 3 if tier == "quick" else 4
    for ncell in range(2, 5):
        for (nr, nc) in SHAPES[ncell]:
            for src, codes in ((0, D8_ALL), (1, LDD_ALL)):
                for flw in itertools.product(codes, repeat=ncell):
                    if ncell > maxcells and rng.random() > 0.08:
                        continue
                    for tgt in ((0, 1, 2) if ncell <= 3 else (rng.randrange(3),)):
                        yield {"k": 206, "args": [[src], [tgt], [nr], [nc], list(flw), []], "group": f"exh-{FMT[src]}-to-{FMT[tgt]}-{nr}x{nc}"}
    nrand = 500 if tier == "quick" else 5000
    for t in range(nrand):
        nr, nc = rng.randint(1, 8), rng.randint(1, 8)
        if nr * nc < 2:
            nc = 2
        if rng.random() < 0.06:      # more than 256 cells, more than 127 columns / rows (narrow integer types, small sentinels)
            nr, nc = rng.choice([(16, 17), (17, 16), (2, 140), (135, 2), (9, 30)])
        n = nr * nc
        src = rng.randrange(3)
        tgt = rng.randrange(3)
        pn = rng.choice([0.0, 0.1, 0.4])
        if src == 0:
            w = [c for c in D8_ALL if c != 247]
            a, b = [247 if rng.random() < pn else rng.choice(w) for _ in range(n)], []
        elif src == 1:
            w = [c for c in LDD_ALL if c != 255]
            a, b = [255 if rng.random() < pn else rng.choice(w) for _ in range(n)], []
        else:
            a, b = [], []
            far = rng.random() < 0.5
            for i in range(n):
                u = rng.random()
                r, c = divmod(i, nc)
                if u < pn:
                    a.append(-9999); b.append(-9999)
                elif u < pn + 0.15:
                    p = rng.choice([-9, -10]); a.append(p); b.append(p)
                elif far:
                    a.append(rng.randint(0, nc + 1)); b.append(rng.randint(0, nr + 1))
                else:
                    a.append(min(max(c + rng.randint(-1, 1), -1), nc) + 1); b.append(min(max(r + rng.randint(-1, 1), -1), nr) + 1)
        yield {"k": 206, "args": [[src], [tgt], [nr], [nc], a, b], "group": f"rand-{FMT[src]}-to-{FMT[tgt]}"}
    # encoder kernels on arbitrary closed graphs (loops, all-pit, nodata)
    for n in (2, 3, 4):
        for ds in nets.all_graphs(n):
            if not nets.is_wf(ds):
                continue
            for (nr, nc) in SHAPES[n]:
                if n == 4 and rng.random() > (0.3 if tier == "quick" else 1):
                    continue
                yield {"k": rng.choice([201, 202, 203]), "args": [[nc], ds], "call": {"nr": nr}, "group": f"exh-encode-n{n}"}
    yield {"k": 204, "args": [list(range(256))], "group": "remap"}
    yield {"k": 205, "args": [list(range(256))], "group": "remap"}


def _net(flw):
    ids = np.asarray(flw.idxs_ds)
    return ([(-1 if x == flw._mv else int(x)) for x in ids.tolist()], sorted(int(x) for x in flw.idxs_pit))


def _round_trip(pyflwdir, flw, v, tgt, data, src, nr, nc):
    """the export, parsed again (with the format named, and inferred where the codes leave no doubt), is the network it
    was exported from; so is the export of a network parsed with a mask that cuts links (round-4 seeds).  -> message or None"""
    from common import call_impl
    want = _net(flw)
    st, f2 = call_impl(pyflwdir.from_array, v, ftype=FMT[tgt])
    if st != "ok" or _net(f2) != want:
        return f"export to {FMT[tgt]} parsed again differs from the network it came from ({st})"
    vals = set(int(x) for x in np.asarray(v).ravel()) if tgt < 2 else set()
    if tgt == 1 and vals & {3, 5, 6, 7, 9}:          # codes no D8 raster contains: the inference cannot take it for D8
        st, f3 = call_impl(pyflwdir.from_array, v)
        if st != "ok" or f3.ftype != "ldd" or _net(f3) != want:
            return f"LDD export parsed with ftype='infer' gives ftype {getattr(f3, 'ftype', st)} / another network"
    # a mask that cuts links: cells draining into a masked-out cell become pits, and exporting keeps it so
    n = nr * nc
    m = np.array([((i * 7 + int(np.asarray(data).ravel()[i % np.asarray(data).size])) % 4) != 0 for i in range(n)]).reshape(nr, nc)
    st, fm = call_impl(pyflwdir.from_array, data, ftype=FMT[src], mask=m)
    if st == "ok":
        nm = _net(fm)
        bad = [i for i, d in enumerate(nm[0]) if d >= 0 and nm[0][d] < 0]
        if bad:
            return f"from_array(mask=...) leaves cells {bad[:4]} draining into cells outside the network"
        st, vm = call_impl(fm.to_array, FMT[tgt])
        if st == "ok":
            st, f4 = call_impl(pyflwdir.from_array, vm, ftype=FMT[tgt])
            if st != "ok" or _net(f4) != nm:
                return f"masked network exported to {FMT[tgt]} and parsed again differs"
    return None


def impl(case):
    from common import call_impl
    from implutil import ds_array
    import pyflwdir
    from pyflwdir import core_d8, core_ldd, core_nextxy, core_conversion
    k, a = case["k"], case["args"]
    if k == 206:
        src, tgt, nr, nc = a[0][0], a[1][0], a[2][0], a[3][0]
        if src < 2:
            data = np.array(a[4], dtype=np.uint8).reshape(nr, nc)
        else:
            data = np.stack([np.array(a[4], dtype=np.int32).reshape(nr, nc), np.array(a[5], dtype=np.int32).reshape(nr, nc)])
        before = data.copy()
        st, flw = call_impl(pyflwdir.from_array, data, ftype=FMT[src])
        if st == "ValueError":
            return [[1]]
        if st != "ok":
            return [[-2], [st]]
        # the default ftype='infer' takes the first format the raster is valid for (D8 before LDD before NEXTXY): a valid D8
        # raster is D8 even when its codes are all legal LDD codes (round-5 seed); an LDD raster with a code no D8 raster
        # has is LDD; a two-layer raster is NEXTXY
        srcvals = set(int(x) for x in a[4]) if src < 2 else set()
        if src == 0 or src == 2 or (srcvals & {3, 5, 6, 7, 9}):
            st, fi = call_impl(pyflwdir.from_array, data)
            if st != "ok" or fi.ftype != FMT[src] or _net(fi) != _net(flw):
                return [[-6], [f"source raster parsed with ftype='infer' gives {getattr(fi, 'ftype', st)} / another network than ftype={FMT[src]!r}"]]
        # a third of the exports each from objects holding the same network with uint32 / int64 cell indices (the missing
        # value is then the largest value of the type, resp. -1): round-3 seed
        sel = (sum(int(x) for x in a[4]) + tgt) % 3
        if sel:
            dt = np.dtype([None, np.uint32, np.int64][sel])
            ids = np.asarray(flw.idxs_ds)
            mvn = np.iinfo(dt).max if dt.kind == "u" else -1
            new = np.array([mvn if x == flw._mv else int(x) for x in ids.tolist()], dtype=dt)
            flw = pyflwdir.FlwdirRaster(idxs_ds=new, shape=flw.shape, ftype=flw.ftype)
        st, v = call_impl(flw.to_array, FMT[tgt])
        if not np.array_equal(before, data):
            return [[-4], ["input mutated"]]
        if st == "ValueError":
            return [[1]]
        if st != "ok":
            return [[-2], [st]]
        rt = _round_trip(pyflwdir, flw, v, tgt, data, src, nr, nc)
        if rt:
            return [[-6], [rt]]
        # the default export is the export to the object's own format, whatever was exported before (round-5 seed)
        st0, v0 = call_impl(flw.to_array)
        st1, v1 = call_impl(flw.to_array, FMT[src])
        if st0 != st1 or (st0 == "ok" and not np.array_equal(np.asarray(v0), np.asarray(v1))):
            return [[-6], [f"to_array() after to_array({FMT[tgt]!r}) is not the export to the source format {FMT[src]!r}"]]
        if tgt < 2:
            if v.dtype != np.uint8 or v.shape != (nr, nc):
                return [[-3], [str(v.dtype)]]
            return [[0], [int(x) for x in v.ravel()]]
        if v.dtype != np.int32 or v.shape != (2, nr, nc):
            return [[-3], [str(v.dtype)]]
        return [[0], [int(x) for x in v[0].ravel()], [int(x) for x in v[1].ravel()]]
    if k in (201, 202, 203):
        nc, ds = a[0][0], a[1]
        nr = case["call"]["nr"]
        mod = [core_d8, core_ldd, core_nextxy][k - 201]
        st, v = call_impl(mod.to_array, ds_array(ds), (nr, nc))
        if st == "ValueError":
            return [[1]]
        if st != "ok":
            return [[-2], [st]]
        if k == 203:
            return [[0], [int(x) for x in v[0].ravel()], [int(x) for x in v[1].ravel()]]
        return [[0], [int(x) for x in v.ravel()]]
    if k in (204, 205):
        f = core_conversion.d8_to_ldd if k == 204 else core_conversion.ldd_to_d8
        st, v = call_impl(f, np.array(a[0], dtype=np.uint8))
        return [[int(x) for x in v]] if st == "ok" else [[-2], [st]]
    raise ValueError(k)


def _decode_any(fmt, nr, nc, out):
    if fmt == 2:
        return _expected(2, nr, nc, out[1], out[2])[0]
    return _expected(fmt, nr, nc, out[1], None)[0]


def _nb8(ds, nc):
    for i, d in enumerate(ds):
        if d >= 0 and (abs(d // nc - i // nc) > 1 or abs(d % nc - i % nc) > 1):
            return False
    return True


def oracle(case, out):
    k, a = case["k"], case["args"]
    if out and out[0] in ([-2], [-3], [-4], [-6]):
        return ("convert:unexpected-outcome", f"{out}")
    if k == 206:
        src, tgt, nr, nc = a[0][0], a[1][0], a[2][0], a[3][0]
        g = _expected(src, nr, nc, a[4], a[5] if src == 2 else None)
        if not g[1]:
            return None if out == [[1]] else ("convert:no-pits", f"{out}")
        ds = g[0]
        if out == [[1]]:
            if tgt == 2 or _nb8(ds, nc):
                return ("convert:raises", f"export of an 8-neighbour network raised ValueError: {a}")
            return None
        back = _decode_any(tgt, nr, nc, out)
        if back != ds:
            return (f"convert:roundtrip-{FMT[src]}-{FMT[tgt]}", f"graph {ds} exported as {out[1:]} parses back as {back}")
        if src == tgt and src < 2:
            mvv, pit = (247, 0) if src == 0 else (255, 5)
            canon = [mvv if v == mvv else (pit if ds[i] == i else v) for i, v in enumerate(a[4])]
            if out[1] != canon:
                return ("convert:canonical", f"expected canonical export {canon} got {out[1]}")
        return None
    if k in (201, 202, 203):
        nc, ds = a[0][0], a[1]
        nr = case["call"]["nr"]
        if out == [[1]]:
            return None if (k != 203 and not _nb8(ds, nc)) else ("encode:raises", f"{a}")
        if k != 203 and not _nb8(ds, nc):
            return ("encode:accepted-far-link", f"{a} -> {out}")
        back = _decode_any(k - 201, nr, nc, out)
        # self-loops through longer cycles survive; a parsed graph must equal the source graph
        if back != ds:
            return ("encode:roundtrip", f"graph {ds} exported as {out[1:]} parses back as {back}")
        return None
    if k in (204, 205):
        src_dir, tgt_dir = (D8_DIR, LDD_DIR) if k == 204 else (LDD_DIR, D8_DIR)
        smv, tmv = (247, 255) if k == 204 else (255, 247)
        inv = {}
        for code, off in tgt_dir.items():
            inv.setdefault(off, code)
        inv[(0, 0)] = 5 if k == 204 else 0
        exp = [(inv[src_dir[v]] if v in src_dir else tmv) for v in a[0]]
        return None if out == [exp] else ("remap", f"expected {exp} got {out}")
    return None


def nontrivial(case, out):
    return len(out) > 1
