"""C10 — unit catchments and per-outlet river segments."""
import statistics
from fractions import Fraction
import numpy as np
import nets

PID = "C10"
THEOREMS = ["ucat_seed_in", "ucat_seed_notin", "ucat_map_spec", "ucat_area_spec", "gain_def", "ucat_missing_empty", "seg_spec", "gen_ucat_area_eq", "lstsq_optimal", "lstsq_denominator_nonzero_iff", "lstsq_exact_line", "lstsq_two_points", "gen_segment_length_topo", "gen_segment_average_topo", "gen_segment_median_topo", "gen_ucat_volume_eq"]
RULE = ("loop-free closed graphs on n<=4 cells (n<=5 thorough) x outlet lists with gaps (missing entries), integer "
        "areas, hand and depths, through subgrid.ucat_area / ucat_volume / segment_length / segment_average / "
        "segment_median in both directions with and without river masks; random D8 rasters to 8x8 through "
        "FlwdirRaster.ucat_outlets (both methods, cell sizes 1..4; outlet pixels must lie inside their cell, and for "
        "eam_plus flow into another cell unless a pit), ucat_area, ucat_volume, subgrid_rivlen/rivavg/rivmed (weights also as a 2-D map), "
        "subgrid_rivslp in the three directions with all-true (= unmasked) and all-false (slope 0) river masks; arithmetics.lstsq on "
        "integer points against the exact rational model, also as float32 arrays far from zero (group lstsq-f32); "
        "non-trivial = some catchment has more than one cell")
ASSUMPTIONS = ["outlet pixels pairwise distinct (documented domain; duplicates are exercised in correspondence only)",
               "areas / hand / depths are integers in the model; the least-squares kernel is modelled over exact rationals (binary64 results compared to 1e-9), the slope of a whole segment through the API is compared only between masks (all-true mask = unmasked, all-false mask = 0), its value rests on lstsq",
               "the outlet-pixel clause (inside own cell) is checked on the implementation's output here; the theorem is C09's outlet_pixel_spec"]


def _outs(ds, rng):
    n = len(ds)
    valid = [i for i in range(n) if ds[i] >= 0]
    k = rng.randint(1, max(1, min(len(valid), 4)))
    outs = rng.sample(valid, k)
    if rng.random() < 0.4:
        outs.insert(rng.randrange(len(outs) + 1), -1)
    return outs


def _kernel_cases(ds, rng, tag):
    n = len(ds)
    sq = nets.topo_order(ds, rng)
    outs = _outs(ds, rng)
    area = [rng.randint(1, 4) for _ in range(n)]
    yield {"k": 1001, "args": [ds, outs, sq, area], "group": f"{tag}-ucat_area"}
    hand = [rng.randint(0, 3) for _ in range(n)]
    depths = rng.choice([[1, 2, 4], [4, 2, 1], [2, 4, 1], [3], [0, 5, 2]])      # also unsorted depth lists
    yield {"k": 1002, "args": [ds, outs, sq, hand, area, depths], "group": f"{tag}-ucat_volume"}
    from props_c08 import _uparea, _main
    for direction in ("down", "up"):
        nxt = ds if direction == "down" else _main(ds, _uparea(ds), 0)
        hm = rng.randrange(2)
        mask = [int(rng.random() < 0.75) for _ in range(n)] if hm else []
        dist = [rng.randint(0, 9) for _ in range(n)]
        data = [(-9999 if rng.random() < 0.2 else rng.randint(0, 9)) for _ in range(n)]
        w = [rng.randint(1, 3) for _ in range(n)] if rng.random() < 0.5 else []
        yield {"k": 1003, "args": [nxt, outs, [hm], mask, dist, [-9999]], "group": f"{tag}-seglen-{direction}"}
        yield {"k": 1004, "args": [nxt, outs, [hm], mask, data, [-9999], w], "group": f"{tag}-segavg-{direction}"}
        yield {"k": 1005, "args": [nxt, outs, [hm], mask, data, [-9999]], "group": f"{tag}-segmed-{direction}"}


def cases(tier, rng):
    maxn = 4 if tier == "quick" else 5
    for n in range(2, maxn + 1):
        for ds in nets.all_graphs(n):
            if nets.is_wf(ds) and nets.is_loopfree(ds) and nets.pits(ds) and (n <= 3 or rng.random() < 0.25):
                yield from _kernel_cases(ds, rng, f"exh-n{n}")
    for t in range(100 if tier == "quick" else 1000):
        ds = nets.random_forest(rng, rng.randint(2, 40), p_nodata=rng.choice([0, 0.1]))
        yield from _kernel_cases(ds, rng, "rand")
    # the least-squares kernel behind the channel slopes, on integer points with strictly increasing abscissae (distances)
    for t in range(150 if tier == "quick" else 1500):
        m_ = rng.randint(2, 9)
        xs = sorted(rng.sample(range(0, 60), m_))
        ys = [rng.randint(-20, 40) for _ in range(m_)]
        if rng.random() < 0.2:      # points on a line
            a_, b_ = rng.randint(-3, 3), rng.randint(-5, 5)
            ys = [a_ * x + b_ for x in xs]
        yield {"k": 1006, "args": [xs, ys], "group": "lstsq"}
    # the same kernel on the arrays the slope methods hand it: float32 distances far from zero (a river hundreds of
    # kilometres long sampled every ~100 m); every value is an integer below 2^24, hence exact in float32
    for t in range(30 if tier == "quick" else 300):
        m_ = rng.randint(3, 12)
        x0 = rng.randint(50000, 400000)
        xs = [x0 + 100 * j + rng.randint(0, 30) for j in range(m_)]
        y0, dy = rng.randint(0, 500), rng.randint(1, 9)
        ys = [y0 + dy * j + rng.randint(0, 1) for j in range(m_)]
        yield {"k": 1006, "args": [xs, ys], "f32": True, "group": "lstsq-f32"}
    for t in range(80 if tier == "quick" else 800):
        nr, nc = rng.randint(2, 8), rng.randint(2, 8)
        if rng.random() < 0.25:      # rasters one or two pixels wide / high (round-6 seed: index steps of +-1 are not always east / west)
            nr, nc = rng.choice([(rng.randint(2, 12), rng.randint(1, 2)), (rng.randint(1, 2), rng.randint(2, 12))])
        flw = nets.random_d8_raster(rng, nr, nc, p_nodata=rng.choice([0, 0.1, 0.3]))
        ds = nets.d8_decode(flw, nr, nc)
        if not nets.pits(ds):
            continue
        yield {"k": 1000, "args": [ds, []], "call": {"nr": nr, "nc": nc, "flw": flw, "cellsize": rng.randint(1, 4),
                                                      "method": rng.choice(["eam_plus", "dmm"]), "seed": rng.randrange(10**6)},
               "group": "raster-api"}


def corpus():
    # exactly 256 (and 255 / 257) outlet entries: the label of the last outlet must survive whatever type the map is given
    out = []
    for nr, nc in ((16, 16), (15, 17), (1, 257)):
        flw = [1] * (nr * nc)                 # every cell flows east; the last column holds the pits
        for r in range(nr):
            flw[r * nc + nc - 1] = 0
        ds = nets.d8_decode(flw, nr, nc)
        out.append({"k": 1000, "args": [ds, []], "call": {"nr": nr, "nc": nc, "flw": flw, "cellsize": 1, "method": "eam_plus", "seed": 5},
                    "group": "corpus-many-outlets"})
    return out


def _oq(vals, nodata):
    out = []
    for v in vals:
        v = float(v)
        if v == nodata or v != v or v in (float('inf'), float('-inf')):      # NaN (median of an all-nodata segment) / no finite value
            out += [0, 0, 1]
        else:
            f = Fraction(v)
            out += [1, f.numerator, f.denominator]
    return out


def impl(case):
    from common import call_impl
    from implutil import ds_array, idx_list
    from pyflwdir import subgrid
    k, a = case["k"], case["args"]
    if k == 1006:
        from pyflwdir import arithmetics
        xs, ys = np.array(a[0], dtype=np.float64), np.array(a[1], dtype=np.float64)
        if case.get("f32"):
            st, v = call_impl(arithmetics.lstsq, xs.astype(np.float32), ys.astype(np.float32))
        else:
            st, v = call_impl(arithmetics.lstsq, xs, ys)
        if st != "ok":
            return [[-2], [st]]
        sl, ic = float(v[0]), float(v[1])
        mean = abs((ys[0] - ys[-1]) / (xs[0] - xs[-1]))
        return [_oq([sl, ic, abs(sl), float(mean)], None)]
    if k == 1000:
        return _api(case["call"], a[0])
    ds = a[0]
    n = len(ds)
    arr = ds_array(ds)
    outs = ds_array(a[1])

    def ints(v):
        v = np.asarray(v).ravel()
        if np.any(v != np.round(v)):
            return None
        return [int(x) for x in v]
    if k == 1001:
        st, v = call_impl(subgrid.ucat_area, outs, arr, np.array(a[2], dtype=np.int32), np.array(a[3], dtype=np.int64))
        return [ints(v[0]), ints(v[1])] if st == "ok" else [[-2], [st]]
    if k == 1002:
        st, v = call_impl(subgrid.ucat_volume, outs, arr, np.array(a[2], dtype=np.int32), np.array(a[3], dtype=np.float64),
                          np.array(a[4], dtype=np.float64), np.array(a[5], dtype=np.float64))
        return [ints(v[0])] + [ints(r) for r in v[1]] if st == "ok" else [[-2], [st]]
    mask = np.array(a[3], dtype=bool) if a[2][0] else None
    if k == 1003:
        st, v = call_impl(subgrid.segment_length, outs, arr, np.array(a[4], dtype=np.float64), mask, float(a[5][0]))
        return [ints(v)] if st == "ok" else [[-2], [st]]
    if k == 1004:
        w = np.array(a[6], dtype=np.float64) if a[6] else np.ones(n)
        st, v = call_impl(subgrid.segment_average, outs, arr, np.array(a[4], dtype=np.float64), w, mask, float(a[5][0]))
        return [_oq(v, a[5][0])] if st == "ok" else [[-2], [st]]
    if k == 1005:
        dat = np.array(a[4], dtype=np.float64)
        nod = float(a[5][0])
        if sum(a[4]) % 3 == 0:
            # NaN as the nodata value (round-6 seed): missing cells hold NaN and are ignored like any other nodata value
            dat = np.where(dat == nod, np.nan, dat)
            nod = float("nan")
        st, v = call_impl(subgrid.segment_median, outs, arr, dat, mask, nod)
        return [_oq(v, a[5][0])] if st == "ok" else [[-2], [st]]
    raise ValueError(k)


def _api(call, ds):
    """raster level: outlets inside their cells, map/area/volume consistent with a brute-force walk,
    river statistics callable.  returns [[0]] or [[1], [messages]]"""
    import random
    import pyflwdir
    from common import call_impl
    rng = random.Random(call["seed"])
    nr, nc, cs = call["nr"], call["nc"], call["cellsize"]
    flw = pyflwdir.from_array(np.array(call["flw"], dtype=np.uint8).reshape(nr, nc), ftype="d8")
    bad = []
    st, outs = call_impl(flw.ucat_outlets, cs, method=call["method"])
    if st != "ok":
        return [[1], [f"ucat_outlets({cs},{call['method']}) -> {st}: {outs}"]]
    n = nr * nc
    shape1 = (-(-nr // cs), -(-nc // cs))
    if outs.shape != shape1:
        bad.append(f"outlet array shape {outs.shape} != {shape1}")
    o = [int(x) for x in outs.ravel()]
    o = [(-1 if (x < 0 or x >= n) else x) for x in o]
    seen = set()
    for kk, x in enumerate(o):
        if x < 0:
            continue
        R, C = divmod(kk, shape1[1])
        r, c = divmod(x, nc)
        if ds[x] < 0 or (r // cs, c // cs) != (R, C) or x in seen:
            bad.append(f"outlet pixel {x} of coarse cell {(R, C)} invalid / outside its cell / duplicate")
        seen.add(x)
        if call["method"] == "eam_plus" and ds[x] != x and ds[x] >= 0:
            r2, c2 = divmod(ds[x], nc)
            if (r2 // cs, c2 // cs) == (R, C):
                bad.append(f"eam_plus outlet pixel {x} flows to {ds[x]} inside the same coarse cell {(R, C)}")
    # every coarse cell containing valid pixels... (C09 states the iff; here: a reported outlet implies valid pixels)
    # map / area
    st, v = call_impl(flw.ucat_area, outs, unit="cell")
    if st != "ok":
        bad.append(f"ucat_area -> {st}")
    else:
        m, are = [int(x) for x in v[0].ravel()], [int(x) for x in v[1].ravel()]
        exp_m = []
        for i in range(n):
            lab, j, steps = 0, i, 0
            if ds[i] >= 0:
                while steps <= n:
                    if j in seen:
                        lab = o.index(j) + 1; break
                    if ds[j] == j:
                        break
                    j = ds[j]; steps += 1
            exp_m.append(lab)
        exp_a = [(-9999 if x < 0 else exp_m.count(kk + 1)) for kk, x in enumerate(o)]
        if m != exp_m or are != exp_a:
            bad.append(f"ucat map/area mismatch: {m} {are} expected {exp_m} {exp_a}")
        if sum(a_ for a_ in are if a_ > 0) != sum(1 for x in exp_m if x > 0):
            bad.append("areas do not add up to the number of labelled cells")
        # metric units on 100 m x 50 m cells: the area is the cell count times 5000 m2 / 0.5 ha / 0.005 km2 (round-5 seed)
        from affine import Affine
        flw2 = pyflwdir.from_array(np.array(call["flw"], dtype=np.uint8).reshape(nr, nc), ftype="d8", transform=Affine(100.0, 0.0, 0.0, 0.0, -50.0, 0.0))
        for unit, per in (("m2", 5000.0), ("ha", 0.5), ("km2", 0.005), ("M2", 5000.0)):
            st, v2 = call_impl(flw2.ucat_area, outs, unit=unit)
            if st != "ok":
                bad.append(f"ucat_area(unit={unit}) -> {st}")
                continue
            got = [float(x) for x in np.asarray(v2[1]).ravel()]
            for kk, x in enumerate(o):
                exp_v = -9999.0 if x < 0 else exp_a[kk] * per
                if not (abs(got[kk] - exp_v) <= 1e-5 * max(1.0, abs(exp_v))):
                    bad.append(f"ucat_area(unit={unit}) outlet {kk}: {got[kk]} expected {exp_v}")
                    break
    hand = np.array([rng.randint(0, 3) for _ in range(n)], dtype=np.float32).reshape(nr, nc)
    depths = [1.0, 3.0]
    st, v = call_impl(flw.ucat_volume, outs, hand, depths=np.array(depths, dtype=np.float32))
    if st != "ok":
        bad.append(f"ucat_volume -> {st}")
    else:
        # same labels as ucat_area; volume = sum over the labelled cells of max(depth - hand, 0) x cell area (1 here)
        mv_, vol = [int(x) for x in np.asarray(v[0]).ravel()], np.asarray(v[1])
        hf = [float(x) for x in hand.ravel()]
        if "exp_m" in locals() and mv_ != exp_m:
            bad.append(f"ucat_volume map {mv_} differs from the expected unit-catchment map {exp_m}")
        elif vol.shape != (len(depths),) + tuple(outs.shape):
            bad.append(f"ucat_volume volume shape {vol.shape}")
        elif "exp_m" in locals():
            for di, d in enumerate(depths):
                got = [float(x) for x in vol[di].ravel()]
                for kk, x in enumerate(o):
                    exp_v = -9999.0 if x < 0 else sum(max(d - hf[i], 0.0) for i in range(n) if exp_m[i] == kk + 1)
                    if not (abs(got[kk] - exp_v) <= 1e-4 * max(1.0, abs(exp_v))):
                        bad.append(f"ucat_volume depth {d} outlet {kk}: {got[kk]} expected {exp_v}")
                        break
    for name in ("subgrid_rivlen", "subgrid_rivavg", "subgrid_rivmed"):
        kw = {} if name == "subgrid_rivlen" else {"data": hand}
        st, v = call_impl(getattr(flw, name), outs, direction=rng.choice(["up", "down"]), **kw)
        if st != "ok" or np.asarray(v).shape != outs.shape:
            bad.append(f"{name} -> {st} {v if st != 'ok' else np.asarray(v).shape}")
    # weights given as a map like every other argument, and equal to the default weights
    d_ = rng.choice(["up", "down"])
    st0, v0 = call_impl(flw.subgrid_rivavg, outs, hand, direction=d_)
    st1, v1 = call_impl(flw.subgrid_rivavg, outs, hand, weights=np.ones((nr, nc), dtype=np.float32), direction=d_)
    if st0 != "ok" or st1 != "ok" or not np.array_equal(np.asarray(v0), np.asarray(v1)):
        bad.append(f"subgrid_rivavg with a map of unit weights: {st1} {v1 if st1 != 'ok' else ''} differs from the default weights")
    # the river mask of the slope methods: with no river pixel at all every channel section is the outlet pixel alone
    # (slope 0), with every pixel a river pixel the mask changes nothing
    zz = np.array([rng.randint(0, 50) for _ in range(n)], dtype=np.float32).reshape(nr, nc)
    for d_ in ("both", "up", "down"):
        kw = {"length": float(rng.choice([1, 2, 5]))} if d_ == "both" else {}
        st0, v0 = call_impl(flw.subgrid_rivslp, outs, zz, direction=d_, **kw)
        st1, v1 = call_impl(flw.subgrid_rivslp, outs, zz, direction=d_, mask=np.ones((nr, nc), dtype=bool), **kw)
        st2, v2 = call_impl(flw.subgrid_rivslp, outs, zz, direction=d_, mask=np.zeros((nr, nc), dtype=bool), **kw)
        if st0 != "ok" or st1 != "ok" or st2 != "ok":
            bad.append(f"subgrid_rivslp({d_}) with masks -> {st0} {st1} {st2}")
            continue
        if not np.array_equal(np.asarray(v0), np.asarray(v1)):
            bad.append(f"subgrid_rivslp({d_}, mask all true) differs from the unmasked slopes")
        got = [float(x) for x in np.asarray(v2).ravel()]
        if any(x >= 0 and got[kk] != 0.0 for kk, x in enumerate(o)):
            bad.append(f"subgrid_rivslp({d_}, mask all false) reports a slope {got} although no pixel is a river pixel")
    return [[0]] if not bad else [[1], bad[:3]]


def _seg(nxt, outs, mask, incl, o):
    n = len(nxt)
    oset = set(x for x in outs if x >= 0)
    p = [o]
    cur = o
    for _ in range(n + 1):
        x = nxt[cur]
        if x < 0 or x == cur or (mask and not mask[x]):
            break
        if x in oset:
            if incl:
                p.append(x)
            break
        p.append(x)
        cur = x
    return p


def oracle(case, out):
    k, a = case["k"], case["args"]
    if out and out[0] == [-2]:
        return ("ucat:unexpected-exception", f"{out}")
    if k == 1000:
        return None if out == [[0]] else ("ucat:api", f"{out[1]}")
    if k == 1006:
        # the least-squares line through integer points, in exact rationals
        xs, ys = [Fraction(x) for x in a[0]], [Fraction(y) for y in a[1]]
        n_ = len(xs)
        den = n_ * sum(x * x for x in xs) - sum(xs) ** 2
        sl = (n_ * sum(x * y for x, y in zip(xs, ys)) - sum(xs) * sum(ys)) / den
        ic = (sum(ys) - sl * sum(xs)) / n_
        tol = 1e-6 if case.get("f32") else 1e-9
        for j, e in enumerate([sl, ic, abs(sl)]):
            if out[0][3 * j] != 1:
                return ("lstsq:not-finite", f"value {j} of (slope, intercept, |slope|) is not finite; expected {float(e)}")
            g = out[0][3 * j + 1] / out[0][3 * j + 2]
            if not (abs(g - float(e)) <= tol * (1.0 + abs(float(e)))):
                return ("lstsq:value", f"value {j} of (slope, intercept, |slope|): {g} expected {float(e)}")
        return None
    ds, outs = a[0], a[1]
    n = len(ds)
    if k in (1001, 1002):
        oset = {}
        for kk, x in enumerate(outs):
            if x >= 0:
                oset[x] = kk + 1
        if len(oset) != sum(1 for x in outs if x >= 0):
            return None     # duplicate outlets: outside the stated domain
        m = []
        for i in range(n):
            lab, j, steps = 0, i, 0
            if ds[i] >= 0:
                while steps <= n:
                    if j in oset:
                        lab = oset[j]; break
                    if ds[j] == j:
                        break
                    j = ds[j]; steps += 1
            m.append(lab)
        if k == 1001:
            area = a[3]
            are = [(-9999 if x < 0 else sum(area[c] for c in range(n) if m[c] == kk + 1)) for kk, x in enumerate(outs)]
            return None if out == [m, are] else ("ucat:area", f"expected {[m, are]} got {out}")
        hand, area, depths = a[3], a[4], a[5]
        vol = [[(-9999 if x < 0 else sum(area[c] * max(0, d - hand[c]) for c in range(n) if m[c] == kk + 1)) for kk, x in enumerate(outs)] for d in depths]
        return None if out == [m] + vol else ("ucat:volume", f"expected {[m] + vol} got {out}")
    mask = a[3] if a[2][0] else None
    if len(set(x for x in outs if x >= 0)) != sum(1 for x in outs if x >= 0):
        return None
    if k == 1003:
        dist = a[4]
        exp = [(-9999 if o < 0 else abs(dist[_seg(ds, outs, mask, True, o)[-1]] - dist[o])) for o in outs]
        return None if out == [exp] else ("segment:length", f"expected {exp} got {out}")
    data, nodata = a[4], a[5][0]
    exp = []
    for o in outs:
        if o < 0:
            exp += [0, 0, 1]; continue
        p = [j for j in _seg(ds, outs, mask, False, o) if data[j] != nodata]
        if not p:
            exp += [0, 0, 1]; continue
        if k == 1004:
            w = a[6] if a[6] else [1] * n
            q = Fraction(sum(w[j] * data[j] for j in p), sum(w[j] for j in p))
        else:
            q = Fraction(statistics.median([Fraction(data[j]) for j in p]))
        f = Fraction(float(q))
        exp += [1, f.numerator, f.denominator]
    return None if out == [exp] else (f"segment:{'average' if k == 1004 else 'median'}", f"expected {exp} got {out}")


def compare(case, i, m):
    k = case["k"]
    if k == 1006:
        # binary64 results against the exact rationals of the model: the sums are exact on these small integers, the two
        # divisions and the product round (the intercept may cancel: absolute tolerance)
        if not i or i[0] == [-2] or not m or len(m[0]) != len(i[0]):
            return False
        iv, mv = i[0], m[0]
        for j in range(0, len(mv), 3):
            if iv[j] != 1 or mv[j] != 1:
                return False
            a_, b_ = float(Fraction(iv[j + 1], iv[j + 2])), Fraction(mv[j + 1], mv[j + 2])
            # float32 input far from zero: the binary64 normal equations still cancel ~7 digits (n*Sxx - Sx^2)
            tol = 1e-6 if case.get("f32") else 1e-9
            if not (abs(a_ - float(b_)) <= tol * (1.0 + abs(float(b_)))):
                return False
        return True
    if k in (1004, 1005) and i and i[0] != [-2] and m and len(m[0]) == len(i[0]):
        iv, mv = i[0], m[0]
        for j in range(0, len(mv), 3):
            if iv[j] != mv[j]:
                return False
            if mv[j] == 1 and float(Fraction(mv[j + 1], mv[j + 2])) != float(Fraction(iv[j + 1], iv[j + 2])):
                return False
        return True
    return i == m


def nontrivial(case, out):
    return True
